#!/bin/sh
# tools/reroll_seeds.sh -- make sure every seeded/*/patch.diff applies to /repo HEAD (fix: commits move the base).
# A patch that no longer applies is re-rolled with a 3-way merge in a scratch worktree; if that fails it is reported.
WT=/tmp/ts/reroll_$$
mkdir -p /tmp/ts
git -C /repo worktree add --detach "$WT" HEAD >/dev/null 2>&1 || exit 2
trap 'git -C /repo worktree remove --force "$WT" >/dev/null 2>&1' EXIT
for d in /verif/seeded/*/; do
  p="$d/patch.diff"; [ -f "$p" ] || continue
  git -C "$WT" checkout -q -- . ; git -C "$WT" clean -fdq
  if git -C "$WT" apply --check "$p" 2>/dev/null; then echo "ok       $(basename $d)"; continue; fi
  if git -C "$WT" apply --3way "$p" >/dev/null 2>&1 && ! git -C "$WT" diff --name-only --diff-filter=U | grep -q .; then
     git -C "$WT" diff HEAD > "$p.new" && mv "$p.new" "$p"; git -C "$WT" reset -q --hard HEAD; echo "REROLLED $(basename $d)"
  else
     git -C "$WT" reset -q --hard HEAD; echo "FAILED   $(basename $d)  (needs a manual re-roll)"
  fi
done
