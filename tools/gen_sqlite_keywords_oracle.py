"""One-off generator for /verif/oracles/sqlite_keywords.json (stdlib sqlite3 only, never /repo)."""
import json, sqlite3, sys

# SQLite's documented keyword list (https://sqlite.org/lang_keywords.html), 147 words + WITHIN (3.47+)
DOC = """ABORT ACTION ADD AFTER ALL ALTER ALWAYS ANALYZE AND AS ASC ATTACH AUTOINCREMENT BEFORE BEGIN BETWEEN
BY CASCADE CASE CAST CHECK COLLATE COLUMN COMMIT CONFLICT CONSTRAINT CREATE CROSS CURRENT CURRENT_DATE
CURRENT_TIME CURRENT_TIMESTAMP DATABASE DEFAULT DEFERRABLE DEFERRED DELETE DESC DETACH DISTINCT DO DROP EACH
ELSE END ESCAPE EXCEPT EXCLUDE EXCLUSIVE EXISTS EXPLAIN FAIL FILTER FIRST FOLLOWING FOR FOREIGN FROM FULL
GENERATED GLOB GROUP GROUPS HAVING IF IGNORE IMMEDIATE IN INDEX INDEXED INITIALLY INNER INSERT INSTEAD
INTERSECT INTO IS ISNULL JOIN KEY LAST LEFT LIKE LIMIT MATCH MATERIALIZED NATURAL NO NOT NOTHING NOTNULL NULL
NULLS OF OFFSET ON OR ORDER OTHERS OUTER OVER PARTITION PLAN PRAGMA PRECEDING PRIMARY QUERY RAISE RANGE
RECURSIVE REFERENCES REGEXP REINDEX RELEASE RENAME REPLACE RESTRICT RETURNING RIGHT ROLLBACK ROW ROWS
SAVEPOINT SELECT SET TABLE TEMP TEMPORARY THEN TIES TO TRANSACTION TRIGGER UNBOUNDED UNION UNIQUE UPDATE
USING VACUUM VALUES VIEW VIRTUAL WHEN WHERE WINDOW WITH WITHOUT WITHIN""".split()
assert len(set(DOC)) == len(DOC) == 148, len(DOC)

def probe(stmt_template, kw):
    db = sqlite3.connect(":memory:")
    try:
        db.execute(stmt_template.format(kw=kw))
        return True
    except sqlite3.Error:
        return False
    finally:
        db.close()

assert probe("CREATE TABLE t({kw} int)", "plainname")
create_fail = sorted(k.lower() for k in DOC if not probe("CREATE TABLE t({kw} int)", k))

# further contexts in which an identifier is emitted bare: the quoted form must work and the bare form
# must mean the same thing (returns the stored 7), otherwise the word cannot be used bare
CONTEXTS = [
    ("select-column", 'create table t("{kw}" int); insert into t values (7)', "select {kw} from t"),
    ("where-column", 'create table t("{kw}" int); insert into t values (7)', "select 7 from t where {kw} = 7"),
    ("order-by-column", 'create table t("{kw}" int); insert into t values (7)', "select 7 from t order by {kw}"),
    ("table-name", 'create table "{kw}"(x int); insert into "{kw}" values (7)', "select x from {kw}"),
    ("insert-column", 'create table t("{kw}" int)', "insert into t({kw}) values (7) returning 7"
        if sqlite3.sqlite_version_info >= (3, 35) else "insert into t({kw}) values (7)"),
]
by_context = {"create-table-column": list(create_fail)}
for name, setup, q in CONTEXTS:
    bad = []
    for k in DOC:
        db = sqlite3.connect(":memory:")
        try:
            db.executescript(setup.format(kw=k))
            rows = db.execute(q.format(kw=k)).fetchall()
            ok = rows == [(7,)] or (name == "insert-column" and rows == [])
        except sqlite3.Error:
            ok = False
        finally:
            db.close()
        if not ok:
            bad.append(k.lower())
    by_context[name] = sorted(bad)
all_fail = sorted(set().union(*by_context.values()))
# control: the same word, quoted, must work (so the failure is due to the bare keyword, not the probe)
for k in create_fail:
    assert probe('CREATE TABLE t("{kw}" int)', k), k
usable = sorted(k.lower() for k in DOC if k.lower() not in all_fail)
out = {
    "_comment": "SQLite keywords that cannot be used as a bare (unquoted) identifier. Produced once by probing the "
                "sandbox's stdlib sqlite3 library with `CREATE TABLE t(<kw> int)` (and five further bare-identifier contexts) for every keyword of SQLite's "
                "documented keyword list (sqlite.org/lang_keywords.html); each failing word was re-probed quoted "
                "and accepted. Not derived from /repo. Regenerate only by re-running the probe.",
    "sqlite_version": sqlite3.sqlite_version,
    "probe": "CREATE TABLE t(<kw> int); plus select / where / order by / table-name / insert-column contexts",
    "documented_keywords_probed": len(DOC),
    "not_usable_bare": all_fail,
    "failing_contexts": by_context,
    "usable_bare": usable,
}
json.dump(out, open(sys.argv[1], "w"), indent=1)
print(sqlite3.sqlite_version, len(all_fail), "reserved;", len(usable), "usable bare")
