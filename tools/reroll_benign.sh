#!/bin/sh
# tools/reroll_benign.sh -- keep benign/*.diff applicable to /repo HEAD: 3-way re-roll where possible, else move to benign/stale/
WT=/tmp/ts/rrb_$$
mkdir -p /tmp/ts /verif/benign/stale
git -C /repo worktree add --detach "$WT" HEAD >/dev/null 2>&1 || exit 2
trap 'git -C /repo worktree remove --force "$WT" >/dev/null 2>&1' EXIT
for p in /verif/benign/*.diff; do
  git -C "$WT" checkout -q -- . ; git -C "$WT" clean -fdq
  if git -C "$WT" apply --check "$p" 2>/dev/null; then continue; fi
  if git -C "$WT" apply --3way "$p" >/dev/null 2>&1 && ! git -C "$WT" diff --name-only --diff-filter=U | grep -q . && PYTHONPATH=$WT/lib /venv/bin/python -c "import sqlalchemy, sqlalchemy.orm" 2>/dev/null; then
     git -C "$WT" diff HEAD > "$p.new" && mv "$p.new" "$p"; git -C "$WT" reset -q --hard HEAD; echo "REROLLED $(basename $p)"
  else
     git -C "$WT" reset -q --hard HEAD; mv "$p" /verif/benign/stale/; echo "STALE    $(basename $p) (moved to benign/stale/)"
  fi
done
