#!/usr/bin/env python3
"""tools/record_seed.py P K --title .. --site .. --breaks .. --needs .. --status caught|caught-after-strengthening|missed
      --before .. --rule .. --key .. --message .. [--limits ..]
Copies /tmp/seed_out/P/patchK.diff + demoK.py (+notesK.md) to /verif/seeded/P_K/ and writes meta.json."""
import argparse, json, os, shutil, subprocess
ap = argparse.ArgumentParser()
ap.add_argument("P"); ap.add_argument("K")
for a in ("title", "site", "breaks", "needs", "status", "before", "rule", "key", "message", "limits", "tests"):
    ap.add_argument("--" + a, default="")
a = ap.parse_args()
src = os.environ.get("SEED_OUT", "/tmp/seed_out") + f"/{a.P}"; dst = f"/verif/seeded/{a.P}_{a.K}"
os.makedirs(dst, exist_ok=True)
shutil.copy(f"{src}/patch{a.K}.diff", f"{dst}/patch.diff")
shutil.copy(f"{src}/demo{a.K}.py", f"{dst}/demo.py")
if os.path.exists(f"{src}/notes{a.K}.md"):
    shutil.copy(f"{src}/notes{a.K}.md", f"{dst}/notes.md")
def last(path):
    try:
        return open(path).read().strip().splitlines()[-1][:300]
    except Exception:
        return ""
import glob
cl = sorted(glob.glob(f"/tmp/vs/{a.P}_{a.K}*.clean.log")); pl = sorted(glob.glob(f"/tmp/vs/{a.P}_{a.K}*.patched.log"))
meta = {
    "property": a.P, "seed": int(a.K), "title": a.title, "site": a.site, "breaks": a.breaks,
    "needs_to_manifest": a.needs, "origin": "independent sub-agent given only the property text and a scratch worktree; no access to /verif",
    "verified": {"demo_clean": "exit 0: " + (last(cl[-1]) if cl else ""), "demo_patched": "exit != 0: " + (last(pl[-1]) if pl else ""),
                 "tests": a.tests or "see /verif/seeded/TESTS.md"},
    "ran": [f"tools/verify_seed.sh {a.P} {a.K} test --ignore=test/aaa_profiling/test_memusage.py", f"tools/try_seed.sh seeded/{a.P}_{a.K}/patch.diff"],
    "detection": {"status": a.status, "before": a.before, "rule": a.rule, "key": a.key, "message": a.message, "why_missed_or_limits": a.limits},
}
json.dump(meta, open(f"{dst}/meta.json", "w"), indent=1)
print("wrote", dst)
