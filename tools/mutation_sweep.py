#!/venv/bin/python
"""tools/mutation_sweep.py Cnn [--jobs N] [--max M] [--json out.json]

Sensitivity measurement of a property's rules (a development tool, not a verdict): generate generic AST
mutants (statement deletion, negated condition, swapped comparison / boolean operator, flipped boolean
constant, dismantled `finally`, narrowed `except BaseException`, swapped call arguments, dropped keyword) in
every function the property's rules analysed on the unchanged tree, re-run the rules on each (source overlay,
nothing is written to /repo) and report per function how many mutants are flagged (VIOLATION or fail-closed
ANALYSIS-ERROR) and which survive.  Many survivors are behaviour-preserving or irrelevant to the property;
the list is read by a human to find blind spots.
"""
from __future__ import annotations

import argparse
import ast
import copy
import json
import multiprocessing as mp
import os
import sys
import traceback

HERE = os.path.dirname(os.path.dirname(os.path.abspath(__file__)))
sys.path.insert(0, HERE)

from sqlastatic import driver  # noqa: E402
from sqlastatic.errors import AnalysisError  # noqa: E402
from sqlastatic.index import Index  # noqa: E402

CMP = {ast.Lt: ast.LtE, ast.LtE: ast.Lt, ast.Gt: ast.GtE, ast.GtE: ast.Gt, ast.Eq: ast.NotEq, ast.NotEq: ast.Eq,
       ast.Is: ast.IsNot, ast.IsNot: ast.Is, ast.In: ast.NotIn, ast.NotIn: ast.In}


def seg(src_lines, node):
    return (node.lineno, node.col_offset, node.end_lineno, node.end_col_offset)


def replace(src: str, node, new_text: str) -> str:
    lines = src.split("\n")
    l1, c1, l2, c2 = node.lineno - 1, node.col_offset, node.end_lineno - 1, node.end_col_offset
    # ast offsets are utf8 byte offsets; convert
    def cut(line, off):
        return len(line.encode("utf8")[:off].decode("utf8"))
    a = cut(lines[l1], c1)
    b = cut(lines[l2], c2)
    head = lines[l1][:a]
    tail = lines[l2][b:]
    new = head + new_text + tail
    return "\n".join(lines[:l1] + new.split("\n") + lines[l2 + 1:])


def indent_block(text: str, indent: str) -> str:
    ls = text.split("\n")
    return ("\n" + indent).join(ls)


def gen_mutants(fn_node, src):
    """Yield (kind, lineno, description, new_source)."""
    body_nodes = list(ast.walk(fn_node))
    nested = set()
    for n in body_nodes:
        if n is not fn_node and isinstance(n, (ast.FunctionDef, ast.AsyncFunctionDef, ast.Lambda, ast.ClassDef)):
            pass  # nested defs are part of the function's behaviour; keep
    for n in body_nodes:
        try:
            # 1 statement deletion
            if isinstance(n, (ast.Expr, ast.Assign, ast.AugAssign, ast.AnnAssign, ast.Delete, ast.Raise)) and hasattr(n, "lineno"):
                if isinstance(n, ast.Expr) and isinstance(n.value, ast.Constant):
                    continue  # docstring
                if isinstance(n, ast.AnnAssign) and n.value is None:
                    continue
                yield ("DEL", n.lineno, ast.unparse(n)[:80], replace(src, n, "pass"))
            if isinstance(n, ast.Return) and n.value is not None and not (isinstance(n.value, ast.Constant) and n.value.value is None):
                yield ("RETNONE", n.lineno, ast.unparse(n)[:80], replace(src, n, "return None"))
            # 2 negate condition
            if isinstance(n, (ast.If, ast.While)):
                t = n.test
                yield ("NEG", n.lineno, ast.unparse(t)[:80], replace(src, t, "(not (" + ast.unparse(t) + "))"))
            if isinstance(n, ast.IfExp):
                t = n.test
                yield ("NEG", n.lineno, ast.unparse(t)[:80], replace(src, t, "(not (" + ast.unparse(t) + "))"))
            # 3 comparison swap
            if isinstance(n, ast.Compare) and len(n.ops) == 1 and type(n.ops[0]) in CMP:
                m = copy.deepcopy(n)
                m.ops = [CMP[type(n.ops[0])]()]
                yield ("CMP", n.lineno, ast.unparse(n)[:80], replace(src, n, "(" + ast.unparse(m) + ")"))
            # 4 and/or
            if isinstance(n, ast.BoolOp):
                m = copy.deepcopy(n)
                m.op = ast.Or() if isinstance(n.op, ast.And) else ast.And()
                yield ("BOOL", n.lineno, ast.unparse(n)[:80], replace(src, n, "(" + ast.unparse(m) + ")"))
                if len(n.values) >= 2:
                    for i in range(len(n.values)):
                        m = copy.deepcopy(n)
                        del m.values[i]
                        txt = ast.unparse(m) if len(m.values) > 1 else ast.unparse(m.values[0])
                        yield ("DROPTERM", n.lineno, f"drop `{ast.unparse(n.values[i])[:60]}`", replace(src, n, "(" + txt + ")"))
            # 5 boolean constants
            if isinstance(n, ast.Constant) and isinstance(n.value, bool):
                yield ("CONST", n.lineno, repr(n.value), replace(src, n, repr(not n.value)))
            # 6 try/finally dismantled
            if isinstance(n, ast.Try) and n.finalbody:
                m = copy.deepcopy(n)
                fb = m.finalbody
                m.finalbody = []
                ind = " " * n.col_offset
                if m.handlers:
                    txt = ast.unparse(m) + "\n" + "\n".join(ast.unparse(s) for s in fb)
                else:
                    txt = "\n".join(ast.unparse(s) for s in m.body + fb)
                yield ("NOFINALLY", n.lineno, "finally -> sequential", replace(src, n, indent_block(txt, ind)))
            # 7 except BaseException -> Exception ; drop a handler
            if isinstance(n, ast.ExceptHandler):
                if n.type is None or (isinstance(n.type, ast.Name) and n.type.id == "BaseException"):
                    m = copy.deepcopy(n)
                    m.type = ast.Name(id="Exception", ctx=ast.Load())
                    ind = " " * n.col_offset
                    yield ("NARROWEXC", n.lineno, "BaseException -> Exception", replace(src, n, indent_block(ast.unparse(m), ind)))
            # 8 call arguments
            if isinstance(n, ast.Call):
                if len(n.args) >= 2 and not any(isinstance(a, ast.Starred) for a in n.args[:2]):
                    m = copy.deepcopy(n)
                    m.args[0], m.args[1] = m.args[1], m.args[0]
                    if ast.unparse(m) != ast.unparse(n):
                        yield ("SWAPARG", n.lineno, ast.unparse(n)[:80], replace(src, n, ast.unparse(m)))
                for i, k in enumerate(n.keywords):
                    if k.arg is None:
                        continue
                    m = copy.deepcopy(n)
                    del m.keywords[i]
                    yield ("DROPKW", n.lineno, f"{ast.unparse(n.func)[:40]}(.. {k.arg}=)", replace(src, n, ast.unparse(m)))
            # 9 with -> body only (lock dropped)
            if isinstance(n, ast.With):
                ind = " " * n.col_offset
                txt = "\n".join(ast.unparse(s) for s in n.body)
                yield ("NOWITH", n.lineno, "with " + ", ".join(ast.unparse(i.context_expr)[:40] for i in n.items), replace(src, n, indent_block(txt, ind)))
        except Exception:
            continue


_BASE = None
_BASEKEYS = set()


def _work(args):
    prop, relpath, new_src = args
    try:
        reg = driver.load_registry(prop)
        path = os.path.join(_BASE.root, "lib", "sqlalchemy", relpath)
        try:
            compile(new_src, path, "exec")
        except SyntaxError as e:
            return ("syntax", str(e)[:80])
        _BASE.apply_overlay({relpath: new_src})
        try:
            ctx, per_rule, new, hit, known = driver.analyse(reg, "quick", 0, index=_BASE)
        except AnalysisError as e:
            return ("fail-closed", str(e)[:160])
        new = [i for i in new if (i.rule, i.key) not in _BASEKEYS]
        if new:
            return ("fired", "; ".join(sorted({i.rule for i in new})))
        return ("silent", "")
    except Exception:
        return ("error", traceback.format_exc()[-300:])


def main():
    global _BASE, _BASEKEYS
    ap = argparse.ArgumentParser()
    ap.add_argument("prop")
    ap.add_argument("--jobs", type=int, default=12)
    ap.add_argument("--max", type=int, default=0, help="cap on mutants per function (0 = all)")
    ap.add_argument("--json", default=None)
    ap.add_argument("--only", default=None, help="substring filter on function keys")
    a = ap.parse_args()
    prop = a.prop.upper()
    reg = driver.load_registry(prop)
    root = os.environ.get("SQLASTATIC_ROOT", "/repo")
    _BASE = Index(root)
    ctx, per_rule, new, hit, known = driver.analyse(reg, "quick", 0, index=_BASE)
    _BASEKEYS = {(i.rule, i.key) for i in new}
    funcs = sorted(ctx.functions_analysed)
    tasks, meta = [], []
    for key in funcs:
        if a.only and a.only not in key:
            continue
        try:
            f = _BASE.func(key)
        except Exception:
            continue
        src = f.module.source
        n = 0
        for kind, line, desc, new_src in gen_mutants(f.node, src):
            if new_src == src:
                continue
            tasks.append((prop, f.module.relpath, new_src))
            meta.append((key, kind, line, desc))
            n += 1
            if a.max and n >= a.max:
                break
    import gc
    gc.freeze()
    print(f"{prop}: {len(funcs)} analysed functions, {len(tasks)} mutants", flush=True)
    with mp.get_context("fork").Pool(a.jobs, maxtasksperchild=1) as pool:
        res = pool.map(_work, tasks, chunksize=1)
    per = {}
    surv = []
    for (key, kind, line, desc), (status, detail) in zip(meta, res):
        d = per.setdefault(key, {"total": 0, "flagged": 0, "syntax": 0})
        if status == "syntax" or status == "error":
            d["syntax"] += 1
            continue
        d["total"] += 1
        if status in ("fired", "fail-closed"):
            d["flagged"] += 1
        else:
            surv.append((key, kind, line, desc))
    tot = sum(d["total"] for d in per.values())
    fl = sum(d["flagged"] for d in per.values())
    print(f"{prop}: flagged {fl}/{tot} ({100.0 * fl / max(tot, 1):.0f}%)")
    for key, d in sorted(per.items(), key=lambda kv: kv[1]["flagged"] / max(kv[1]["total"], 1)):
        print(f"  {d['flagged']:3d}/{d['total']:3d}  {key}")
    print("survivors:")
    for key, kind, line, desc in surv:
        print(f"  {kind:9s} {key}:{line}  {desc}")
    if a.json:
        json.dump({"prop": prop, "per_function": per, "survivors": surv}, open(a.json, "w"), indent=1)


if __name__ == "__main__":
    main()
