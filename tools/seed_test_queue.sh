#!/bin/sh
# tools/seed_test_queue.sh  -- loop: for every /tmp/seed_out/P/patchK.diff without a result line in /tmp/vs/results.txt,
# run tools/verify_seed.sh P K (demo clean/patched + whole test suite except the slow memusage profiling file) and append the outcome.
mkdir -p /tmp/vs; touch /tmp/vs/results.txt
while true; do
  did=0
  for f in /tmp/seed_out/C*/patch[0-9].diff; do
    [ -f "$f" ] || continue
    P=$(basename $(dirname $f)); K=$(basename $f .diff | sed 's/patch//')
    [ -f "/tmp/seed_out/$P/demo$K.py" ] || continue
    grep -q "^$P $K " /tmp/vs/results.txt && continue
    # wait until the seed agent is finished with this seed (notes file written)
    [ -f "/tmp/seed_out/$P/notes$K.md" ] || continue
    out=$(/verif/tools/verify_seed.sh $P $K test --ignore=test/aaa_profiling/test_memusage.py 2>&1); rc=$?
    echo "$P $K rc=$rc | $(echo "$out" | tr '\n' ' ' | cut -c1-600)" >> /tmp/vs/results.txt
    did=1
  done
  [ $did -eq 0 ] && sleep 60
  [ -f /tmp/vs/STOP ] && exit 0
done
