#!/bin/sh
# tools/seed_test_queue.sh  -- loop: for every /tmp/seed_out/P/patchK.diff without a result line in $RES,
# run tools/verify_seed.sh P K (demo clean/patched + whole test suite except the slow memusage profiling file) and append the outcome.
SO=${SEED_OUT:-/tmp/seed_out}; RES=${RESULTS:-/tmp/vs/results.txt}; KSEL=${KSEL:-[0-9]}
export SEED_OUT=$SO
mkdir -p /tmp/vs; touch $RES
while true; do
  did=0
  for f in $SO/C*/patch$KSEL.diff; do
    [ -f "$f" ] || continue
    P=$(basename $(dirname $f)); K=$(basename $f .diff | sed 's/patch//')
    [ -f "$SO/$P/demo$K.py" ] || continue
    grep -q "^$P $K " $RES && continue
    # wait until the seed agent is finished with this seed (notes file written)
    [ -f "$SO/$P/notes$K.md" ] || continue
    # test selection by touched area (the whole suite takes >25 min on a loaded machine): see DESIGN.md 10.3
    T=""
    grep -q "^+++ b/lib/sqlalchemy/\(sql\|dialects\)/" $f && T="$T test/sql test/dialect test/base"
    grep -q "^+++ b/lib/sqlalchemy/\(engine\|pool\)/" $f && T="$T test/engine test/base test/dialect test/ext/asyncio"
    grep -q "^+++ b/lib/sqlalchemy/orm/" $f && T="$T test/orm test/ext"
    grep -q "^+++ b/lib/sqlalchemy/ext/" $f && T="$T test/ext test/orm/test_session.py test/orm/test_unitofworkv2.py"
    grep -q "^+++ b/lib/sqlalchemy/\(util\|event\)/" $f && T="$T test/base test/engine test/sql test/orm/test_session.py test/orm/test_unitofworkv2.py"
    [ -z "$T" ] && T="test --ignore=test/aaa_profiling/test_memusage.py"
    T=$(echo $T | tr ' ' '\n' | awk '!s[$0]++' | tr '\n' ' ')
    out=$(/verif/tools/verify_seed.sh $P $K $T 2>&1); rc=$?
    out="[tests: $T] $out"
    echo "$P $K rc=$rc | $(echo "$out" | tr '\n' ' ' | cut -c1-600)" >> $RES
    did=1
  done
  [ $did -eq 0 ] && sleep 60
  [ -f /tmp/vs/STOP ] && exit 0
done
