#!/bin/sh
# tools/run_all.sh [quick|thorough] [ready|all]  -- run every check, print one line each
cd "$(dirname "$0")/.." || exit 2
TIER=${1:-quick}; SET=${2:-ready}
if [ "$SET" = "ready" ]; then LIST=$(cat tools/ready.txt); else LIST=$(ls sqlastatic/rules | sed -n 's/^c\([0-9]*\)\.py$/C\1/p'); fi
rc=0
for p in $LIST; do
  out=$(./check "$p" --tier "$TIER" 2>&1); code=$?
  echo "$p exit=$code $(echo "$out" | tail -1)"
  echo "$out" | grep -E "^(SELFTEST-FAIL|ANALYSIS-ERROR)" | head -5
  [ $code -gt 1 ] && rc=2
  [ $code -eq 1 ] && [ $rc -eq 0 ] && rc=1
done
exit $rc
