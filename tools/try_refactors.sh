#!/bin/sh
# tools/try_refactors.sh <dir with refactorK.diff> <Cnn ...>  -- benign refactors must leave every listed check at exit 0
D=$1; shift
for f in $(ls $D/refactor*.diff | sort -V); do
  k=$(basename $f .diff)
  out=$(/verif/tools/try_seed.sh $f "$@" 2>&1 | grep -v "try_seed done")
  if [ -z "$out" ]; then echo "$k: silent"; else echo "$k: NOISY"; echo "$out" | grep -E "exit=|^C[0-9]+-R|ANALYSIS-ERROR" | cut -c1-240 | sed 's/^/    /'; fi
done
