#!/usr/bin/env python3
"""Write seeded/TESTS.md and fill meta.json verified.tests from the seed test queue log (/tmp/vs/results.txt)."""
import json, os, re
rows = []
LINES = [(1, l) for l in open("/tmp/vs/results.txt")]
if os.path.exists("/tmp/vs/results2.txt"):
    LINES += [(2, l) for l in open("/tmp/vs/results2.txt")]
for rnd, line in LINES:
    m = re.match(r"^(C\d+) (\d+) rc=(\S+) \| \[tests: ([^\]]*)\] (.*)$", line.strip())
    if not m:
        continue
    P, K, rc, tests, rest = m.groups()
    if rnd == 2:  # round-2 seed K of P is stored as P_<K+2>, or P_<K> for properties that had no round 1
        K = str(int(K) + 2) if os.path.isdir(f"/verif/seeded/{P}_{int(K) + 2}") else K
    tm = re.search(r"tests exit=(\d+) =+ ([^=]+?) =+", rest)
    summ = tm.group(2).strip() if tm else ("patch did not apply to the HEAD of that moment (re-rolled later, see meta.json)" if rc.startswith("3") else rest[-120:])
    rows.append((f"{P}_{K}", rc, tests.strip(), summ))
out = ["# Test runs with each seeded patch applied (lead's own confirmation)\n",
       "Produced by `tools/seed_test_queue.sh` → `tools/verify_seed.sh P K <paths>`: fresh scratch worktree of /repo HEAD, demo on the clean tree (must exit 0), "
       "patch applied, import check, demo again (must exit != 0), then pytest on the listed paths with `-n 10`, `-p no:cacheprovider`, deselecting the baseline's "
       "always-failing `test_mypy…[typed_queries.py]` and the load-sensitive subprocess tests `test_concurrency.py::GreenletImportTests` (they fail on clean "
       "worktrees too).  Paths are selected by the area the patch touches (sql/dialects → test/sql test/dialect test/base; engine/pool → test/engine test/base "
       "test/dialect test/ext/asyncio; orm → test/orm test/ext; ext → test/ext + ORM session/uow; util/event → test/base test/engine test/sql + ORM session/uow) "
       "because the whole suite takes > 25 min on this shared machine; the seed authors additionally ran their own targeted selections (notes.md in each seed directory).\n",
       "| seed | result | test paths | pytest summary |", "|---|---|---|---|"]
for s, rc, tests, summ in rows:
    out.append(f"| {s} | {'ok' if rc.startswith('0') else 'rc=' + rc} | {tests} | {summ} |")
    mp = f"/verif/seeded/{s}/meta.json"
    if os.path.exists(mp):
        m = json.load(open(mp))
        m.setdefault("verified", {})["tests"] = f"{tests}: {summ}" if rc.startswith("0") else f"see TESTS.md ({summ})"
        json.dump(m, open(mp, "w"), indent=1)
open("/verif/seeded/TESTS.md", "w").write("\n".join(out) + "\n")
print(len(rows), "rows")
