#!/bin/sh
# tools/try_seed.sh <patch.diff> [Cnn ...]   -- run checks (default: all claimed) against a scratch worktree of /repo HEAD + patch.
# Uses SQLASTATIC_ROOT so /repo's working tree and /verif/evidence are untouched.  Prints one line per check that is not a clean pass.
PATCH=$(readlink -f "$1"); shift
TAG=$$
WT=/tmp/ts/wt_$TAG
mkdir -p /tmp/ts
git -C /repo worktree add --detach "$WT" HEAD >/dev/null 2>&1 || exit 2
trap 'git -C /repo worktree remove --force "$WT" >/dev/null 2>&1' EXIT
git -C "$WT" apply "$PATCH" || { echo "patch does not apply"; exit 2; }
cd "$(dirname "$0")/.." || exit 2
[ $# -eq 0 ] && set -- $(cat tools/ready.txt)
export SQLASTATIC_ROOT="$WT"
export TAG
printf '%s\n' "$@" | xargs -P 4 -I{} sh -c './check {} --evidence /tmp/ts/ev_${TAG}_{}.json > /tmp/ts/out_${TAG}_{}.txt 2>&1; echo "{} exit=$?" ' | sort | grep -v "exit=0" 
for p in "$@"; do f=/tmp/ts/out_${TAG}_$p.txt; grep -E "^(VIOLATION|ANALYSIS-ERROR)" -B3 "$f" | grep -v "^KNOWN-FINDING" | cut -c1-400; rm -f "$f" /tmp/ts/ev_${TAG}_$p.json; done
echo "[try_seed done]"
