#!/bin/sh
# tools/verify_seed.sh <Cnn> <k> [pytest paths...]
# Independent confirmation of a seeded change delivered in /tmp/seed_out/<Cnn>/patch<k>.diff + demo<k>.py:
#  1. the demo PASSES (exit 0) on a clean scratch worktree of /repo HEAD
#  2. the patch applies, the package imports, the demo FAILS (exit != 0)
#  3. the given pytest paths (default: whole suite, -n 10) pass with the patch applied
# The scratch worktree lives under /tmp/vs and is removed at the end.  Never touches /repo's working tree.
P=$1; K=$2; shift 2
SRC=${SEED_OUT:-/tmp/seed_out}/$P
WT=/tmp/vs/${P}_${K}_$$
PY=/venv/bin/python
[ -f "$SRC/patch$K.diff" ] && [ -f "$SRC/demo$K.py" ] || { echo "missing patch/demo for $P $K"; exit 2; }
mkdir -p /tmp/vs
git -C /repo worktree remove --force "$WT" >/dev/null 2>&1
git -C /repo worktree add --detach "$WT" HEAD >/dev/null 2>&1 || { echo "worktree failed"; exit 2; }
trap 'git -C /repo worktree remove --force "$WT" >/dev/null 2>&1' EXIT
cd /tmp
PYTHONPATH=$WT/lib timeout 600 $PY "$SRC/demo$K.py" >/tmp/vs/${P}_${K}_$$.clean.log 2>&1; c=$?
echo "demo clean exit=$c ($(tail -1 /tmp/vs/${P}_${K}_$$.clean.log | cut -c1-160))"
git -C "$WT" apply "$SRC/patch$K.diff" || { echo "PATCH DOES NOT APPLY"; exit 3; }
git -C "$WT" diff --stat | tail -3
PYTHONPATH=$WT/lib $PY -c "import sqlalchemy, sqlalchemy.orm, sqlalchemy.ext.asyncio" || { echo "IMPORT FAILS"; exit 3; }
PYTHONPATH=$WT/lib timeout 600 $PY "$SRC/demo$K.py" >/tmp/vs/${P}_${K}_$$.patched.log 2>&1; d=$?
echo "demo patched exit=$d ($(tail -1 /tmp/vs/${P}_${K}_$$.patched.log | cut -c1-200))"
[ $c -eq 0 ] && [ $d -ne 0 ] || { echo "DEMO DOES NOT DISCRIMINATE"; exit 4; }
cd "$WT" || exit 2
if [ "$1" = "notests" ]; then echo "tests skipped"; exit 0; fi
if [ $# -eq 0 ]; then set -- ; fi
$PY -m pytest "$@" -q -p no:cacheprovider --timeout=900 --continue-on-collection-errors -n ${SEED_TEST_N:-10} --deselect 'test/typing/test_mypy.py::MypyPlainTest::test_mypy_no_plugin[typed_queries.py]' --deselect test/base/test_concurrency.py::GreenletImportTests >/tmp/vs/${P}_$K.tests.log 2>&1; t=$?
echo "tests exit=$t $(tail -1 /tmp/vs/${P}_$K.tests.log)"
grep -E "^(FAILED|ERROR)" /tmp/vs/${P}_$K.tests.log | head -10
[ $t -eq 0 ] || exit 5
exit 0
