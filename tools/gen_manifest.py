#!/venv/bin/python
"""Regenerate /verif/MANIFEST.json from the rule registries (run from /verif)."""

import importlib
import json
import os
import sys

HERE = os.path.dirname(os.path.dirname(os.path.abspath(__file__)))
sys.path.insert(0, HERE)

NA = {
    "C30": "equality of database rows with an object graph after histories is a heap/backend relation; its structural parts are claimed under C31, C32, C34, C48",
    "C41": "ORM-vs-Core result correspondence quantifies over rows",
}

BASELINE = "cd /repo && /venv/bin/python -m pytest -ra -q -p no:cacheprovider --timeout=900 --continue-on-collection-errors"


def main():
    props = [json.loads(l) for l in open(os.path.join(HERE, "properties.jsonl"))]
    checks, na = [], []
    # only properties whose check the lead has reviewed and run clean are claimed
    ready = set(open(os.path.join(HERE, "tools", "ready.txt")).read().split())
    for p in props:
        pid = p["id"]
        modpath = os.path.join(HERE, "sqlastatic", "rules", pid.lower() + ".py")
        if os.path.exists(modpath) and pid in ready:
            reg = importlib.import_module(f"sqlastatic.rules.{pid.lower()}").R
            templates = sorted({t for r in reg.rules for t in r.template.replace(",", "/").split("/") if t})
            checks.append({
                "property_id": pid,
                "quick_cmd": f"./check {pid} --tier quick",
                "thorough_cmd": f"./check {pid} --tier thorough",
                "evidence_file": f"/verif/evidence/{pid}.json",
                "replay_cmd_template": f"./check {pid} --replay {{path}}",
                "engine": "sqlastatic",
                "level_claimed": {
                    "category": "other",
                    "text": (
                        f"Static analysis of /repo's current source, {len(reg.rules)} repository-specific rule(s) "
                        f"({', '.join(r.id for r in reg.rules)}). Decides these structural, necessary clauses of {pid}: "
                        f"{reg.decides} It does NOT decide the behaviour itself: {reg.not_decided} "
                        "thorough = quick + self-test battery (AST/text mutants of the anchored code that must fire, "
                        "benign refactors that must stay silent)."
                    ),
                    "design_ref": f"DESIGN.md section 4, {pid}",
                },
                "level_note": (
                    "trusted base: CPython ast; static C3 MRO / class-hierarchy call resolution over lib/sqlalchemy; "
                    "hand-built statement CFG with exceptional edges (any call may raise; `except Exception` is "
                    "catch-all); oracle tables under /verif/oracles; exceptions tables inside the rule module, one "
                    "reason per entry. Instance floors make a blind rule exit 2 instead of passing."
                ),
                "technique": "static analysis (ast): " + ", ".join(templates),
            })
        else:
            reason = NA.get(pid) or "structural clauses are designed (DESIGN.md section 4) but the static check is not built yet; not claimed until it is"
            na.append({"property_id": pid, "reason": reason})
    man = {
        "version": 1,
        "setup_cmd": "true",
        "hooks": {
            "guard": "SQLALCHEMY_STATIC_VERIF",
            "enable": "none needed: the checks read source text only; no hook or instrumentation exists in /repo",
            "baseline_off_cmd": BASELINE,
            "source_commits": [],
            "add_only": True,
        },
        "engines": [{
            "name": "sqlastatic",
            "path": "/verif/sqlastatic",
            "serves_properties": [c["property_id"] for c in checks],
            "kind_free_text": "repository-specific static analysis over the Python AST: source index with static MRO, "
                              "symbolic table evaluator, statement CFG with exceptional edges, rule templates "
                              "T-TABLE/T-SIBLING/T-EXHAUST/T-PATH/T-GUARD/T-OWN/T-FLOW/T-FRESH/T-BOOL",
        }],
        "checks": checks,
        "notes": "All checks are static (no execution of /repo). exit 0 held / 1 VIOLATION / 2 ANALYSIS-ERROR. "
                 "Known findings: /verif/known_findings.txt. Seeded breaking changes: /verif/seeded/.",
        "not_applicable": na,
    }
    with open(os.path.join(HERE, "MANIFEST.json"), "w") as f:
        json.dump(man, f, indent=1)
    print(f"{len(checks)} checks, {len(na)} not_applicable")


if __name__ == "__main__":
    main()
