#!/venv/bin/python
"""Print `finding:` lines for every violation of the given properties that known_findings.txt does not list."""
import os, sys
sys.path.insert(0, os.path.dirname(os.path.dirname(os.path.abspath(__file__))))
from sqlastatic.driver import analyse, load_registry
from sqlastatic.errors import AnalysisError
from sqlastatic.index import Index

ix = Index()
for p in sys.argv[1:]:
    reg = load_registry(p)
    try:
        ctx, per_rule, new, hit, known = analyse(reg, "quick", 0, index=ix)
    except AnalysisError as e:
        print(f"# {p}: ANALYSIS-ERROR {e}")
        continue
    seen = set()
    for i in new:
        if (i.rule, i.key) in seen:
            continue
        seen.add((i.rule, i.key))
        print(f"finding: property={p} rule={i.rule} key={i.key} | {i.detail[:220]}")
