"""C33-R8  orm/session.py::SessionTransaction.rollback:inner-transactions

SessionTransaction.rollback() called on a transaction that is not the innermost one (`root.rollback()`, leaving a
`with session.begin():` / `with session.begin_nested():` block through an exception while an inner begin_nested() is
still open, or `outer_savepoint.rollback()`) ends the inner transactions with `subtransaction.close()`.  close() neither
restores nor merges the inner SAVEPOINT's snapshot (its own fresh _new/_deleted/_dirty/_key_switches maps), so the
snapshot that is then restored does not know about anything flushed inside the inner savepoint:

* an object added + flushed in the inner savepoint stays *persistent* in the session (identity map) although its row
  was rolled back; attribute access raises ObjectDeletedError; with a savepoint-level rollback it survives the outer
  COMMIT as a phantom;
* an object deleted + flushed in the inner savepoint stays in state *deleted* (not in the session) although its row
  exists again.

The sibling path, commit (`_prepare_impl`), walks the same inner transactions with `subtransaction.commit()`, which merges
their maps into the parent; Session.rollback() itself always starts at the innermost transaction and is fine.

Proposed minimal fix (verified in a scratch worktree):

         if stx is not self:
             for subtransaction in stx._iterate_self_and_parents(upto=self):
+                if subtransaction.nested:
+                    # hand the bookkeeping of a still-open SAVEPOINT to its
+                    # parent so that the snapshot restored below covers it
+                    subtransaction._remove_snapshot()
                 subtransaction.close()

Run:  cd /tmp && /venv/bin/python /verif/findings/C33_rollback_with_open_inner_savepoint.py
"""
from sqlalchemy import Column, Integer, String, create_engine, event, inspect, text
from sqlalchemy.orm import Session, declarative_base

Base = declarative_base()


class T(Base):
    __tablename__ = "t"
    id = Column(Integer, primary_key=True, autoincrement=False)
    name = Column(String)


def engine():
    e = create_engine("sqlite://")

    @event.listens_for(e, "connect")
    def _c(dbapi_connection, rec):  # pysqlite SAVEPOINT recipe
        dbapi_connection.isolation_level = None

    @event.listens_for(e, "begin")
    def _b(conn):
        conn.exec_driver_sql("BEGIN")

    Base.metadata.create_all(e)
    return e


def state_of(o):
    i = inspect(o)
    for n in ("transient", "pending", "persistent", "deleted", "detached"):
        if getattr(i, n):
            return n


def rows(e):
    with e.connect() as c:
        return [tuple(r) for r in c.execute(text("select id, name from t order by id"))]


problems = []

# 1. the documented context-manager pattern: the block fails while a savepoint is open
e = engine()
s = Session(e)
try:
    with s.begin():
        s.begin_nested()
        o = T(id=2, name="in-savepoint")
        s.add(o)
        s.flush()
        raise RuntimeError("boom")
except RuntimeError:
    pass
print("1. `with session.begin():` left by an exception, savepoint open:", state_of(o), "in session:", o in s, "| rows:", rows(e))
if state_of(o) != "transient":
    problems.append(1)
    try:
        o.name
    except Exception as ex:
        print("   attribute access:", type(ex).__name__)

# 2. outer savepoint rolled back while an inner one is open; the outer transaction then commits
e = engine()
s = Session(e)
s.begin()
sp1 = s.begin_nested()
sp2 = s.begin_nested()
o = T(id=3, name="in-sp2")
s.add(o)
s.flush()
sp1.rollback()
s.commit()
print("2. sp1.rollback() with sp2 open, then COMMIT:", state_of(o), "in session:", o in s, "| rows:", rows(e))
if state_of(o) != "transient":
    problems.append(2)

# 3. deletion inside the inner savepoint
e = engine()
s = Session(e)
d = T(id=5, name="d")
s.add(d)
s.commit()
s.begin()
sp1 = s.begin_nested()
sp2 = s.begin_nested()
s.delete(d)
s.flush()
sp1.rollback()
s.commit()
print("3. delete in sp2, sp1.rollback(), COMMIT:", state_of(d), "in session:", d in s, "| rows:", rows(e))
if state_of(d) != "persistent":
    problems.append(3)

# reference: Session.rollback() (innermost first) behaves
e = engine()
s = Session(e)
s.begin()
s.begin_nested()
o = T(id=2, name="x")
s.add(o)
s.flush()
s.rollback()
print("ref. Session.rollback() with a savepoint open:", state_of(o))
print()
print("DEFECT REPRODUCED" if problems == [1, 2, 3] and state_of(o) == "transient" else f"not reproduced ({problems})")
