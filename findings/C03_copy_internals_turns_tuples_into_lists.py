"""C03-R1 findings (unchanged tree), keys
    sql/dml.py::ValuesBase.values:self._multi_values+=
    sql/selectable.py::Values.data:self._data+=
    sql/selectable.py::GenerativeSelect.order_by:self._order_by_clauses+=      (CompoundSelect)
    sql/selectable.py::GenerativeSelect.group_by:self._group_by_clauses+=      (CompoundSelect)
    sql/selectable.py::HasCTE.add_cte:self._independent_ctes+=

These generative methods extend a collection with `self.attr += (...)`, which is copy-on-write only while the
attribute holds a tuple.  HasCopyInternals._copy_internals() (cloned_traverse, replacement_traverse, _deep_annotate,
ClauseAdapter.traverse ...) rebinds the attribute to whatever _CopyInternalsTraversal.visit_<dp>() returns, and for
    dp_dml_multi_values   (Insert._multi_values, Values._data)
    dp_clauseelement_list (CompoundSelect._order_by_clauses/_group_by_clauses, HasCTE._independent_ctes)
that is a *list*.  On such a clone `+=` is list.__iadd__: it extends, in place, the list shared by the shallow
copy made by _generate() and the statement the method was called on.

Run:  cd /tmp && /venv/bin/python /verif/findings/C03_copy_internals_turns_tuples_into_lists.py
"""
import sys

from sqlalchemy import Column, Integer, MetaData, Table, column, literal_column, select, union, values
from sqlalchemy.sql import visitors

m = MetaData()
t = Table("t", m, Column("id", Integer, primary_key=True), Column("x", Integer))
u = Table("u", m, Column("id", Integer, primary_key=True))
bad = []


def sql(stmt):
    return " ".join(str(stmt.compile()).split())


def chk(name, stmt, attr, fn):
    c = visitors.cloned_traverse(stmt, {}, {})      # what the ORM / adapters do all the time
    before = sql(c)
    fn(c)                                           # generative call; result discarded
    after = sql(c)
    print(f"{name}: {attr} is {type(getattr(stmt, attr)).__name__} on the original, "
          f"{type(getattr(c, attr)).__name__} on the clone; statement changed by the generative call: {before != after}")
    if before != after:
        print("    before:", before)
        print("    after :", after)
        bad.append(name)


chk("Insert.values(multi)", t.insert().values([{"id": 1}]), "_multi_values", lambda c: c.values([{"id": 2}]))
chk("Values.data", values(column("a", Integer), name="v").data([(1,)]), "_data", lambda c: c.data([(2,)]))
chk("CompoundSelect.order_by", union(select(t.c.id), select(u.c.id)).order_by("id"), "_order_by_clauses",
    lambda c: c.order_by(literal_column("1")))
chk("CompoundSelect.group_by", union(select(t.c.id), select(u.c.id)).group_by("id"), "_group_by_clauses",
    lambda c: c.group_by(literal_column("1")))

# add_cte: the shared list grows but _independent_ctes_opts (a tuple) does not -> the two get out of step; the
# next statement derived from the parent silently loses its CTE.
c1, c2, c3 = (select(u.c.id).cte(n) for n in ("c1", "c2", "c3"))
parent = visitors.cloned_traverse(select(t).add_cte(c1), {}, {})
parent.add_cte(c2)                                   # sibling, discarded
child = parent.add_cte(c3)
got = sql(child)
print("HasCTE.add_cte: parent._independent_ctes has", len(parent._independent_ctes), "entries, _independent_ctes_opts",
      len(parent._independent_ctes_opts))
print("    child SQL:", got)
if "c3 AS" not in got or "c2 AS" in got:
    bad.append("HasCTE.add_cte")

if bad:
    print("FINDING CONFIRMED for:", ", ".join(bad))
    sys.exit(1)
print("not reproduced")
