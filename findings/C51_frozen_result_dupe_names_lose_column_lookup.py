"""C51 observation (str2-v, unchanged tree; no rule decides it -- value level):

A Core result whose cursor description has two columns of the same name (join selected with
LABEL_STYLE_NONE) can still be addressed by Column object on the LIVE result
(`row._mapping[users.c.id]` -> 7, `row._mapping[addresses.c.id]` -> 100).  After `result.freeze()` the
rows of the frozen result raise KeyError for both Column objects, and `frozen().columns(users.c.id)`
fails likewise; `frozen().columns("id")` raises an internal TypeError instead of
InvalidRequestError("Ambiguous column name").

Cause: `CursorResultMetaData._for_freeze` collects the per-position objects BY NAME
(`extra=[self._keymap[key][MD_OBJECTS] for key in self._keys]`).  For a duplicated name the by-name
record is the "ambiguous" placeholder `(None, -1, (), key, key, None, None)` whose MD_OBJECTS is `()`,
so both positions lose their Column objects.  `SimpleResultMetaData._reduce` does not test
`rec[0] is None` (its siblings `_index_for_key` / `_metadata_for_keys` do), hence the TypeError.

Run: cd /tmp && /venv/bin/python /verif/findings/C51_frozen_result_dupe_names_lose_column_lookup.py
Exit 1 = difference between live and frozen result observed.
"""
import sys

from sqlalchemy import Column, ForeignKey, Integer, MetaData, String, Table, create_engine, select
from sqlalchemy.sql.selectable import LABEL_STYLE_NONE

m = MetaData()
users = Table("users", m, Column("id", Integer, primary_key=True), Column("name", String(30)))
addresses = Table("addresses", m, Column("id", Integer, primary_key=True),
                  Column("user_id", ForeignKey("users.id")), Column("email", String(30)))
e = create_engine("sqlite://")
m.create_all(e)
stmt = (select(users.c.id, users.c.name, addresses.c.id, addresses.c.email)
        .select_from(users.join(addresses)).set_label_style(LABEL_STYLE_NONE))


def look(row, k):
    try:
        return repr(row._mapping[k])
    except Exception as ex:  # noqa
        return "%s" % type(ex).__name__


def cols(result, *sel):
    try:
        return repr(result.columns(*sel).all())
    except Exception as ex:  # noqa
        return "%s: %s" % (type(ex).__name__, str(ex)[:60])


diffs = 0
with e.begin() as c:
    c.execute(users.insert(), [{"id": 7, "name": "jack"}])
    c.execute(addresses.insert(), [{"id": 100, "user_id": 7, "email": "j@a"}])
    live, frozen = c.execute(stmt).first(), c.execute(stmt).freeze()().first()
    for k in (users.c.id, addresses.c.id, users.c.name):
        a, b = look(live, k), look(frozen, k)
        print("row._mapping[%s]: live=%s frozen=%s%s" % (k, a, b, "" if a == b else "   <-- differs"))
        diffs += a != b
    for sel in ((users.c.id, "name"), ("id",)):
        a, b = cols(c.execute(stmt), *sel), cols(c.execute(stmt).freeze()(), *sel)
        print("columns%r: live=%s | frozen=%s%s" % (tuple(str(s) for s in sel), a, b, "" if a == b else "   <-- differs"))
        diffs += a != b
print("DIFFERENCES: %d" % diffs)
sys.exit(1 if diffs else 0)
