"""C04-R5 finding (pre-existing, unchanged library): MySQLCompiler.visit_on_duplicate_key_update renders the
ON DUPLICATE KEY UPDATE values without is_upsert_set=True (the PostgreSQL and SQLite ON CONFLICT compilers pass it,
issue #13130).  On MariaDB (INSERT..RETURNING, use_insertmanyvalues=True) an executemany INSERT whose
ON DUPLICATE KEY UPDATE value is a per-row bindparam() is therefore batched into one multi-VALUES statement and
the single UPDATE clause receives only the FIRST parameter set's value.

The real MySQL/MariaDB dialect is driven over a minimal fake DBAPI that records what reaches cursor.execute().
    cd /tmp && /venv/bin/python /verif/findings/C04_mysql_on_duplicate_key_param_batched.py
"""
import re
import sys

from sqlalchemy import Column, MetaData, String, Table, bindparam, create_engine
from sqlalchemy.dialects import registry
from sqlalchemy.dialects.mysql import insert
from sqlalchemy.dialects.mysql.base import MySQLDialect

CALLS = []


class Cursor:
    arraysize = 1
    description = None
    rowcount = -1
    lastrowid = 0

    def __init__(self):
        self._rows = []

    def execute(self, stmt, params=None):
        CALLS.append((stmt, params))
        m = re.search(r"RETURNING (.*)$", stmt, re.S)
        if m:
            cols = [c.strip() for c in m.group(1).split(", ")]
            self.description = [(c.split(".")[-1].split(" AS ")[-1], None, None, None, None, None, None) for c in cols]
            nrows = max(1, len(re.findall(r"\(%s", stmt.split("ON DUPLICATE")[0].split("VALUES", 1)[1])))
            self._rows = [tuple("r%d" % i for _ in cols) for i in range(nrows)]
            self.rowcount = nrows

    def executemany(self, stmt, seq):
        for p in seq:
            self.execute(stmt, p)

    def fetchall(self):
        r, self._rows = self._rows, []
        return r

    def fetchone(self):
        return self._rows.pop(0) if self._rows else None

    def fetchmany(self, size=None):
        return self.fetchall()

    def close(self):
        pass


class Connection:
    def cursor(self, *a, **k):
        return Cursor()

    def commit(self):
        pass

    def rollback(self):
        pass

    def close(self):
        pass


class DBAPI:
    paramstyle = "format"
    apilevel = "2.0"
    threadsafety = 1

    class Error(Exception):
        pass

    @staticmethod
    def connect(*a, **k):
        return Connection()


class FakeMaria(MySQLDialect):
    driver = "fakemaria"
    default_paramstyle = "format"
    supports_statement_cache = True
    is_mariadb = True

    @classmethod
    def import_dbapi(cls):
        return DBAPI

    def create_connect_args(self, url):
        return [], {}


registry.register("mysql.fakemaria", __name__, "FakeMaria")

e = create_engine("mysql+fakemaria://", _initialize=False)
e.dialect.server_version_info = (10, 6, 0)
e.dialect.insert_returning = True          # what MySQLDialect.initialize() sets for MariaDB >= 10.5
m = MetaData()
t = Table("t", m, Column("name", String(50), primary_key=True), Column("data", String(50)))
stmt = insert(t).on_duplicate_key_update(data=bindparam("newdata")).returning(t.c.name)
params = [{"name": "k%d" % i, "data": "ins%d" % i, "newdata": "upd%d" % i} for i in range(3)]
with e.connect() as conn:
    conn.execute(stmt, params)
delivered = set()
for s, p in CALLS:
    print(" ".join(s.split()))
    print("  ", p)
    delivered |= {v for v in (p or ()) if isinstance(v, str) and v.startswith("upd")}
got = sorted(delivered)
print("ON DUPLICATE KEY UPDATE values that reached the DBAPI:", got, "(expected upd0, upd1, upd2)")
if got != ["upd0", "upd1", "upd2"]:
    print("DEFECT: rows k1, k2 would be updated with 'upd0'")
    sys.exit(1)
print("ok")
