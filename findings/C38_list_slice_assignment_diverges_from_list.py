"""C38-R12 reproduction: slice assignment on an instrumented list diverges from builtin list.

Run:  cd /tmp && /venv/bin/python /verif/findings/C38_list_slice_assignment_diverges_from_list.py

`Parent.children` is a plain relationship (collection_class list).  For every slice with start/stop in
{None,-5,-1,1,5}, step in {None,2,-1}, on the states [] and [c0,c1,c2], `p.children[slice] = values` is compared with
the same statement on a builtin list (contents and exception class), and the append/remove events received by
attribute listeners are compared with the members that really entered / left.

What goes wrong (orm/collections.py::_list_decorators.__setitem__, slice branch):
  * a negative start below -len is not clamped to 0  (`start += len(self)` stays negative): `coll[-5:] = []` on an
    empty list raises IndexError, `coll[-5:2] = [x]` deletes from the wrong end / inserts at a negative position
  * a negative stop is adjusted but never clamped, `index.stop` of 0 ... and a negative STEP uses the defaults of a
    positive one (start 0, stop len): `coll[::-1] = [a, b, c]` raises "attempt to assign sequence of size 3 to extended
    slice of size 0", `coll[::-1] = []` silently does nothing where list raises ValueError
  * the extended-slice branch calls len(value): any iterable that list accepts (`coll[::2] = iter([a, b])`) raises TypeError
  * `value is self` returns without doing anything for EVERY step-1 slice (`coll[1:1] = coll` must insert a copy)
"""
from sqlalchemy import ForeignKey, Integer, create_engine, event
from sqlalchemy.orm import DeclarativeBase, Mapped, Session, mapped_column, relationship


class Base(DeclarativeBase):
    pass


class Parent(Base):
    __tablename__ = "p"
    id: Mapped[int] = mapped_column(Integer, primary_key=True)
    children = relationship("Child")


class Child(Base):
    __tablename__ = "c"
    id: Mapped[int] = mapped_column(Integer, primary_key=True)
    pid = mapped_column(ForeignKey("p.id"))
    n = mapped_column(Integer)

    def __repr__(self):
        return f"c{self.n}"


log = []
event.listen(Parent.children, "append", lambda t, v, i: log.append(("append", v.n)))
event.listen(Parent.children, "remove", lambda t, v, i: log.append(("remove", v.n)))

objs = [Child(n=i) for i in range(10)]


def outcome(fn):
    try:
        fn()
        return None
    except Exception as e:
        return type(e).__name__


bounds = [None, -5, -1, 1, 5]
steps = [None, 2, -1]
values = [[], [7], (7, 8), "iter"]
bad = total = 0
kinds = {}
for state in ([], [0, 1, 2]):
    for a in bounds:
        for b in bounds:
            for st in steps:
                for v in values:
                    sl = slice(a, b, st)
                    plain = list(state)
                    mk = (lambda: iter([7, 8])) if v == "iter" else (lambda v=v: type(v)(v))
                    pe = outcome(lambda: plain.__setitem__(sl, mk()))
                    p = Parent()
                    p.children = [objs[i] for i in state]
                    del log[:]
                    vv = mk()
                    vv = iter([objs[7], objs[8]]) if v == "iter" else type(v)(objs[i] for i in v)
                    ie = outcome(lambda: p.children.__setitem__(sl, vv))
                    got = [c.n for c in p.children]
                    total += 1
                    net = {}
                    for k, n in log:
                        net[n] = net.get(n, 0) + (1 if k == "append" else -1)
                    real = {}
                    for n in got:
                        real[n] = real.get(n, 0) + 1
                    for n in state:
                        real[n] = real.get(n, 0) - 1
                    ev_ok = {k: x for k, x in net.items() if x} == {k: x for k, x in real.items() if x}
                    if pe != ie or plain != got or not ev_ok:
                        bad += 1
                        kind = (pe, ie, plain == got, ev_ok)
                        if kind not in kinds:
                            kinds[kind] = (f"children={state} coll[{a}:{b}:{st}] = {'iter([c7, c8])' if v == 'iter' else list(v)}: "
                                           f"list -> {pe or plain}, instrumented -> {ie or got}"
                                           + ("" if ev_ok else f", events {log} do not account for the change"))
for msg in kinds.values():
    print("DEFECT", msg)

# value is self
p = Parent()
p.children = [objs[0], objs[1]]
plain = [0, 1]
plain[1:1] = plain
p.children[1:1] = p.children
got = [c.n for c in p.children]
print("coll[1:1] = coll:", "list ->", plain, " instrumented ->", got, "DEFECT" if plain != got else "ok")
bad += plain != got
print(f"DEFECTS REPRODUCED: {bad} of {total + 1} slice assignments differ from builtin list")
raise SystemExit(1 if bad else 0)
