"""C17 -- observations, attached to NO rule (value level: nothing in the shape of sql/lambdas.py is wrong).

The property text quantifies over closure values "scalars, lists for IN, columns, tables, None".  Two inputs for which
a lambda statement does not equal the directly built statement on the unchanged tree; both are consequences of the
documented design ("the lambda runs once; the lambda should produce an identical SQL structure in all cases",
doc/build/core/connections.rst) rather than of a broken clause:

1. `t.c.q == x` with x None: the direct statement renders `q IS NULL`; inside a lambda x is a tracked bound value,
   the cached SQL is `q = ?` and None is bound: no rows (also when None is the FIRST value seen).
2. a module-level flag used in a Python conditional inside the lambda: closure variables that did not become bound
   parameters are added to the cache key (`_setup_additional_closure_trackers`), globals are not
   (`_init_globals` wraps them for bound-value extraction only) -> the first structure is reused.
"""
from sqlalchemy import Column, Integer, MetaData, Table, create_engine, lambda_stmt, select

m = MetaData()
t = Table("t", m, Column("id", Integer, primary_key=True), Column("q", Integer))
e = create_engine("sqlite://")
m.create_all(e)
with e.begin() as c:
    c.execute(t.insert(), [dict(id=1, q=None), dict(id=2, q=5), dict(id=3, q=7)])


def go(x):
    return lambda_stmt(lambda: select(t.c.id).where(t.c.q == x))


def direct(x):
    return select(t.c.id).where(t.c.q == x)


with e.connect() as c:
    for x in (5, None, 7):
        a, b = c.execute(go(x)).all(), c.execute(direct(x)).all()
        print(f"x={x!r}: lambda {a}  direct {b}  {'same' if a == b else 'DIFFERENT'}")

FLAG = True


def go3():
    return lambda_stmt(lambda: select(t.c.id).where(t.c.q == 5) if FLAG else select(t.c.id))


with e.connect() as c:
    r1 = c.execute(go3()).all()
    FLAG = False
    r2 = c.execute(go3()).all()
    print("global FLAG True:", r1, " FLAG False:", r2, "(direct statement would return all 3 rows)")
