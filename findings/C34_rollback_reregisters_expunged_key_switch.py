"""C34-R9  orm/session.py::SessionTransaction._restore_snapshot:registers-attached[s]

`_restore_snapshot` undoes primary-key switches from the transaction's `_key_switches` bookkeeping and puts every such
state back with `identity_map.replace(s)`; the only test is `s not in to_expunge` (objects that were new in the
transaction).  Session._expunge_states prunes `_new`, `_deleted` and the transaction's `_deleted` when an object leaves
the session, but not `_key_switches`, and the sibling loop (`_update_impl(s, revert_deletion=True)`) returns early for a
state that is no longer attached -- the key-switch loop has no such test.  An object whose primary key was switched and
which was then expunged is therefore registered again by rollback():

  * the identity map of the session holds a DETACHED object (`session_id is None`); `session.get(A, 1)` finds it and
    raises DetachedInstanceError instead of loading the row;
  * if the object was meanwhile added to another session it ends up in the identity maps of two sessions.

Proposed minimal fix (verified in a scratch worktree, see notes/str-o.md):

-            if s not in to_expunge:
+            if s not in to_expunge and s.session_id == self.session.hash_key:
                 s.key = oldkey
                 self.session.identity_map.replace(s)

Run:  cd /tmp && /venv/bin/python /verif/findings/C34_rollback_reregisters_expunged_key_switch.py
"""
from sqlalchemy import Column, Integer, String, create_engine, inspect
from sqlalchemy.orm import Session, declarative_base

Base = declarative_base()


class A(Base):
    __tablename__ = "a"
    id = Column(Integer, primary_key=True, autoincrement=False)
    data = Column(String)


e = create_engine("sqlite://")
Base.metadata.create_all(e)
with Session(e) as s:
    s.add(A(id=1, data="x"))
    s.commit()

bad = 0
print("history 1: get, pk 1 -> 2, flush, expunge, rollback")
s = Session(e)
a = s.get(A, 1)
a.id = 2
s.flush()
s.expunge(a)
s.rollback()
st = inspect(a)
print(f"  object: detached={st.detached} session_id={st.session_id} key={st.key[1]}")
print(f"  identity map of the session still holds it: {s.identity_map.contains_state(st)}   (a in s: {a in s})")
if s.identity_map.contains_state(st) and st.session_id is None:
    bad += 1
try:
    b = s.get(A, 1)
    print(f"  session.get(A, 1) -> {b!r} (same object: {b is a}), data={b.data!r}")
except Exception as ex:
    bad += 1
    print(f"  session.get(A, 1) raised {type(ex).__name__}")
s.close()

print("history 2: the expunged object is added to a second session before the rollback")
s1, s2 = Session(e), Session(e)
a = s1.get(A, 1)
a.id = 2
s1.flush()
s1.expunge(a)
s2.add(a)
s1.rollback()
st = inspect(a)
in1, in2 = s1.identity_map.contains_state(st), s2.identity_map.contains_state(st)
print(f"  object belongs to session 2: {st.session is s2}; in identity map of session 1: {in1}, of session 2: {in2}")
if in1:
    bad += 1
s2.rollback()
s1.close()
s2.close()
print()
print("DEFECT REPRODUCED" if bad else "not reproduced")
