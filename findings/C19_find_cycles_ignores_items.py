"""C19-R5 finding (unchanged tree): topological.find_cycles(tuples, allitems) never reads `allitems`.

Rule key: C19-R5 util/topological.py::find_cycles:parameter-read(allitems)

Property C19: "... fails with a circular-dependency error exactly when the dependencies AMONG THE ITEMS contain
a cycle.  Cycle detection returns precisely the ITEMS that lie on some cycle."

sort()/sort_as_subsets() correctly ignore dependency pairs whose members are not items (they only block on
members of the pending item set).  find_cycles() however looks at the pairs only, so
  * find_cycles(pairs, items) reports objects that are not items at all, and
  * the CircularDependencyError raised by sort() for a genuine cycle among the items carries, in `.cycles`,
    every other cycle found in the pairs as well -- objects the caller never asked to sort.

Run:  cd /tmp && /venv/bin/python /verif/findings/C19_find_cycles_ignores_items.py
Exit 1 = reproduced, 0 = not reproduced.
"""

import sys

from sqlalchemy.exc import CircularDependencyError
from sqlalchemy.util import topological


def main():
    bad = 0
    pairs = [("x", "y"), ("y", "x")]
    got = topological.find_cycles(pairs, ["a"])
    print("find_cycles(%r, ['a']) -> %r   (expected: set(), no item is on a cycle)" % (pairs, sorted(got)))
    if got:
        bad = 1
    # the sort agrees that there is no cycle among the items
    print("sort(%r, ['a']) -> %r" % (pairs, list(topological.sort(pairs, ["a"]))))

    pairs = [("a", "b"), ("b", "a"), ("x", "y"), ("y", "x")]
    items = ["a", "b"]
    try:
        list(topological.sort(pairs, items))
        print("sort did not raise?!")
        bad = 1
    except CircularDependencyError as err:
        extra = sorted(set(err.cycles) - set(items))
        print("sort(%r, %r) raises with cycles=%r; not items: %r" % (pairs, items, sorted(err.cycles), extra))
        if extra:
            bad = 1
    if bad:
        print("DEFECT: reported cycles contain objects that are not items")
    sys.exit(bad)


if __name__ == "__main__":
    main()
