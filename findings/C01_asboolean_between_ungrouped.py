"""C01 findings of the strengthening round, reproduced against the real library on SQLite
(run: cd /tmp && /venv/bin/python /verif/findings/C01_asboolean_between_ungrouped.py).

A. C01-R4 key sql/elements.py::AsBoolean.self_group
   AsBoolean (what `~boolcol`, or a boolean column used inside AND/OR, becomes) renders on a backend without
   native booleans as `col = 0` / `col = 1` (SQLCompiler.visit_is_false_unary_operator), i.e. a
   comparison-level infix expression, but AsBoolean.self_group() returns self for EVERY `against`, although
   is_true/is_false have _PRECEDENCE 5.  As an operand of another operator it is never parenthesised:
   `a == ~bc` -> `t.a = t.bc = 0` which SQLite parses as `(t.a = t.bc) = 0`.
B. C01-R4 key sql/default_comparator.py::_between_impl:group=False
   The two bounds of BETWEEN are put in an ExpressionClauseList(and_, group=False) and never passed through
   self_group(): `a.between(b, c == 1)` -> `t.a BETWEEN t.b AND t.c = ?`, parsed as `(t.a BETWEEN t.b AND t.c) = ?`.
   (The lower bound is delimited by BETWEEN ... AND, the upper bound is not.)
C. C01-R1 key sqlite:concat_op<-mod  (same class as the recorded sqlite:concat_op<-add/mul/... findings; `mod`
   was not decided before because its visit method has two renderings, `%` and `%%`):
   `'a' || (7 % 4)` -> `'a' || 7 % 4` = ('a' || 7) % 4 = 0 instead of 'a3'.
   C01-R1 key mysql:bitwise_xor_op<-mod is the MySQL sibling (`c ^ (a % b)` -> `c ^ a % b`; MySQL's `^` binds
   tighter than `%`); rendering only, no backend offline.

Every line prints the rendered SQL and the number of rows whose value differs from the hand-parenthesised tree.
"""
from sqlalchemy import Boolean, Column, Integer, MetaData, Table, and_, create_engine, literal, literal_column, select
from sqlalchemy.dialects import mysql, sqlite

e = create_engine("sqlite://")
m = MetaData()
t = Table(
    "t", m,
    Column("id", Integer, primary_key=True),
    Column("a", Integer), Column("b", Integer), Column("c", Integer),
    Column("bc", Boolean(create_constraint=False)), Column("bd", Boolean(create_constraint=False)),
)
bad = 0
with e.begin() as conn:
    m.create_all(conn)
    rows, i = [], 0
    for a in (0, 1, None, 2):
        for b in (0, 1, None):
            for c in (0, 1, 3):
                for bc in (True, False, None):
                    i += 1
                    rows.append(dict(id=i, a=a, b=b, c=c, bc=bc, bd=(i % 2 == 0)))
    conn.execute(t.insert(), rows)

    def cmp(name, expr, manual):
        global bad
        sql = str(select(expr).compile(dialect=sqlite.dialect())).replace("\n", " ")
        got = conn.execute(select(t.c.id, expr).order_by(t.c.id)).all()
        exp = conn.execute(select(t.c.id, literal_column(manual)).order_by(t.c.id)).all()
        diff = [(g, x) for g, x in zip(got, exp) if tuple(g) != tuple(x)]
        bad += bool(diff)
        print(f"{name:34s} {sql:62s} expected {manual:40s} differing rows: {len(diff)}/{len(got)}"
              + (f"  e.g. id={diff[0][0][0]} got {diff[0][0][1]!r} expected {diff[0][1][1]!r}" if diff else ""))

    print("A. AsBoolean is never grouped")
    cmp("a == ~bc", t.c.a == ~t.c.bc, "(t.a = (t.bc = 0))")
    cmp("a + ~bc", t.c.a + ~t.c.bc, "(t.a + (t.bc = 0))")
    cmp("a != and_(bc, bd) [control]", t.c.a != and_(t.c.bc, t.c.bd), "(t.a != ((t.bc = 1) AND (t.bd = 1)))")
    print("B. BETWEEN bounds are never grouped")
    cmp("a.between(b, c == 1)", t.c.a.between(t.c.b, t.c.c == 1), "(t.a BETWEEN t.b AND (t.c = 1))")
    cmp("a.between(b, c.between(0, 1))", t.c.a.between(t.c.b, t.c.c.between(0, 1)), "(t.a BETWEEN t.b AND (t.c BETWEEN 0 AND 1))")
    cmp("a.between(b, and_(bc, bd))", t.c.a.between(t.c.b, and_(t.c.bc, t.c.bd)), "(t.a BETWEEN t.b AND ((t.bc = 1) AND (t.bd = 1)))")
    cmp("a.between(b, c.in_([1, 3]))", t.c.a.between(t.c.b, t.c.c.in_([1, 3])), "(t.a BETWEEN t.b AND (t.c IN (1, 3)))")
    cmp("a.between(b == 1, c) [control]", t.c.a.between(t.c.b == 1, t.c.c), "(t.a BETWEEN (t.b = 1) AND t.c)")
    cmp("a.between(b, c + 1) [control]", t.c.a.between(t.c.b, t.c.c + 1), "(t.a BETWEEN t.b AND (t.c + 1))")
    print("C. || binds tighter than % on SQLite")
    expr = literal("a").concat(literal(7) % literal(4))
    sql = str(select(expr).compile(dialect=sqlite.dialect(), compile_kwargs={"literal_binds": True}))
    val = conn.scalar(select(expr))
    bad += val != "a3"
    print("  ", sql, "->", repr(val), "(fully parenthesised form gives 'a3')")
    print("   mysql rendering:", t.c.c.bitwise_xor(t.c.a % t.c.b).compile(dialect=mysql.dialect()),
          " (MySQL parses it as (c ^ a) % b)")
print("DEFECTS REPRODUCED" if bad else "nothing reproduced")
