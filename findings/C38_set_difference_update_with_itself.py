"""C38-R12 reproduction: `coll.difference_update(coll)` / `coll -= coll` on an instrumented set raise RuntimeError.

Run:  cd /tmp && /venv/bin/python /verif/findings/C38_set_difference_update_with_itself.py

builtin: `s.difference_update(s)` and `s -= s` empty the set.  The wrappers iterate the operand while discarding from
the collection (`for item in value: self.discard(item)`), so with the collection itself as operand the first discard
raises "Set changed size during iteration" -- after one member has already been removed (and its remove event fired).
The sibling wrappers intersection_update / symmetric_difference_update snapshot first (`set(self)`) and are fine.
Minimal fix: iterate over a snapshot (`for item in list(value):`) in difference_update and __isub__.
"""
from sqlalchemy import ForeignKey, Integer
from sqlalchemy.orm import DeclarativeBase, Mapped, mapped_column, relationship


class Base(DeclarativeBase):
    pass


class Parent(Base):
    __tablename__ = "p"
    id: Mapped[int] = mapped_column(Integer, primary_key=True)
    children = relationship("Child", collection_class=set)


class Child(Base):
    __tablename__ = "c"
    id: Mapped[int] = mapped_column(Integer, primary_key=True)
    pid = mapped_column(ForeignKey("p.id"))


bad = 0
for label, op in (("difference_update(coll)", lambda c: c.difference_update(c)), ("coll -= coll", lambda c: c.__isub__(c))):
    plain = {1, 2, 3}
    op(plain)
    p = Parent()
    p.children = {Child(), Child(), Child()}
    try:
        op(p.children)
        res = f"{len(p.children)} members left"
        wrong = len(p.children) != 0
    except Exception as e:
        res = f"raises {type(e).__name__}: {e} ({len(p.children)} members left)"
        wrong = True
    bad += wrong
    print(f"{label}: builtin set -> {plain or 'set()'}; instrumented set -> {res}", "DEFECT" if wrong else "ok")
print("DEFECTS REPRODUCED:", bad)
raise SystemExit(1 if bad else 0)
