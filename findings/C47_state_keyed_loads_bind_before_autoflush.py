"""C47-R7  :autoflush-before-state-read -- loads FOR an in-session instance read the instance state before the autoflush

Keys (one defect class, three sites):
  orm/loading.py::_load_scalar_attributes:autoflush-before-state-read        (expired / deferred attribute load)
  orm/strategies.py::_LazyLoader._emit_lazyload:autoflush-before-state-read  (lazy clause parameters)
  orm/strategies.py::_LazyLoader._load_for_state:autoflush-before-state-read (many-to-one "use_get" identity)

These loaders build the criteria of their SELECT from the CURRENT state of the instance (identity key; the column
values that feed the lazy clause) and only then call session.execute(), inside which the autoflush runs.  The flush
can change exactly that state (a foreign key column synchronised from a relationship assignment, a primary-key
switch), so the SELECT is run with values an explicit flush() would have replaced.  Session.refresh() had the same
defect and was repaired in #8703 by autoflushing up front and loading with no_autoflush=True (the comment there
describes this very problem); its siblings were not.

Histories (each run twice: relying on autoflush / calling flush() first -- the property says both must agree):
  1. viewonly collection keyed on a.b_id; `a.b = b2` (b_id is synchronised by flush); read a.cs
       autoflush: rows for the OLD b_id         explicit flush: rows for the new b_id
  2. second many-to-one on the same column (use_get path): `a.b = b2`; read a.b_again
       autoflush: old B out of the identity map (no flush, no SQL at all)      explicit flush: b2
  3. primary key changed in memory, then an expired column attribute is read
       autoflush: ObjectDeletedError (SELECT for the old key after the flush moved the row)    explicit flush: value

Minimal repair of sites 1 and 2 (mirror of Session.refresh; test results in notes/str-q.md):

    --- a/lib/sqlalchemy/orm/loading.py   (_load_scalar_attributes)
         no_autoflush = bool(passive & attributes.NO_AUTOFLUSH)
    +    if not no_autoflush:
    +        # autoflush up front as Session.refresh() does (#8703): the identity
    +        # read below may be changed by the flush
    +        session._autoflush()
    +        no_autoflush = True
    --- a/lib/sqlalchemy/orm/strategies.py   (_LazyLoader._emit_lazyload)
             if pending or passive & attributes.NO_AUTOFLUSH:
                 stmt._execution_options = util.immutabledict({"autoflush": False})
    +        else:
    +            # autoflush before the lazy clause parameters are read
    +            session._autoflush()

Site 3 (many-to-one identity-map hit in _load_for_state: no flush and no SQL at all) would need an autoflush before
_get_ident_for_use_get when `not pending and passive & SQL_OK and not passive & NO_AUTOFLUSH`; with it all three
histories agree, but test/orm/test_backref_mutations.py::O2OScalarBackrefMoveTest_legacy_style::
test_scalar_move_notloaded asserts the un-flushed answer ("stays on both sides"), so that site can only be recorded
as a known finding.

Run:  cd /tmp && /venv/bin/python /verif/findings/C47_state_keyed_loads_bind_before_autoflush.py   (exit 1 = defect present)
"""
import sys

from sqlalchemy import Column, ForeignKey, Integer, String, create_engine
from sqlalchemy.orm import Session, declarative_base, relationship

Base = declarative_base()


class B(Base):
    __tablename__ = "b"
    id = Column(Integer, primary_key=True)


class C(Base):
    __tablename__ = "c"
    id = Column(Integer, primary_key=True)
    b_id = Column(ForeignKey("b.id"))


class A(Base):
    __tablename__ = "a"
    id = Column(Integer, primary_key=True)
    name = Column(String)
    b_id = Column(ForeignKey("b.id"))
    b = relationship(B)
    b_again = relationship(B, viewonly=True)  # many-to-one on the same column: use_get path
    cs = relationship(C, primaryjoin="A.b_id == foreign(C.b_id)", viewonly=True, order_by="C.id")


e = create_engine("sqlite://")
Base.metadata.create_all(e)
with Session(e) as s:
    s.add_all([B(id=1), B(id=2), C(id=10, b_id=1), C(id=20, b_id=2), A(id=1, name="n", b_id=1)])
    s.commit()


def h_collection(s, a):
    a.b = s.get(B, 2)
    yield
    yield [c.id for c in a.cs]


def h_many_to_one(s, a):
    s.get(B, 1)
    a.b = s.get(B, 2)
    yield
    yield a.b_again.id


def h_pk_switch(s, a):
    s.expire(a, ["name"])
    a.id = 5
    yield
    try:
        yield a.name
    except Exception as ex:  # noqa
        yield f"{type(ex).__name__}"


def run(history, explicit_flush):
    with Session(e) as s:
        a = s.get(A, 1)
        it = history(s, a)
        next(it)
        if explicit_flush:
            s.flush()
        out = next(it)
        s.rollback()
        return out


bad = 0
for h in (h_collection, h_many_to_one, h_pk_switch):
    auto, explicit = run(h, False), run(h, True)
    flag = "" if auto == explicit else "   <-- differs"
    print(f"{h.__name__:16s} autoflush: {auto!r:24} after explicit flush: {explicit!r}{flag}")
    bad += auto != explicit
if bad:
    print(f"DEFECT: {bad} histories give different results with autoflush and with an explicit flush")
    sys.exit(1)
print("ok")
