"""C31-R1  orm/dependency.py::_ManyToOneDP.per_property_dependencies:post_update:parent_post_updates<child_deletes
C31-R1  orm/dependency.py::_OneToManyDP.per_property_dependencies:post_update:child_post_updates<parent_deletes
(C31-R2 ..._OneToManyDP.per_state_dependencies:post_update,parent-deleted,child-saved:child_post_updates<delete_parent
 is the per-object face of the second one.)

With post_update=True the FOREIGN KEY column of a surviving row is written by the separate post-update
UPDATE (the _PostUpdateAll(mapper, isdelete=False) action: `_PostUpdateAll.execute` selects states by the
*row's own* delete flag, so a surviving row whose reference is being CLEARED is handled by the
isdelete=False action, not by the "pre update").  The post_update branches of per_property_dependencies
order   pre_updates -> deletes   but register no edge   post_updates -> delete of the referenced row.
Whether the clearing UPDATE precedes the DELETE then depends on which topological layer the two actions
happen to fall into; an unrelated dependency that delays the post-update action makes the DELETE run
first -> IntegrityError on any backend that checks FOREIGN KEYs immediately.  In both scenarios the final
state satisfies every constraint.

Run:  cd /tmp && /venv/bin/python /verif/findings/C31_post_update_clear_fk_after_delete.py
"""
from sqlalchemy import ForeignKey, Integer, create_engine, event
from sqlalchemy.orm import DeclarativeBase, Session, mapped_column, relationship
from sqlalchemy.orm import dependency, unitofwork


class Base(DeclarativeBase):
    pass


# ---------------- scenario 1: many-to-one with post_update; a.b = None; delete(b)
class A(Base):
    __tablename__ = "a"
    id = mapped_column(Integer, primary_key=True)
    b_id = mapped_column(ForeignKey("b.id"))
    x_id = mapped_column(ForeignKey("x.id"))
    b = relationship("B", foreign_keys=[b_id], post_update=True)


class B(Base):
    __tablename__ = "b"
    id = mapped_column(Integer, primary_key=True)


class X(Base):  # only purpose: its saves happen late (x -> y -> z), delaying the post update of `a`
    __tablename__ = "x"
    id = mapped_column(Integer, primary_key=True)
    y_id = mapped_column(ForeignKey("y.id"))
    y = relationship("Y")
    as_ = relationship("A", post_update=True)


class Y(Base):
    __tablename__ = "y"
    id = mapped_column(Integer, primary_key=True)
    z_id = mapped_column(ForeignKey("z.id"))
    z = relationship("Z")


class Z(Base):
    __tablename__ = "z"
    id = mapped_column(Integer, primary_key=True)


# ---------------- scenario 2: one-to-many with post_update; delete(parent), child survives
class P(Base):
    __tablename__ = "p"
    id = mapped_column(Integer, primary_key=True)
    cs = relationship("C", post_update=True)


class C(Base):
    __tablename__ = "c"
    id = mapped_column(Integer, primary_key=True)
    p_id = mapped_column(ForeignKey("p.id"))
    y_id = mapped_column(ForeignKey("y.id"))
    y = relationship("Y")


def _engine():
    e = create_engine("sqlite://")

    @event.listens_for(e, "connect")
    def _fk(dbapi_con, rec):
        dbapi_con.execute("pragma foreign_keys=ON")

    Base.metadata.create_all(e)
    stmts = []

    @event.listens_for(e, "before_cursor_execute")
    def _log(conn, cur, stmt, params, ctx, many):
        stmts.append((stmt, params))

    return e, stmts


def _flush(s, stmts):
    try:
        s.flush()
        out = "flush OK"
    except Exception as ex:  # noqa
        out = f"flush FAILED: {type(ex).__name__}: {str(ex).splitlines()[0]}"
    return out, list(stmts)


def scenario_m2o():
    e, stmts = _engine()
    with Session(e) as s:
        b = B(id=1)
        a = A(id=1, b=b)
        s.add_all([a, b])
        s.commit()
        a.b
        del stmts[:]
        a.b = None       # reference cleared (written by the post-update UPDATE) ...
        s.delete(b)      # ... and the formerly referenced row deleted
        x = X(id=1, y=Y(id=1, z=Z(id=1)))   # unrelated work in the same flush
        x.as_.append(a)
        s.add(x)
        return _flush(s, stmts)


def scenario_o2m():
    e, stmts = _engine()
    with Session(e) as s:
        p = P(id=1, cs=[C(id=1)])
        s.add(p)
        s.commit()
        c1 = p.cs[0]
        del stmts[:]
        c1.y = Y(id=1, z=Z(id=1))          # unrelated work: c1's own save now waits for y and z
        s.delete(p)                        # parent deleted, child survives with p_id = NULL
        return _flush(s, stmts)


def show(title, res):
    print(title)
    print("  ", res[0])
    for st in res[1]:
        print("      ", st)


print("== unchanged library ==")
r1 = scenario_m2o()
show("many-to-one post_update: a.b = None; delete(b)", r1)
r2 = scenario_o2m()
show("one-to-many post_update: delete(parent), child survives", r2)

# ---- proposed minimal fix (two added edges), applied by wrapping; the library file is not modified
_m2o = dependency._ManyToOneDP.per_property_dependencies
_o2m = dependency._OneToManyDP.per_property_dependencies


def m2o(self, uow, parent_saves, child_saves, parent_deletes, child_deletes, after_save, before_delete):
    _m2o(self, uow, parent_saves, child_saves, parent_deletes, child_deletes, after_save, before_delete)
    if self.post_update:
        ppu = unitofwork._PostUpdateAll(uow, self.parent.primary_base_mapper, False)
        uow.dependencies.add((ppu, child_deletes))


def o2m(self, uow, parent_saves, child_saves, parent_deletes, child_deletes, after_save, before_delete):
    _o2m(self, uow, parent_saves, child_saves, parent_deletes, child_deletes, after_save, before_delete)
    if self.post_update:
        cpu = unitofwork._PostUpdateAll(uow, self.mapper.primary_base_mapper, False)
        uow.dependencies.add((cpu, parent_deletes))


dependency._ManyToOneDP.per_property_dependencies = m2o
dependency._OneToManyDP.per_property_dependencies = o2m
print("== with the proposed edges (post_updates, deletes of the referenced side) ==")
f1 = scenario_m2o()
show("many-to-one post_update", f1)
f2 = scenario_o2m()
show("one-to-many post_update", f2)
print()
ok = "FAILED" in r1[0] and "FAILED" in r2[0] and "OK" in f1[0] and "OK" in f2[0]
print("DEFECT REPRODUCED (both directions)" if ok else "not (fully) reproduced")
