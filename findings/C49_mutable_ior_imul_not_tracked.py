"""C49-R1 reproduction: MutableDict.__ior__ and MutableList.__imul__ are not overridden.

Run:  cd /tmp && /venv/bin/python /verif/findings/C49_mutable_ior_imul_not_tracked.py

`d |= {...}` (dict.__ior__, Python >= 3.9) and `l *= 2` (list.__imul__) mutate the value in place
through the builtin implementation; changed() is never called, the parent is not flagged modified,
flush writes nothing and the database silently keeps the old value.
"""
from sqlalchemy import JSON, Integer, create_engine, inspect, select
from sqlalchemy.ext.mutable import MutableDict, MutableList
from sqlalchemy.orm import DeclarativeBase, Mapped, Session, mapped_column


class Base(DeclarativeBase):
    pass


class T(Base):
    __tablename__ = "t"
    id: Mapped[int] = mapped_column(Integer, primary_key=True)
    d = mapped_column(MutableDict.as_mutable(JSON))
    l = mapped_column(MutableList.as_mutable(JSON))


e = create_engine("sqlite://")
Base.metadata.create_all(e)
bad = 0
with Session(e) as s:
    t = T(d={"a": 1}, l=[1, 2])
    s.add(t)
    s.commit()

    t.d |= {"b": 2}
    print("after `t.d |= {'b': 2}`: in memory", dict(t.d), "modified:", inspect(t).modified, "dirty:", t in s.dirty)
    s.commit()
    stored = s.execute(select(T.__table__.c.d)).scalar()
    print("   stored after commit:", stored)
    if stored != {"a": 1, "b": 2}:
        bad += 1
        print("   DEFECT: in-memory value was", {"a": 1, "b": 2}, "but the database has", stored)

    # control: update() is tracked
    t.d.update({"c": 3})
    s.commit()
    print("   control d.update({'c': 3}) stored:", s.execute(select(T.__table__.c.d)).scalar())

    t.l *= 2
    print("after `t.l *= 2`: in memory", list(t.l), "modified:", inspect(t).modified)
    s.commit()
    stored = s.execute(select(T.__table__.c.l)).scalar()
    print("   stored after commit:", stored)
    if stored != [1, 2, 1, 2]:
        bad += 1
        print("   DEFECT: in-memory value was [1, 2, 1, 2] but the database has", stored)

print("DEFECTS REPRODUCED:", bad)
raise SystemExit(1 if bad else 0)
