"""C18 (str2-g, round-2 observation 1): ORMSelectCompileState._should_nest_selectable tests limit_clause and
offset_clause but never fetch_clause.

A joined-eager-load of a collection multiplies the primary rows; with LIMIT / OFFSET the ORM therefore wraps the
primary query in a subquery (the limit counts ENTITIES) and joins the collection outside.  select(A).fetch(n) is the
same request spelled FETCH FIRST n ROWS ONLY -- but the statement is not nested, so FETCH counts the rows of the JOIN:
fewer entities come back than asked for and the last one has a truncated collection.

SQLite has no FETCH FIRST syntax; a before_cursor_execute hook re-spells the rendered clause the SQLite way
(`FETCH FIRST ? ROWS ONLY` -> `LIMIT ?`, position and parameter unchanged), everything else is the real library.
Run:  cd /tmp && /venv/bin/python /verif/findings/C18_joinedload_fetch_not_nested.py     (exit 1 = defect present)
"""
import re
import sys

from sqlalchemy import ForeignKey, create_engine, event, select
from sqlalchemy.dialects import postgresql
from sqlalchemy.orm import DeclarativeBase, Mapped, Session, joinedload, mapped_column, relationship


class Base(DeclarativeBase):
    pass


class A(Base):
    __tablename__ = "a"
    id: Mapped[int] = mapped_column(primary_key=True)
    bs = relationship("B", order_by="B.id")


class B(Base):
    __tablename__ = "b"
    id: Mapped[int] = mapped_column(primary_key=True)
    a_id: Mapped[int] = mapped_column(ForeignKey("a.id"))


e = create_engine("sqlite://")


@event.listens_for(e, "before_cursor_execute", retval=True)
def _respell(conn, cursor, statement, parameters, context, executemany):
    m = re.search(r"(OFFSET \? ROWS)?\s*FETCH FIRST \? ROWS ONLY", statement)
    if m:
        if m.group(1):  # OFFSET ? ROWS FETCH FIRST ? ROWS ONLY -> LIMIT ? OFFSET ?  (parameters swap)
            statement = statement[: m.start()] + " LIMIT ? OFFSET ?" + statement[m.end():]
            parameters = tuple(parameters[:-2]) + (parameters[-1], parameters[-2])
        else:
            statement = statement[: m.start()] + " LIMIT ?" + statement[m.end():]
    return statement, parameters


Base.metadata.create_all(e)
bad = []
with Session(e) as s:
    s.add_all([A(id=i, bs=[B(id=i * 10 + j) for j in range(3)]) for i in range(1, 5)])
    s.commit()
    base = select(A).options(joinedload(A.bs)).order_by(A.id)
    full = [(a.id, [b.id for b in a.bs]) for a in s.scalars(base).unique().all()]
    s.expire_all()
    for name, stmt, want in (
        ("limit(2)", base.limit(2), full[0:2]),
        ("fetch(2)", base.fetch(2), full[0:2]),
        ("limit(2).offset(1)", base.limit(2).offset(1), full[1:3]),
        ("fetch(2).offset(1)", base.fetch(2).offset(1), full[1:3]),
    ):
        got = [(a.id, [b.id for b in a.bs]) for a in s.scalars(stmt).unique().all()]
        s.expire_all()
        sql = " ".join(str(stmt.compile(dialect=postgresql.dialect())).split())
        ok = got == want
        print(f"{'ok ' if ok else 'BAD'} {name:20s} -> {got}")
        if not ok:
            print(f"      expected the entity slice {want}")
            print(f"      PostgreSQL SQL: {sql}")
            bad.append(name)
if bad:
    print(f"FAIL: {bad}: FETCH is applied to the rows of the eager JOIN, not to the entities (statement not nested)")
    sys.exit(1)
print("PASS")
