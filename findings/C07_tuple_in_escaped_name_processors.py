"""C07-R5  sql/compiler.py::SQLCompiler._process_parameters_for_postcompile:processor-registration-key:tuple

For a tuple IN whose expanding parameter has a name that needs escaping (`.`, `[`, `]`, `:`, ` `, `%`, `(`, `)`),
the element processors are registered under keys formatted from the RAW name ("%s_%s_%s" % (name, i, j)),
while the expanded values are put into the parameter dictionary under keys formatted from the ESCAPED name
(_literal_execute_expanding_parameter(escaped_name, ...)).  At execution time no processor is found for
`my_p_1_1`, the elements go to the DBAPI unprocessed: with a DateTime member on SQLite the IN matches nothing
although the OR-of-equalities matches.  (The scalar arm takes its keys from `to_update` and is right.)

Minimal fix:
-                                "%s_%s_%s" % (name, i, j),
+                                "%s_%s_%s" % (escaped_name, i, j),

Run:  cd /tmp && /venv/bin/python /verif/findings/C07_tuple_in_escaped_name_processors.py
"""
import datetime

from sqlalchemy import Column, DateTime, Integer, MetaData, Table, and_, bindparam, create_engine, or_, select, tuple_

e = create_engine("sqlite://")
m = MetaData()
t = Table("t", m, Column("id", Integer, primary_key=True), Column("d", DateTime), Column("y", Integer))
m.create_all(e)
dt = datetime.datetime(2024, 1, 1, 10, 0)
bad = 0
with e.begin() as c:
    c.execute(t.insert(), [dict(id=1, d=dt, y=1), dict(id=2, d=dt, y=2), dict(id=3, d=None, y=3)])
    vals = [(dt, 1), (dt, 2)]
    want = [r[0] for r in c.execute(select(t.c.id).where(or_(*[and_(t.c.d == a, t.c.y == b) for a, b in vals])).order_by(t.c.id))]
    for pname in ("myp", "my.p", "my p", "p[0]"):
        stmt = select(t.c.id).where(tuple_(t.c.d, t.c.y).in_(bindparam(pname, expanding=True))).order_by(t.c.id)
        got = [r[0] for r in c.execute(stmt, {pname: vals})]
        comp = stmt.compile(e)
        st = comp.construct_expanded_state({pname: vals}, escape_names=False) if hasattr(comp, "construct_expanded_state") else None
        extra = f"  processors for {sorted(st.processors)} / parameters {sorted(st.parameters)}" if st is not None else ""
        flag = "" if got == want else f"   <-- WRONG, OR-of-equalities gives {want}"
        bad += got != want
        print(f"(d, y) IN bindparam({pname!r}, expanding=True): {got}{flag}{extra}")
print("DEFECT REPRODUCED" if bad else "not reproduced")
