"""C07-R2  dialects/mssql/base.py::MSSQLStrictCompiler.visit_not_in_op_binary

The base compiler brackets NOT IN ("(x NOT IN (...))") because the empty-set form injected at
execution time is `x NOT IN (NULL) OR (1 = 1)`: the top-level OR must not leak into the enclosing
expression.  MSSQLStrictCompiler overrides visit_not_in_op_binary without the brackets, so
`and_(a == 1, c.not_in([]))` renders `a = 1 AND c NOT IN (NULL) OR (1 = 1)`, which is TRUE for every
row (AND binds tighter than OR) instead of being equivalent to `a = 1`.

MSSQLStrictCompiler is a public compiler class ("A dialect may use this compiler on a platform where
native binds are used"); no built-in dialect selects it, a third-party / user dialect does so with
`statement_compiler = MSSQLStrictCompiler`.

Run:  cd /tmp && /venv/bin/python /verif/findings/C07_mssql_strict_not_in_unbracketed.py
"""
import sqlite3

from sqlalchemy import and_, column
from sqlalchemy.dialects import mssql
from sqlalchemy.dialects.mssql.base import MSSQLCompiler, MSSQLStrictCompiler


def render(compiler_cls):
    d = mssql.dialect()
    d.statement_compiler = compiler_cls
    expr = and_(column("a") == 1, column("c").not_in([]))
    return str(expr.compile(dialect=d, compile_kwargs={"literal_binds": True}))


good, bad = render(MSSQLCompiler), render(MSSQLStrictCompiler)
print("MSSQLCompiler      :", good)
print("MSSQLStrictCompiler:", bad)

# the rendered predicates use only standard SQL; evaluate them for a row with a = 2 (must be false)
db = sqlite3.connect(":memory:")
db.execute("create table t (a int, c int)")
db.execute("insert into t values (2, 5)")
r_good = db.execute(f"select count(*) from t where {good}").fetchone()[0]
r_bad = db.execute(f"select count(*) from t where {bad}").fetchone()[0]
print("rows with a=2 matched by `a = 1 AND c NOT IN ()`: base compiler ->", r_good, "; strict compiler ->", r_bad, "(expected 0)")
print("DEFECT REPRODUCED" if r_bad != 0 and r_good == 0 else "not reproduced")
