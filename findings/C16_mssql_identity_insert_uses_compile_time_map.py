"""C16-R1 finding: MSExecutionContext._opt_encode renders the schema placeholder of its
`SET IDENTITY_INSERT <table> ON/OFF` statements with `self.compiled.schema_translate_map` -- the map that
was in effect when the statement was COMPILED -- instead of the executing context's
execution_options["schema_translate_map"].  With a shared compiled cache the second execution (map B)
re-uses the compilation made under map A: IDENTITY_INSERT is switched on for schema A's table while the
INSERT goes to schema B's table.

No SQL Server is available offline: the script drives the real mssql+pyodbc dialect and the real
Connection/ExecutionContext machinery over a recording fake DBAPI and prints the statements that reach
the cursor.

Run:  cd /tmp && /venv/bin/python /verif/findings/C16_mssql_identity_insert_uses_compile_time_map.py
"""
import types

from sqlalchemy import Column, Integer, MetaData, Table, create_engine

LOG = []


class Cursor:
    description = None
    rowcount = 1
    arraysize = 1

    def execute(self, stmt, params=()):
        LOG.append(stmt)

    def executemany(self, stmt, params):
        LOG.append(stmt)

    def fetchall(self):
        return []

    def fetchone(self):
        return None

    def close(self):
        pass

    def __getattr__(self, k):
        return lambda *a, **kw: None


class Conn:
    autocommit = False

    def cursor(self):
        return Cursor()

    def __getattr__(self, k):
        return lambda *a, **kw: None


fake = types.ModuleType("fake_pyodbc")
fake.paramstyle = "qmark"
fake.version = "4.0.39"
fake.Error = type("Error", (Exception,), {})
fake.connect = lambda *a, **kw: Conn()
fake.Cursor = Cursor
fake.Connection = Conn
for n in ("NUMBER", "STRING", "BINARY", "DATETIME", "ROWID", "SQL_VARCHAR", "SQL_WVARCHAR", "SQL_DECIMAL", "SQL_CHAR", "SQL_WCHAR", "SQL_WMETADATA"):
    setattr(fake, n, 1)

eng = create_engine("mssql+pyodbc://u:p@somedsn", module=fake, _initialize=False)
eng.dialect.server_version_info = (15, 0)
eng.dialect.default_schema_name = "dbo"

m = MetaData()
t = Table("t", m, Column("id", Integer, primary_key=True), Column("x", Integer), schema="per_tenant")

with eng.connect() as c:
    for tenant in ("tenant_a", "tenant_b"):
        LOG.append(f"-- execute with schema_translate_map={{'per_tenant': '{tenant}'}}")
        c.execution_options(schema_translate_map={"per_tenant": tenant}).execute(t.insert(), {"id": 1, "x": 1})

for line in LOG:
    print(line)

second = LOG[LOG.index("-- execute with schema_translate_map={'per_tenant': 'tenant_b'}") + 1:]
bad = [s for s in second if "IDENTITY_INSERT" in s and "tenant_a" in s]
ins = [s for s in second if s.lstrip().upper().startswith("INSERT")]
print()
if bad:
    print("DEFECT: executing with map B, IDENTITY_INSERT is toggled on the table of map A:")
    for s in bad:
        print("   ", s)
    print("    while the INSERT goes to:", ins[0].split("(")[0].strip() if ins else "?")
raise SystemExit(1 if bad else 0)
