"""C18 (str2-g, round-2 observation 3): the legacy MSSQL ROW_NUMBER() wrapper adds the row-number column to the SAME
SELECT that carries DISTINCT: `SELECT DISTINCT x, ROW_NUMBER() OVER (ORDER BY x) AS mssql_rn FROM t`.  Every row has a
different mssql_rn, so DISTINCT removes nothing: duplicates come back and the window is a slice of the non-distinct rows.
(The Oracle ROWNUM wrapper numbers the rows OUTSIDE the aliased original statement and is not affected.)

The wrapper only uses ROW_NUMBER() and subqueries, so the compiled statement is executed on SQLite.
Run:  cd /tmp && /venv/bin/python /verif/findings/C18_mssql_legacy_distinct_row_number.py     (exit 1 = defect present)
"""
import sqlite3
import sys

from sqlalchemy import column, select, table
from sqlalchemy.dialects import mssql

t = table("t", column("x"))
old = mssql.dialect()
old._supports_offset_fetch = False
db = sqlite3.connect(":memory:")
db.execute("create table t (x integer)")
db.executemany("insert into t values (?)", [(v,) for v in (1, 1, 1, 2, 2, 3, 4)])

base = select(t.c.x).distinct().order_by(t.c.x)
full = [r[0] for r in db.execute("select distinct x from t order by x")]
bad = []
for lim, off in ((2, 1), (2, 0), (3, 2)):
    stmt = base.limit(lim).offset(off) if off else base.limit(lim).offset(0)
    c = stmt.compile(dialect=old)
    got = [r[0] for r in db.execute(str(c), c.params)]
    want = full[off:off + lim]
    ok = got == want
    print(f"{'ok ' if ok else 'BAD'} distinct.limit({lim}).offset({off}) -> {got}   expected {want}")
    if not ok:
        print("     ", " ".join(str(c).split()))
        bad.append((lim, off))
if bad:
    print(f"FAIL: DISTINCT is defeated by the row-number column for {bad}")
    sys.exit(1)
print("PASS")
