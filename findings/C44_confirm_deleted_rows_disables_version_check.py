"""C44-R2  orm/persistence.py::_emit_delete_statements:stale-condition-vocabulary

`_emit_delete_statements` raises StaleDataError for a versioned DELETE that matched fewer rows than expected only
inside `if base_mapper.confirm_deleted_rows and rows_matched > -1 and expected != rows_matched and (...)`.
`confirm_deleted_rows` is documented as the switch for the *warning* about unexpected DELETE row counts
(meant for ON DELETE CASCADE setups); setting it to False also switches the optimistic-concurrency check of
`version_id_col` off: a session deleting an object whose version is no longer current gets no error, the row
stays in the database, and the session believes the object is gone.

Run:  cd /tmp && /venv/bin/python /verif/findings/C44_confirm_deleted_rows_disables_version_check.py
"""
import inspect as _inspect

from sqlalchemy import Integer, String, create_engine, text
from sqlalchemy.orm import DeclarativeBase, Session, mapped_column
from sqlalchemy.orm import persistence
from sqlalchemy.orm.exc import StaleDataError
from sqlalchemy.pool import StaticPool


def scenario(confirm_deleted_rows):
    class Base(DeclarativeBase):
        pass

    class A(Base):
        __tablename__ = "a"
        id = mapped_column(Integer, primary_key=True)
        v = mapped_column(Integer, nullable=False)
        data = mapped_column(String)
        __mapper_args__ = {"version_id_col": v, "confirm_deleted_rows": confirm_deleted_rows}

    e = create_engine("sqlite://", poolclass=StaticPool, connect_args={"check_same_thread": False})
    Base.metadata.create_all(e)
    with Session(e) as s:
        s.add(A(id=1, data="x"))
        s.commit()
    s1, s2 = Session(e), Session(e)
    a1 = s1.get(A, 1)               # s1 loads version 1
    a2 = s2.get(A, 1)
    a2.data = "y"
    s2.commit()                     # s2 moves the row to version 2
    s1.delete(a1)                   # s1 deletes based on the stale version 1
    try:
        s1.commit()
        outcome = "NO ERROR"
    except StaleDataError:
        outcome = "StaleDataError"
    with e.connect() as c:
        rows = c.execute(text("select id, v, data from a")).all()
    return outcome, rows


print("== unchanged library ==")
r_true = scenario(True)
r_false = scenario(False)
print("  confirm_deleted_rows=True :", r_true)
print("  confirm_deleted_rows=False:", r_false, " <- stale delete accepted, row still there")

# ---- proposed minimal fix (library file not modified): the row-count check always applies to versioned rows
src = _inspect.getsource(persistence._emit_delete_statements)
old = "            base_mapper.confirm_deleted_rows\n            and rows_matched > -1\n"
new = "            (base_mapper.confirm_deleted_rows or need_version_id)\n            and rows_matched > -1\n"
assert src.count(old) == 1
ns = {}
exec(compile(src.replace(old, new), "<patched _emit_delete_statements>", "exec"), persistence.__dict__, ns)
persistence._emit_delete_statements = ns["_emit_delete_statements"]
print("== with the proposed fix ==")
f_false = scenario(False)
print("  confirm_deleted_rows=False:", f_false)
print()
ok = r_true[0] == "StaleDataError" and r_false[0] == "NO ERROR" and len(r_false[1]) == 1 and f_false[0] == "StaleDataError"
print("DEFECT REPRODUCED" if ok else "not reproduced")
