"""C36-R8  orm/persistence.py::_collect_update_commands:history-key-read[state_dict]

`del obj.col` on a persistent object is a change like any other: `_ScalarAttributeImpl.delete` records the old value
(`state._modified_event(dict_, self, old)`) and pops the key from the instance dict; history reports
`added=() unchanged=() deleted=[old]`.  The flush then iterates `set(propkey_to_col).intersection(state.committed_state)` --
the keys that HAVE history -- and reads the current value with `state_dict[propkey]`: the deleted attribute is in
committed_state and not in the instance dict, so `Session.flush()` raises `KeyError: '<attr>'` (also from autoflush, i.e.
from any later query / lazy load) instead of persisting the reported difference (UPDATE ... SET col=NULL).  The session stays
unusable for that object until the attribute is assigned again or the session is rolled back.
(`_collect_insert_commands` and the bulk branch draw their keys from the instance dict itself and are fine.)

Observation 1 of the round-2 seed agent for C36 (notes/seed_agent_observations.md, "C36 (round 2)").

Proposed minimal fix (verified in a scratch worktree: this script prints "not reproduced", ./check C36 no longer reports the key,
ORM test files listed in notes/str2-p.md pass):

             for propkey in set(propkey_to_col).intersection(
                 state.committed_state
             ):
-                value = state_dict[propkey]
+                value = state_dict.get(propkey)

Second part (observation 2, NO rule -- see notes/str2-p.md): `del obj.collection` on a loaded collection records the original,
fires a remove event per member, drops the attribute -- and from then on history is blank (the attribute counts as unloaded), so a
flush persists nothing on this side and even a removal made BEFORE the `del` is forgotten.  Printed for the record, not counted.

Run:  cd /tmp && /venv/bin/python /verif/findings/C36_del_scalar_flush_keyerror.py
"""
import sys

from sqlalchemy import Column, ForeignKey, Integer, String, create_engine, inspect
from sqlalchemy.orm import Session, declarative_base, relationship

Base = declarative_base()


class P(Base):
    __tablename__ = "p"
    id = Column(Integer, primary_key=True)
    name = Column(String, nullable=True)
    cs = relationship("C")


class C(Base):
    __tablename__ = "c"
    id = Column(Integer, primary_key=True)
    pid = Column(ForeignKey("p.id"))


e = create_engine("sqlite://")
Base.metadata.create_all(e)
with Session(e) as s:
    s.add(P(id=1, name="x", cs=[C(id=1), C(id=2)]))
    s.commit()

problems = []
with Session(e) as s:
    p = s.get(P, 1)
    del p.name
    h = inspect(p).attrs.name.history
    print("history after `del p.name`:", h)
    assert tuple(h) == ((), (), ["x"])
    try:
        s.flush()
        s.commit()
        val = s.connection().exec_driver_sql("select name from p where id=1").scalar()
        print("flushed; p.name in the database:", val)
        if val is not None:
            problems.append("the deletion was not persisted: name is still %r" % val)
    except KeyError as ex:
        print("flush raised KeyError(%s)" % ex)
        problems.append("Session.flush() raises KeyError(%s) for an attribute whose history is deleted=['x']" % ex)
        s.rollback()

print("--- observation 2 (not counted): del of a loaded collection, after an explicit removal")
with Session(e) as s:
    p = s.get(P, 1)
    c1 = list(p.cs)[0]
    p.cs.remove(c1)
    print("history after remove:", [c.id for c in inspect(p).attrs.cs.history.deleted], "deleted")
    del p.cs
    print("history after del   :", inspect(p).attrs.cs.history, "| committed_state keys:", list(inspect(p).committed_state))
    s.commit()
    print("rows after commit   :", s.connection().exec_driver_sql("select id, pid from c order by id").all())

if problems:
    print("REPRODUCED (C36-R8):")
    for x in problems:
        print("  -", x)
    sys.exit(1)
print("not reproduced")
