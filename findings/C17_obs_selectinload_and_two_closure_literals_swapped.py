"""NOT a seeded change: behaviour observed on the UNCHANGED library while
preparing the C17 seeds.  A lambda_stmt whose lambda embeds a loader option
with and_() criteria using TWO closure literals gets the two bound values
swapped on the second (compiled-cache-hit) invocation, because the lambda's
tracked binds are ordered by co_freevars (alphabetical: mq, st) while the
cached statement's binds are in statement order (st, mq) and
CacheKey._apply_params_to_element() zips them positionally.
Prints MISMATCH lines on the clean checkout.

str2-z2 (triage, 2026-09-23): GENUINE, reproduced on unchanged /repo.  Mechanism
confirmed by printing both keys inside CacheKey._apply_params_to_element():
  orig_query = context.compile_state.select_statement  (resolved Select)
      -> bindparams [st, mq]            (statement order, ALL parameters)
  current    = context.query  (StatementLambdaElement)
      -> bindparams [mq, st]            (LambdaElement._gen_cache_key extends
         with self._resolved_bindparams: tracked closure parameters only, in
         tracker order = co_freevars order)
  _OverrideBinds zips the two lists -> {st.key: mq value, mq.key: st value}.
Wider than "two closure values out of alphabetical order": ONE closure value
after a literal written inside the lambda (`Line.qty >= 0, Line.status == st`)
pairs the literal's key with st's value and never applies st (second part of
this script); lazyload() is affected like selectinload(); joinedload() is not
(criteria are part of the statement).  Second site with the same pairing:
Load._adjust_for_extra_criteria (context.user_passed_query vs
compile_state.select_statement).
Rule: C17-R7, keys
  orm/strategy_options.py::_AttributeStrategyLoad._generate_extra_criteria:cache-key-parameters-paired-by-position:same-kind-of-key
  orm/strategy_options.py::Load._adjust_for_extra_criteria:cache-key-parameters-paired-by-position:same-kind-of-key
Fix (closure parameters of a lambda keep the keys of the cached ones ->
pair by key when the executed statement is a lambda):
findings/C17_loader_criteria_lambda_params_by_key.fix.diff ; with it this
script prints only "ok" and test/orm/test_lambdas.py test_relationship_criteria
test/sql/test_lambdas.py test/orm/test_cache_key.py test_selectin_relations
test_subquery_relations test_eager_relations test_lazy_relations
test/ext/test_baked.py -> 726 passed, 1 skipped.
Exit status: 1 when a MISMATCH was printed.
"""
from sqlalchemy import create_engine, ForeignKey, Integer, String
from sqlalchemy import lambda_stmt, select
from sqlalchemy.orm import DeclarativeBase, Mapped, mapped_column
from sqlalchemy.orm import relationship, selectinload, Session


class Base(DeclarativeBase):
    pass


class Order(Base):
    __tablename__ = "orders"
    id: Mapped[int] = mapped_column(Integer, primary_key=True)
    lines = relationship("Line", order_by="Line.id")


class Line(Base):
    __tablename__ = "line"
    id: Mapped[int] = mapped_column(Integer, primary_key=True)
    order_id: Mapped[int] = mapped_column(ForeignKey("orders.id"))
    status: Mapped[str] = mapped_column(String(10))
    qty: Mapped[int] = mapped_column(Integer)


engine = create_engine("sqlite://")
Base.metadata.create_all(engine)
with Session(engine) as s:
    s.add(Order(id=1))
    s.add_all(
        [
            Line(id=1, order_id=1, status="open", qty=1),
            Line(id=2, order_id=1, status="open", qty=20),
            Line(id=3, order_id=1, status="void", qty=30),
        ]
    )
    s.commit()


def plain(st, mq):
    return select(Order).options(
        selectinload(Order.lines.and_(Line.status == st, Line.qty >= mq))
    )


def lam(st, mq):
    return lambda_stmt(
        lambda: select(Order).options(
            selectinload(Order.lines.and_(Line.status == st, Line.qty >= mq))
        )
    )


def snap(stmt):
    with Session(engine) as s:
        return [(o.id, [ln.id for ln in o.lines]) for o in s.scalars(stmt)]


for st, mq in [("open", 0), ("open", 10), ("void", 0)]:
    e, g = snap(plain(st, mq)), snap(lam(st, mq))
    print(st, mq, "ok" if e == g else "MISMATCH lambda=%r direct=%r" % (g, e))


# ---- str2-z2: wider variants -------------------------------------------------
from sqlalchemy.orm import lazyload, joinedload  # noqa: E402

_bad = 0


def _cmp(name, plain_, lam_, seq):
    global _bad
    for args in seq:
        e = snap(plain_(*args))
        g = snap(lam_(*args))
        if e != g:
            _bad += 1
        print(name, args, "ok" if e == g else "MISMATCH lambda=%r direct=%r" % (g, e))


def snap(stmt):  # noqa: F811  (unique() for joinedload)
    with Session(engine) as s:
        return [
            (o.id, [ln.id for ln in o.lines]) for o in s.scalars(stmt).unique()
        ]


_cmp(
    "one closure value after an inline literal, selectinload",
    lambda st: select(Order).options(
        selectinload(Order.lines.and_(Line.qty >= 0, Line.status == st))
    ),
    lambda st: lambda_stmt(
        lambda: select(Order).options(
            selectinload(Order.lines.and_(Line.qty >= 0, Line.status == st))
        )
    ),
    [("open",), ("void",), ("open",)],
)
_cmp(
    "two closure values, lazyload",
    lambda st, mq: select(Order).options(
        lazyload(Order.lines.and_(Line.status == st, Line.qty >= mq))
    ),
    lambda st, mq: lambda_stmt(
        lambda: select(Order).options(
            lazyload(Order.lines.and_(Line.status == st, Line.qty >= mq))
        )
    ),
    [("open", 0), ("open", 10), ("void", 0)],
)
_cmp(
    "control: closure names in statement order (a, b), selectinload",
    lambda a, b: select(Order).options(
        selectinload(Order.lines.and_(Line.status == a, Line.qty >= b))
    ),
    lambda a, b: lambda_stmt(
        lambda: select(Order).options(
            selectinload(Order.lines.and_(Line.status == a, Line.qty >= b))
        )
    ),
    [("open", 0), ("open", 10), ("void", 0)],
)
_cmp(
    "control: joinedload",
    lambda st, mq: select(Order).options(
        joinedload(Order.lines.and_(Line.status == st, Line.qty >= mq))
    ),
    lambda st, mq: lambda_stmt(
        lambda: select(Order).options(
            joinedload(Order.lines.and_(Line.status == st, Line.qty >= mq))
        )
    ),
    [("open", 0), ("open", 10), ("void", 0)],
)
import sys  # noqa: E402

sys.exit(1 if _bad else 0)
