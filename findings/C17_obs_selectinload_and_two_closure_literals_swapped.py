"""NOT a seeded change: behaviour observed on the UNCHANGED library while
preparing the C17 seeds.  A lambda_stmt whose lambda embeds a loader option
with and_() criteria using TWO closure literals gets the two bound values
swapped on the second (compiled-cache-hit) invocation, because the lambda's
tracked binds are ordered by co_freevars (alphabetical: mq, st) while the
cached statement's binds are in statement order (st, mq) and
CacheKey._apply_params_to_element() zips them positionally.
Prints MISMATCH lines on the clean checkout.
"""
from sqlalchemy import create_engine, ForeignKey, Integer, String
from sqlalchemy import lambda_stmt, select
from sqlalchemy.orm import DeclarativeBase, Mapped, mapped_column
from sqlalchemy.orm import relationship, selectinload, Session


class Base(DeclarativeBase):
    pass


class Order(Base):
    __tablename__ = "orders"
    id: Mapped[int] = mapped_column(Integer, primary_key=True)
    lines = relationship("Line", order_by="Line.id")


class Line(Base):
    __tablename__ = "line"
    id: Mapped[int] = mapped_column(Integer, primary_key=True)
    order_id: Mapped[int] = mapped_column(ForeignKey("orders.id"))
    status: Mapped[str] = mapped_column(String(10))
    qty: Mapped[int] = mapped_column(Integer)


engine = create_engine("sqlite://")
Base.metadata.create_all(engine)
with Session(engine) as s:
    s.add(Order(id=1))
    s.add_all(
        [
            Line(id=1, order_id=1, status="open", qty=1),
            Line(id=2, order_id=1, status="open", qty=20),
            Line(id=3, order_id=1, status="void", qty=30),
        ]
    )
    s.commit()


def plain(st, mq):
    return select(Order).options(
        selectinload(Order.lines.and_(Line.status == st, Line.qty >= mq))
    )


def lam(st, mq):
    return lambda_stmt(
        lambda: select(Order).options(
            selectinload(Order.lines.and_(Line.status == st, Line.qty >= mq))
        )
    )


def snap(stmt):
    with Session(engine) as s:
        return [(o.id, [ln.id for ln in o.lines]) for o in s.scalars(stmt)]


for st, mq in [("open", 0), ("open", 10), ("void", 0)]:
    e, g = snap(plain(st, mq)), snap(lam(st, mq))
    print(st, mq, "ok" if e == g else "MISMATCH lambda=%r direct=%r" % (g, e))
