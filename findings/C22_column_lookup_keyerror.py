"""C22-R4  dialects/mssql/base.py::MSDDLCompiler.visit_create_index:index.table.c[]
           dialects/postgresql/base.py::PGDDLCompiler._define_include:obj.table.c[]
           sql/crud.py::_scan_insert_from_select_cols:stmt.table.c[]

Three compile-time sites look a user-supplied column name up with `<table>.c[name]` without a membership test
or a KeyError guard.  The constructors accept the names (Index(..., mssql_include=[...]),
Index / UniqueConstraint(..., postgresql_include=[...]), Insert.from_select([...], select)) and compile()
then fails with a bare KeyError instead of CompileError / ArgumentError.  (The two sibling sites
crud._scan_cols and MySQLCompiler.visit_on_duplicate_key_update filter with `key in table.c` first.)

Run:  cd /tmp && /venv/bin/python /verif/findings/C22_column_lookup_keyerror.py
"""
import sqlalchemy
from sqlalchemy import Column, Index, Integer, MetaData, Table, UniqueConstraint, column, insert, select
from sqlalchemy.dialects import mssql, postgresql
from sqlalchemy.schema import CreateIndex, CreateTable


def table():
    return Table("t", MetaData(), Column("id", Integer, primary_key=True), Column("x", Integer), Column("y", Integer))


def mssql_include(names):
    t = table()
    return CreateIndex(Index("ix", t.c.x, mssql_include=names)).compile(dialect=mssql.dialect())


def pg_index_include(names):
    t = table()
    return CreateIndex(Index("ix", t.c.x, postgresql_include=names)).compile(dialect=postgresql.dialect())


def pg_unique_include(names):
    t = Table("t", MetaData(), Column("id", Integer, primary_key=True), Column("x", Integer), Column("y", Integer),
              UniqueConstraint("x", name="uq", postgresql_include=names))
    return CreateTable(t).compile(dialect=postgresql.dialect())


def from_select(names):
    t = table()
    return insert(t).from_select(names, select(t.c.x)).compile()


cases = [
    ("control: mssql_include=['y']", lambda: mssql_include(["y"])),
    ("mssql_include=['bogus']", lambda: mssql_include(["bogus"])),
    ("control: Index postgresql_include=['y']", lambda: pg_index_include(["y"])),
    ("Index postgresql_include=['bogus']", lambda: pg_index_include(["bogus"])),
    ("UniqueConstraint postgresql_include=['bogus']", lambda: pg_unique_include(["bogus"])),
    ("control: insert().from_select(['y'], ...)", lambda: from_select(["y"])),
    ("insert().from_select(['bogus'], ...)", lambda: from_select(["bogus"])),
    ("insert().from_select([column('bogus')], ...)", lambda: from_select([column("bogus")])),
]
bad = 0
for text, mk in cases:
    try:
        res = "compiled: " + " ".join(str(mk()).split())[:70]
    except sqlalchemy.exc.SQLAlchemyError as e:
        res = f"documented error {type(e).__name__}"
    except Exception as e:  # noqa
        bad += 1
        res = f"{type(e).__module__}.{type(e).__name__}: {str(e)[:60]}   <-- internal error"
    print(f"{text:48} -> {res}")
print("DEFECT REPRODUCED" if bad else "not reproduced")
