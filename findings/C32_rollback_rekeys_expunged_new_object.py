"""C32-R5  orm/session.py::SessionTransaction._restore_snapshot:new-objects-stay-transient

_restore_snapshot() first expunges the objects added in the transaction to *transient* (`_expunge_states(to_expunge,
to_transient=True)`, which removes their identity key), then walks `self._key_switches` and executes `s.key = oldkey`
for EVERY state -- only the `identity_map.replace(s)` that follows is restricted to `s not in to_expunge`.
An object that was added + flushed in the transaction and whose primary key was then changed + flushed is in both
`_new` and `_key_switches`; after Session.rollback() it is therefore *detached* carrying the identity key of a row that
never existed outside the rolled-back transaction, instead of transient as the property (and the documentation of
rollback) says.  A following Session.add() treats it as a persistent row and emits UPDATE -> StaleDataError.

Proposed minimal fix (verified in a scratch worktree; test/orm/test_transaction.py, test_naturalpks.py etc. pass):

     for s, (oldkey, newkey) in self._key_switches.items():
         self.session.identity_map.safe_discard(s)
-        # restore the old key
-        s.key = oldkey
-
-        # now restore the object, but only if we didn't expunge
         if s not in to_expunge:
+            s.key = oldkey
             self.session.identity_map.replace(s)

Run:  cd /tmp && /venv/bin/python /verif/findings/C32_rollback_rekeys_expunged_new_object.py
"""
from sqlalchemy import Column, Integer, String, create_engine, inspect, text
from sqlalchemy.orm import Session, declarative_base

Base = declarative_base()


class T(Base):
    __tablename__ = "t"
    id = Column(Integer, primary_key=True, autoincrement=False)
    name = Column(String)


def state_of(o):
    i = inspect(o)
    for n in ("transient", "pending", "persistent", "deleted", "detached"):
        if getattr(i, n):
            return n


e = create_engine("sqlite://")
Base.metadata.create_all(e)

# reference: added + flushed, no key switch
s = Session(e)
ref = T(id=1, name="a")
s.add(ref)
s.flush()
s.rollback()
print("added, flushed, rollback                      ->", state_of(ref), inspect(ref).key)

s = Session(e)
o = T(id=1, name="a")
s.add(o)
s.flush()
o.id = 2
s.flush()
s.rollback()
with e.connect() as c:
    rows = c.execute(text("select id from t")).all()
print("added, flushed, pk 1->2, flushed, rollback    ->", state_of(o), inspect(o).key, "| table rows:", rows)
bad = state_of(ref) == "transient" and state_of(o) != "transient" and inspect(o).key is not None and rows == []

# consequence: redoing the work in a new transaction fails
s.add(o)
o.name = "b"
try:
    s.commit()
    print("re-add + commit: ok")
except Exception as ex:  # StaleDataError: UPDATE of a row that does not exist
    print("re-add + commit:", type(ex).__name__, str(ex).splitlines()[0][:110])
    s.rollback()
print()
print("DEFECT REPRODUCED" if bad else "not reproduced")
