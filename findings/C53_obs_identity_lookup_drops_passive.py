"""Observation made while splitting C53 (NOT a C53 rule finding; no rule is attached -- it does not affect which shard
is used, so it is not a necessary condition of C53).

ShardedSession._identity_lookup(self, mapper, primary_key_identity, identity_token=None, passive=PASSIVE_OFF, ...)
accepts `passive` but never forwards it to super()._identity_lookup(...) (neither in the known-token branch nor in
the identity_chooser loop), so the base implementation always runs with its default PASSIVE_OFF.
LazyLoader._load_for_state() calls session._identity_lookup(..., passive=passive): with a plain Session a no-fetch
access (PASSIVE_NO_FETCH, used by history / backref bookkeeping and during flush) that finds the related object
expired in the identity map returns PASSIVE_NO_RESULT without SQL; with a ShardedSession the same access refreshes
the expired object with a SELECT and returns it.

Minimal fix: pass `passive=passive` in both super()._identity_lookup(...) calls of ShardedSession._identity_lookup.

    cd /tmp && /venv/bin/python /verif/findings/C53_obs_identity_lookup_drops_passive.py
Exit status 1 = reproduced.
"""
import sys

from sqlalchemy import Column, ForeignKey, Integer, create_engine, event
from sqlalchemy.ext.horizontal_shard import ShardedSession
from sqlalchemy.orm import Session, attributes, declarative_base, relationship
from sqlalchemy.orm.base import PASSIVE_NO_FETCH, PASSIVE_NO_RESULT

Base = declarative_base()


class B(Base):
    __tablename__ = "b"
    id = Column(Integer, primary_key=True)


class A(Base):
    __tablename__ = "a"
    id = Column(Integer, primary_key=True)
    b_id = Column(ForeignKey("b.id"))
    b = relationship(B)


e = create_engine("sqlite://")
Base.metadata.create_all(e)


def run(make):
    s = make()
    s.query(A).delete()
    s.query(B).delete()
    s.commit()
    s.add(A(id=1, b=B(id=1)))
    s.commit()
    a = s.query(A).one()
    b = s.query(B).one()
    s.expire(b)
    a.__dict__.pop("b", None)
    stmts = []

    def go(conn, cur, stmt, *a_):
        stmts.append(stmt)
    event.listen(e, "before_cursor_execute", go)
    st = attributes.instance_state(a)
    r = st.get_impl("b").get(st, attributes.instance_dict(a), passive=PASSIVE_NO_FETCH)
    event.remove(e, "before_cursor_execute", go)
    print(f"{type(s).__name__:<15} no-fetch access -> {r!r}; SQL statements emitted: {len(stmts)}")
    s.close()
    return r, len(stmts)


plain = run(lambda: Session(e))
sharded = run(lambda: ShardedSession(
    shard_chooser=lambda mapper, instance, clause=None: "x",
    identity_chooser=lambda *a, **k: ["x"],
    execute_chooser=lambda ctx: ["x"],
    shards={"x": e},
))
if plain[0] is PASSIVE_NO_RESULT and plain[1] == 0 and (sharded[0] is not PASSIVE_NO_RESULT or sharded[1]):
    print("REPRODUCED: the sharded session ignores the caller's passive flag (SQL emitted on a no-fetch access)")
    sys.exit(1)
print("not reproduced")
