r"""C40-R3 finding (genuine): immediateload(A.bs.and_(<criteria>)) ignores the criteria.

lazyload / joinedload / subqueryload / selectinload all apply the additional criteria that
PropComparator.and_() attaches to a relationship loader option.  _ImmediateLoader loads through the lazy
loader (`self.parent_property._get_strategy((("lazy", "select"),))._load_for_state(...)`) but calls it without
`loadopt=` / `extra_criteria=`, the two parameters through which _LazyLoader receives the option (compare
_LoadLazyAttribute.__call__, which passes both).  The collection is therefore loaded unfiltered: the same
query returns different related objects depending on the loader strategy.

Run:  cd /tmp && /venv/bin/python /verif/findings/C40_immediateload_drops_option_criteria.py   (exit 1 = defect shown)

Minimal fix (verified on a scratch copy: this script exits 0, `SQLASTATIC_ROOT=<copy> ./check C40` exits 0,
test/orm/test_immediate_load.py test_relationship_criteria.py test_recursive_loaders.py test_lazy_relations.py
test_eager_relations.py test_selectin_relations.py pass):

--- a/lib/sqlalchemy/orm/strategies.py
+++ b/lib/sqlalchemy/orm/strategies.py
@@ class _ImmediateLoader(_PostLoader):  def _load_for_path(
         key = self.key
         lazyloader = self.parent_property._get_strategy((("lazy", "select"),))
+        if loadopt and loadopt._extra_criteria:
+            extra_criteria = loadopt._generate_extra_criteria(context)
+        else:
+            extra_criteria = ()
         for state, overwrite in states:
             dict_ = state.dict
 
             if overwrite or key not in dict_:
                 value = lazyloader._load_for_state(
                     state,
                     flags,
+                    loadopt=loadopt,
+                    extra_criteria=extra_criteria,
                     extra_options=extra_options,
"""
import sys

from sqlalchemy import Column, ForeignKey, Integer, create_engine, select
from sqlalchemy.orm import (Session, declarative_base, immediateload, joinedload, lazyload, relationship,
                            selectinload, subqueryload)

Base = declarative_base()


class A(Base):
    __tablename__ = "a"
    id = Column(Integer, primary_key=True)
    bs = relationship("B", order_by="B.x")


class B(Base):
    __tablename__ = "b"
    id = Column(Integer, primary_key=True)
    a_id = Column(ForeignKey("a.id"))
    x = Column(Integer)


engine = create_engine("sqlite://")
Base.metadata.create_all(engine)
with Session(engine) as s:
    s.add(A(id=1, bs=[B(id=i, x=i) for i in range(1, 8)]))
    s.commit()

results = {}
for name, opt in [("lazyload", lazyload), ("joinedload", joinedload), ("subqueryload", subqueryload),
                  ("selectinload", selectinload), ("immediateload", immediateload)]:
    with Session(engine) as s:
        a = s.execute(select(A).options(opt(A.bs.and_(B.x > 5)))).unique().scalars().one()
        results[name] = [b.x for b in a.bs]
        print(f"{name:14} A.bs.and_(B.x > 5) -> {results[name]}")

if len({tuple(v) for v in results.values()}) != 1:
    print("\nDEFECT: the loaded collection depends on the loader strategy")
    sys.exit(1)
print("\nno difference observed")
