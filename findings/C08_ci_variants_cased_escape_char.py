"""C08-R5 finding (unchanged tree): icontains / istartswith / iendswith with a *letter* as escape character.

The generic rendering of the case-insensitive variants is  lower(x) LIKE lower(<pattern>) ESCAPE '<e>'.
lower() is applied to the pattern *after* autoescape put the escape character into it, while the ESCAPE clause
keeps the original character:

* escape="X":  operand "a_b" -> pattern "aX_b" -> lower() -> "ax_b" ESCAPE 'X': "x" is an ordinary character and
  "_" is a wildcard again;
* escape="x":  operand "X" -> pattern "X" (nothing to escape) -> lower() -> "x" ESCAPE 'x': a dangling escape.

Observed on SQLite (ILIKE is rendered through lower() there, as on every dialect without native ILIKE).
Reported by the round-2 seed agent of C08; reproduced here against the Python reference
(lower-cased substring / prefix / suffix test).

Run:  cd /tmp && /venv/bin/python /verif/findings/C08_ci_variants_cased_escape_char.py     (exit 1 = reproduced)
"""
import sys

from sqlalchemy import Column, Integer, MetaData, String, Table, create_engine, select

e = create_engine("sqlite://")
m = MetaData()
t = Table("t", m, Column("id", Integer, primary_key=True), Column("s", String))
m.create_all(e)
rows = ["a_b", "A_B", "aXb", "axb", "a_bX", "zzA_bzz", "aXX_b", "ax_b", "aX_b", "a%", "A%z"]
with e.begin() as c:
    c.execute(t.insert(), [{"s": r} for r in rows])


def reference(op, operand, s):
    s2, o2 = s.lower(), operand.lower()
    return {"icontains": o2 in s2, "istartswith": s2.startswith(o2), "iendswith": s2.endswith(o2)}[op]


bad = {}
shown = 0
with e.connect() as c:
    for esc in ("/", "^", "X", "x", "Z"):
        for op in ("icontains", "istartswith", "iendswith"):
            for operand in ("a_b", "X", "aX", "a%", "x_"):
                expr = getattr(t.c.s, op)(operand, escape=esc, autoescape=True)
                q = select(t.c.s).where(expr)
                try:
                    got = sorted(r[0] for r in c.execute(q))
                except Exception as ex:  # pragma: no cover
                    got = f"{type(ex).__name__}"
                want = sorted(r for r in rows if reference(op, operand, r))
                if got != want:
                    bad[esc] = bad.get(esc, 0) + 1
                    if shown < 4:
                        shown += 1
                        print(f"{op}({operand!r}, escape={esc!r}, autoescape=True): rows {got}, expected {want}")
                        print("    ", str(q.compile(e, compile_kwargs={"literal_binds": True})).replace("\n", " "))
for esc in ("/", "^", "X", "x", "Z"):
    print(f"escape {esc!r}: {bad.get(esc, 0)} of 15 operator/operand combinations return the wrong rows")
if any(bad.get(k) for k in ("/", "^")):
    print("UNEXPECTED: non-letter escape characters are affected too")
if bad:
    print("DEFECT REPRODUCED")
    sys.exit(1)
print("not reproduced")
