"""C31-R5  orm/unitofwork.py::_DeleteState.execute_aggregate:_delete_obj:states-selected-on[listonly]

Row switch (delete object X, add a new object with X's primary key in the same flush) is implemented by
persistence._organize_states_for_save(): while saving the new object it finds the deleted one in the identity
map and calls uow.remove_state_actions(existing), which cancels the pending DELETE by setting the *listonly*
component of uow.states[existing] and keeping isdelete=True.

* aggregate mode:  _DeleteAll.execute -> states_for_mapper_hierarchy(mapper, True, False) compares both flags,
  the cancelled delete is skipped: only `UPDATE` is emitted.
* cycle (per-object) mode:  _DeleteState.execute_aggregate filters `uow.states[s][0]` (isdelete) only, so the
  cancelled delete is still emitted:  UPDATE node ... WHERE id=2 ; DELETE FROM node WHERE id=2
  - without FK enforcement the replacement row is silently lost;
  - with immediate FK checks the DELETE fails (IntegrityError) when another row references the replacement,
    although the final object graph satisfies every constraint  (C31: "flush succeeds ... never emits a statement
    that references a row ... already deleted").

Minimal fix (verified: both scenarios below pass, 2435 tests of test/orm cycles/unitofwork/cascade/relationships/
inheritance/session/versioning pass):

    -            mapper, [s for s in states if uow.states[s][0]], uow
    +            mapper, [s for s in states if uow.states[s] == (True, False)], uow

Run:  cd /tmp && /venv/bin/python /verif/findings/C31_cycle_mode_row_switch_deletes_row.py     (exit 1 = defect present)
"""
from sqlalchemy import Column, ForeignKey, Integer, String, create_engine, event, select
from sqlalchemy.orm import Session, declarative_base, relationship

Base = declarative_base()


class Node(Base):  # self-referential: the flush runs in per-object (cycle) mode
    __tablename__ = "node"
    id = Column(Integer, primary_key=True)
    parent_id = Column(ForeignKey("node.id"))
    data = Column(String)
    children = relationship("Node")


class Parent(Base):  # two mappers, no cycle: aggregate mode (control)
    __tablename__ = "parent"
    id = Column(Integer, primary_key=True)
    data = Column(String)
    children = relationship("Child")


class Child(Base):
    __tablename__ = "child"
    id = Column(Integer, primary_key=True)
    parent_id = Column(ForeignKey("parent.id"))


def engine(fk):
    e = create_engine("sqlite://")
    if fk:
        @event.listens_for(e, "connect")
        def _fk(dbapi_con, rec):
            dbapi_con.execute("PRAGMA foreign_keys=ON")
    Base.metadata.create_all(e)
    log = []

    @event.listens_for(e, "before_cursor_execute")
    def _log(conn, cur, stmt, params, ctx, many):
        if not stmt.lstrip().upper().startswith(("SELECT", "PRAGMA")):
            log.append(stmt.replace("\n", " ") + " " + repr(params))
    return e, log


failures = []


def report(title, ok, log, extra=""):
    print(f"{'ok  ' if ok else 'FAIL'} {title} {extra}")
    for l in log:
        print("        ", l)
    if not ok:
        failures.append(title)


# 1. cycle mode, no FK enforcement: the replacement row is lost
e, log = engine(False)
with Session(e) as s:
    n1 = Node(id=1, data="n1")
    n1.children.append(Node(id=2, data="old"))
    s.add(n1)
    s.commit()
    n1, n2 = s.get(Node, 1), s.get(Node, 2)
    n1.children
    del log[:]
    s.delete(n2)
    n1.children.append(Node(id=2, data="replacement"))
    s.commit()
    rows = [tuple(r) for r in s.execute(select(Node.id, Node.data).order_by(Node.id))]
report("cycle mode: delete + re-add same primary key keeps the row", (2, "replacement") in rows, log, f"rows={rows}")

# 2. cycle mode, immediate FK checks: flush fails although the final graph is consistent
e, log = engine(True)
with Session(e) as s:
    n1, n2, n3 = Node(id=1, data="n1"), Node(id=2, data="old"), Node(id=3, data="n3")
    n1.children.append(n2)
    n2.children.append(n3)
    s.add(n1)
    s.commit()
    n1, n2, n3 = s.get(Node, 1), s.get(Node, 2), s.get(Node, 3)
    n1.children, n2.children
    del log[:]
    s.delete(n2)
    repl = Node(id=2, data="replacement")
    n2.children.remove(n3)
    repl.children.append(n3)   # n3 keeps parent_id == 2
    n1.children.append(repl)
    try:
        s.commit()
        err = None
    except Exception as ex:  # noqa
        err = f"{type(ex).__name__}: {str(ex).splitlines()[0]}"
report("cycle mode + FK enforcement: flush succeeds", err is None, log, err or "")

# 3. control: the same operation in aggregate mode
e, log = engine(True)
with Session(e) as s:
    p = Parent(id=2, data="old")
    p.children.append(Child(id=3))
    s.add(p)
    s.commit()
    p, c = s.get(Parent, 2), s.get(Child, 3)
    p.children
    del log[:]
    s.delete(p)
    repl = Parent(id=2, data="replacement")
    p.children.remove(c)
    repl.children.append(c)
    s.add(repl)
    try:
        s.commit()
        err = None
    except Exception as ex:  # noqa
        err = f"{type(ex).__name__}: {str(ex).splitlines()[0]}"
    rows = [tuple(r) for r in s.execute(select(Parent.id, Parent.data))]
report("aggregate mode (control): same operation", err is None and rows == [(2, "replacement")], log, err or f"rows={rows}")

print(f"{len(failures)} scenario(s) failed")
raise SystemExit(1 if failures else 0)
