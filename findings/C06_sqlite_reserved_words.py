"""C06-R2  dialects/sqlite/base.py::SQLiteIdentifierPreparer.reserved_words:{nothing,returning}

SQLite keywords that the SQLite library refuses as bare identifiers but that are missing from the SQLite
dialect's reserved word list: a Column named like that is emitted unquoted and the DDL/DML fails.

Run:  cd /tmp && /venv/bin/python /verif/findings/C06_sqlite_reserved_words.py
"""
import sqlite3

from sqlalchemy import Column, Integer, MetaData, Table, create_engine, insert, select

print("sqlite library", sqlite3.sqlite_version)
bad = 0
for word in ("nothing", "returning", "select"):  # "select" is the control: it is in the list and works
    e = create_engine("sqlite://")
    m = MetaData()
    t = Table("t", m, Column("id", Integer, primary_key=True), Column(word, Integer))
    try:
        with e.begin() as conn:
            m.create_all(conn)
            conn.execute(insert(t).values({"id": 1, word: 7}))
            got = conn.execute(select(t.c[word])).scalar()
        print(f"column {word!r}: ok ({got})")
    except Exception as ex:
        bad += 1
        print(f"column {word!r}: FAILS -> {type(ex).__name__}: {str(ex).splitlines()[0][:110]}")
print("DEFECT REPRODUCED" if bad else "not reproduced")
