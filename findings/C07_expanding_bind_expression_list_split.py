"""C07-R8 (also C05): the rendered IN list of an expanding parameter is re-parsed with `expr.split(", ")`.

sql/compiler.py::SQLCompiler._process_parameters_for_postcompile.process_expanding wraps the type's bind_expression
around each item of an already rendered list by splitting the text on ", ".  An item that contains ", " is cut in two:

 (1) literal_execute + a string value "a, b": `IN (lower('a), lower(b'), lower('c'))` -- still valid SQL (the string
     literal now is 'a), lower(b'), other rows than the bound form / the OR-of-equalities;
 (2) bound form on a dialect that renders bind casts (asyncpg / pg8000): the item `$1::NUMERIC(10, 2)` is cut at the
     comma of the cast target: `round($1::NUMERIC(10), round(2))` -- valid SQL, the value is cast to scale 0 first;
 (3) EMPTY list: the empty-set text `NULL) AND (1 != 1` is wrapped as one "item": `x IN (lower(NULL) AND (1 != 1))`
     (default/PostgreSQL/MySQL form: compares x with a boolean; MySQL: 'a' IN (0) is true) and on SQLite
     `x IN (lower(SELECT 1 FROM (SELECT 1) WHERE 1!=1))` is a syntax error: `col.in_([])` cannot be executed at all
     for a column whose type has a bind_expression.

Run: cd /tmp && /venv/bin/python /verif/findings/C07_expanding_bind_expression_list_split.py   (exit 1 = defect present)
"""
from sqlalchemy import (Column, Integer, MetaData, Numeric, String, Table, bindparam, create_engine, func, or_, select)
from sqlalchemy.dialects import postgresql
from sqlalchemy.types import TypeDecorator


class Lower(TypeDecorator):
    impl = String
    cache_ok = True

    def bind_expression(self, bindvalue):
        return func.lower(bindvalue)


class Rounded(TypeDecorator):
    impl = Numeric(10, 2)
    cache_ok = True

    def bind_expression(self, bindvalue):
        return func.round(bindvalue)


bad = []
m = MetaData()
t = Table("t", m, Column("id", Integer, primary_key=True), Column("x", Lower))
e = create_engine("sqlite://")
m.create_all(e)
vals = ["a, b", "c"]
with e.begin() as c:
    c.execute(t.insert(), [{"id": 1, "x": "a, b"}, {"id": 2, "x": "c"}, {"id": 3, "x": "a"}])
    oracle = c.execute(select(t.c.id).where(or_(*[t.c.x == v for v in vals])).order_by(t.c.id)).all()
    bound = c.execute(select(t.c.id).where(t.c.x.in_(vals)).order_by(t.c.id)).all()
    lit = select(t.c.id).where(
        t.c.x.in_(bindparam("v", vals, expanding=True, literal_execute=True, type_=Lower))).order_by(t.c.id)
    sql = str(lit.compile(e, compile_kwargs={"render_postcompile": True}))
    got = c.execute(lit).all()
    print("OR-of-equalities:", oracle, "| bound IN:", bound, "| literal_execute IN:", got)
    print("literal_execute SQL:", " ".join(sql.split()))
    if not (oracle == bound == got):
        bad.append("literal_execute rows %r != bound rows %r" % (got, bound))
    lb = str(select(t.c.id).where(t.c.x.in_(vals)).compile(e, compile_kwargs={"literal_binds": True}))
    print("literal_binds SQL  :", " ".join(lb.split()), "(compile-time path: correct, items come from the renderer)")

t2 = Table("t2", m, Column("id", Integer, primary_key=True), Column("n", Rounded))
stmt = select(t2.c.id).where(t2.c.n.in_([1, 2]))
pg = str(stmt.compile(dialect=postgresql.asyncpg.dialect(), compile_kwargs={"render_postcompile": True}))
print("asyncpg bound SQL  :", " ".join(pg.split()))
if "NUMERIC(10, 2)" not in pg:
    bad.append("bound list with a bind cast is cut at the comma of the cast target")

with e.begin() as c:
    for what, stmt, want in (("IN []", select(t.c.id).where(t.c.x.in_([])), []),
                             ("NOT IN []", select(t.c.id).where(t.c.x.not_in([])).order_by(t.c.id), [(1,), (2,), (3,)])):
        dflt = " ".join(str(stmt.compile(dialect=postgresql.dialect(), compile_kwargs={"render_postcompile": True})).split())
        print("empty list,", what, "(postgresql):", dflt)
        if "lower(NULL)" in dflt:
            bad.append("%s: the empty-set text is wrapped in the bind_expression: %s" % (what, dflt.split("WHERE")[1]))
        try:
            got = c.execute(stmt).all()
            if got != want:
                bad.append("%s on sqlite returned %r, expected %r" % (what, got, want))
        except Exception as ex:  # noqa
            print("empty list,", what, "(sqlite) raised:", str(ex).splitlines()[0], "|", str(ex).splitlines()[-2][:120])
            bad.append("%s on sqlite raises %s" % (what, type(ex).__name__))

if bad:
    print("DEFECT:", "; ".join(bad))
    raise SystemExit(1)
print("ok")
