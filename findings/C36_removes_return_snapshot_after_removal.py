"""C36-R6  orm/collections.py::_instrument_membership_mutator.wrapper:snapshot-before-mutation

A method of a custom (non list/set/dict) collection class that is announced with `@collection.removes_return()` is
wrapped by `_instrument_membership_mutator(method, before=None, argument=None, after="fire_remove_event")`.  The wrapper
calls the method first (the member is already gone) and only then `executor.fire_remove_event(res, initiator)`, which ends in
`InstanceState._modified_event(dict_, attr, NO_VALUE, collection=True)`: when this is the FIRST change of the collection since
it was loaded / flushed, `_modified_event` copies the *live, already mutated* collection into `committed_state`.  The
removed member is therefore part of neither the recorded original nor the current value: history reports
`deleted=()`, and the flush persists nothing for it (its foreign key is not set to NULL, a delete-orphan member is not
deleted, after expire the member is back in the collection).  The tailored list/set/dict `pop()` wrappers avoid exactly
this with `__before_pop()` (-> fire_pre_remove_event, whose only job is the capture); the generic wrapper has no such call.
An earlier mutation in the same flush interval (which captured already) masks it.

Same class as round-2 seed C36_1 (capture deferred until after `dict.pop`); found by the rule written for that seed.

Proposed minimal fix (verified in a scratch worktree: this script prints "not reproduced", ./check C36 no longer reports the key,
ORM test files listed in notes/str2-p.md pass):

         if not after or not executor:
             return method(*args, **kw)
         else:
+            executor.fire_pre_remove_event(initiator)
             res = method(*args, **kw)
             if res is not None:
                 getattr(executor, after)(res, initiator)

Run:  cd /tmp && /venv/bin/python /verif/findings/C36_removes_return_snapshot_after_removal.py
"""
import sys

from sqlalchemy import Column, ForeignKey, Integer, create_engine, inspect
from sqlalchemy.orm import Session, declarative_base, relationship
from sqlalchemy.orm.collections import collection

Base = declarative_base()


class Bag:
    """a collection that is not derived from a builtin: every role is declared explicitly"""

    def __init__(self):
        self._members = []

    @collection.appender
    def add_member(self, x):
        self._members.append(x)

    @collection.remover
    def drop(self, x):
        self._members.remove(x)

    @collection.iterator
    def __iter__(self):
        return iter(self._members)

    @collection.removes_return()
    def take(self):
        return self._members.pop()


class P(Base):
    __tablename__ = "p"
    id = Column(Integer, primary_key=True)
    cs = relationship("C", collection_class=Bag)


class C(Base):
    __tablename__ = "c"
    id = Column(Integer, primary_key=True)
    pid = Column(ForeignKey("p.id"))


e = create_engine("sqlite://")
Base.metadata.create_all(e)
with Session(e) as s:
    p = P(id=1)
    p.cs.add_member(C(id=1))
    p.cs.add_member(C(id=2))
    s.add(p)
    s.commit()

problems = []
with Session(e) as s:
    p = s.get(P, 1)
    [c.id for c in p.cs]                 # load the collection
    taken = p.cs.take()                  # first change since load, through the removes_return() method
    h = inspect(p).attrs.cs.history
    print("took C(%d); history: added=%s unchanged=%s deleted=%s" % (
        taken.id, [c.id for c in h.added], [c.id for c in h.unchanged], [c.id for c in h.deleted]))
    if [c.id for c in h.deleted] != [taken.id]:
        problems.append("history.deleted is %s, the committed collection held C(%d) and the current one does not" % (
            [c.id for c in h.deleted], taken.id))
    s.commit()
    rows = s.connection().exec_driver_sql("select id, pid from c order by id").all()
    print("rows after commit:", rows)
    if dict(rows)[taken.id] is not None:
        problems.append("the flush did not persist the removal: row c.id=%d still has pid=%s" % (taken.id, dict(rows)[taken.id]))
    s.expire_all()
    back = sorted(c.id for c in s.get(P, 1).cs)
    if taken.id in back:
        problems.append("after reload the removed member is back in the collection: %s" % back)

# control: the same removal through the @collection.remover role (event BEFORE the mutation) is recorded
with Session(e) as s:
    p = s.get(P, 1)
    members = list(p.cs)
    p.cs.drop(members[0])
    h = inspect(p).attrs.cs.history
    print("control (remover role): deleted=%s" % [c.id for c in h.deleted])
    assert [c.id for c in h.deleted] == [members[0].id]
    s.rollback()

if problems:
    print("REPRODUCED (C36-R6):")
    for x in problems:
        print("  -", x)
    sys.exit(1)
print("not reproduced")
