"""C23-R7 finding: Connection._begin_impl sets the private in-progress flag `__in_begin = True`
BEFORE `self.dispatch.begin(self)`, and the event dispatch sits outside the try/finally that
resets the flag.

If a "begin" event listener raises (the documented pysqlite recipe `conn.exec_driver_sql("BEGIN
IMMEDIATE")` hitting "database is locked", or any listener error), the exception leaves
_begin_impl with `__in_begin` still True.  `Connection._autobegin()` is gated on
`not self.__in_begin`, so from then on autobegin is a silent no-op on that Connection:

* statements run with in_transaction() == False,
* conn.commit() does nothing (there is no RootTransaction),
* begin_nested() fails with a bare AssertionError,
* the work is rolled back by the pool's reset-on-return: other connections never see rows which
  the nested-transaction model says were committed.

(`_begin_twophase_impl` is fine: it dispatches begin_twophase before setting the flag.)

Run:  cd /tmp && /venv/bin/python /verif/findings/C23_begin_event_raises_disables_autobegin.py
"""
import os
import sys
import tempfile

from sqlalchemy import create_engine, event, text

d = tempfile.mkdtemp(prefix="c23_")
eng = create_engine("sqlite:///" + os.path.join(d, "db.sqlite"))
with eng.begin() as c:
    c.execute(text("create table t (x integer)"))

fail = {"on": False}


@event.listens_for(eng, "begin")
def on_begin(conn):
    # stand-in for the pysqlite "BEGIN IMMEDIATE" recipe failing with `database is locked`
    if fail["on"]:
        raise RuntimeError("begin listener failed once (e.g. database is locked)")


problems = []
conn = eng.connect()
fail["on"] = True
try:
    conn.execute(text("insert into t values (0)"))
    problems.append("the raising listener did not propagate")
except RuntimeError as e:
    print("first statement:", e)
fail["on"] = False          # the transient fault is gone; the Connection itself is still open / valid
print("closed:", conn.closed, "invalidated:", conn.invalidated, "in_transaction:", conn.in_transaction())

conn.execute(text("insert into t values (1)"))
if not conn.in_transaction():
    problems.append("in_transaction() is False after a statement was executed (autobegin did not happen)")
try:
    sp = conn.begin_nested()
    sp.rollback()
except BaseException as e:  # AssertionError
    problems.append(f"begin_nested() raised {type(e).__name__}: {e}")
conn.commit()               # "commit as you go"
conn.close()

with eng.connect() as other:
    rows = other.execute(text("select x from t order by x")).fetchall()
if rows != [(1,)]:
    problems.append(f"independent connection sees {rows} after commit, model says [(1,)]")

import shutil
shutil.rmtree(d, ignore_errors=True)
if problems:
    print("DEFECT REPRODUCED:")
    for p in problems:
        print("  -", p)
    sys.exit(1)
print("not reproduced: autobegin still works after a failing begin listener")
