"""C06-R1  sql/compiler.py::IdentifierPreparer._unescape_identifier:inverse-of:IdentifierPreparer._escape_identifier

On a format/pyformat dialect (_double_percents is True) _escape_identifier doubles '%', but
_unescape_identifier only undoes the quote doubling.  unformat_identifiers() therefore does not recover
a name containing '%' from its formatted form (the property's "splitting a formatted dotted identifier
recovers the original components").

Run:  cd /tmp && /venv/bin/python /verif/findings/C06_unescape_identifier_percent.py
"""
from sqlalchemy.dialects.postgresql import psycopg2
from sqlalchemy.dialects.mysql import pymysql

bad = 0
for d in (psycopg2.dialect(), pymysql.dialect()):
    prep = d.identifier_preparer
    names = ["sch%ema", 'ta"b%le', "100%"]
    formatted = ".".join(prep.quote_identifier(n) for n in names)
    back = list(prep.unformat_identifiers(formatted))
    print(f"{d.name}+{d.driver}: paramstyle={d.paramstyle} _double_percents={prep._double_percents}")
    print("   names     :", names)
    print("   formatted :", formatted)
    print("   unformat  :", back, "" if back == names else "  <-- WRONG (percent signs stay doubled)")
    bad += back != names
print("DEFECT REPRODUCED" if bad else "not reproduced")
