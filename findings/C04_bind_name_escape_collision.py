"""C04-R2  sql/compiler.py::SQLCompiler.bindparam_string:escape-collision
           dialects/oracle/cx_oracle.py::OracleCompiler_cx_oracle.bindparam_string:escape-collision

Bind names containing characters of `bindname_escape_characters` are rewritten character by character into
word characters ('.', '[', ']', ' ' -> '_', '%' -> 'P', ...).  The rewritten name is never compared with the
names already used in the statement, so two different parameters (`a.b` and `a_b`; `a%b` and `aPb`) end up
with the same placeholder and the same entry in the parameter dictionary: one value is delivered twice and
the other is lost.  The property names exactly these inputs ("bind names that need escaping (dots,
brackets, percent, spaces)").

Run:  cd /tmp && /venv/bin/python /verif/findings/C04_bind_name_escape_collision.py
"""
from sqlalchemy import Integer, bindparam, column, create_engine, select
from sqlalchemy.dialects import postgresql
from sqlalchemy.dialects.oracle import oracledb

bad = 0
e = create_engine("sqlite://")  # qmark, positional
for n1, n2 in (("a.b", "a_b"), ("a%b", "aPb"), ("x y", "x_y")):
    stmt = select(bindparam(n1, type_=Integer), bindparam(n2, type_=Integer))
    with e.connect() as conn:
        row = conn.execute(stmt, {n1: 1, n2: 2}).one()
    flag = "" if tuple(row) == (1, 2) else "   <-- WRONG, expected (1, 2)"
    bad += tuple(row) != (1, 2)
    print(f"sqlite  select(bindparam({n1!r}), bindparam({n2!r})) with {{{n1!r}: 1, {n2!r}: 2}} -> {tuple(row)}{flag}")

stmt = select(bindparam("a.b", type_=Integer), bindparam("a_b", type_=Integer))
comp = stmt.compile(dialect=postgresql.dialect())  # pyformat, named
print("postgresql:", str(comp).replace("\n", " "), "| params:", comp.construct_params({"a.b": 1, "a_b": 2}))
bad += len(comp.construct_params({"a.b": 1, "a_b": 2})) != 2

stmt = select(column("x")).where(column("x").in_(bindparam("a.b", expanding=True)),
                                 column("y").in_(bindparam("aCb", expanding=True)))
comp = stmt.compile(dialect=oracledb.dialect())  # OracleCompiler_cx_oracle.bindparam_string
print("oracle    :", str(comp).replace("\n", " "), "| params:", comp.construct_params({"a.b": [1], "aCb": [2]}))
bad += len(comp.construct_params({"a.b": [1], "aCb": [2]})) != 2
print("DEFECT REPRODUCED" if bad else "not reproduced")
