"""C28-R5 finding: `util.mini_gil` is a real lock only on free-threaded builds; on a regular (GIL) build it
is `contextlib.nullcontext()` (util/compat.py).  The event system writes its lazy initialisations as
test-and-set sequences "under mini_gil":

    def _get_exec_once_mutex(self):
        with util.mini_gil:
            if self._exec_once_mutex is not None:
                return self._exec_once_mutex
            ...
            mutex = threading.Lock()
            self._exec_once_mutex = mutex
            return mutex

The GIL does not make this sequence atomic: it spans several bytecodes and calls, and the interpreter may
switch threads after any call.  Two threads that dispatch the first once-only event of one collection
concurrently can both find `_exec_once_mutex is None`, each creates its own mutex, each enters
`with <its own mutex>:` in `_exec_once_impl`, both see `not self._exec_once`, and both run the listeners:
a "first_connect" listener (dialect initialisation) runs twice, concurrently, for one pool.
The same holds for `_EmptyListener.for_modify` (see C28_for_modify_two_threads_install_two_collections.py)
even after its read is moved inside the `with`.

The schedule is forced with a per-thread trace function: a thread that is about to create the mutex (so it
has seen None) is held until the other one is about to create one too, or 2 s have passed -- with a real
lock the second thread cannot get there, the first one proceeds, and the script passes.  The listener
itself waits (<= 1 s) for a second concurrent invocation, which only exists when the exclusion failed.

Run:  cd /tmp && /venv/bin/python /verif/findings/C28_mini_gil_noop_two_exec_once_mutexes.py
Exit 0 / PASS when the listener ran once, 1 / FAIL otherwise.
"""
import linecache
import sys
import threading

from sqlalchemy import event, util
from sqlalchemy.event import attr
from sqlalchemy.pool import QueuePool


class FakeDBAPIConnection:
    def rollback(self):
        pass

    def close(self):
        pass


calls = []
two_inside = threading.Barrier(2, timeout=1)


def on_first_connect(dbapi_connection, record):
    calls.append(threading.current_thread().name)
    try:
        two_inside.wait()       # stay inside the "once" section long enough for a second thread to show up
    except threading.BrokenBarrierError:
        pass


pool = QueuePool(FakeDBAPIConnection, pool_size=5, reset_on_return=None)
# instance-level listener: pool.dispatch.first_connect is one _ListenerCollection shared by both threads
event.listen(pool, "first_connect", on_first_connect)
collection = pool.dispatch.first_connect
assert type(collection).__name__ == "_ListenerCollection"

target_code = attr._CompoundListener._get_exec_once_mutex.__code__
both_saw_none = threading.Barrier(2, timeout=2)
held = []
tl = threading.local()


def tracer(frame, ev, arg):
    if ev != "call" or frame.f_code is not target_code or frame.f_locals.get("self") is not collection:
        return None

    def local(frame, ev, arg):
        if ev == "line" and not getattr(tl, "done", False):
            src = linecache.getline(frame.f_code.co_filename, frame.f_lineno)
            if "Lock(" in src:          # about to create a mutex: this thread found `_exec_once_mutex is None`
                tl.done = True
                held.append(threading.current_thread().name)
                try:
                    both_saw_none.wait()
                except threading.BrokenBarrierError:
                    pass
        return local
    return local


errors = []


def worker():
    sys.settrace(tracer)
    try:
        c = pool.connect()
        c.close()
    except BaseException as e:  # noqa
        errors.append(repr(e))
    finally:
        sys.settrace(None)


ts = [threading.Thread(target=worker, name=f"T{i + 1}") for i in range(2)]
for t in ts:
    t.start()
for t in ts:
    t.join(30)

print("util.mini_gil is", type(util.mini_gil).__name__)
print("threads that found no mutex and were about to create one:", held)
print("first_connect listener calls:", calls)
if errors:
    print("FAIL: worker raised", errors)
    sys.exit(1)
if len(calls) != 1:
    print(f"FAIL: the once-only first_connect listener ran {len(calls)} times for one pool "
          "(each thread created and took its own exec-once mutex)")
    sys.exit(1)
print("PASS")
