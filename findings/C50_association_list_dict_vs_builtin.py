"""C50-R5 reproduction (keys `ext/associationproxy.py::_AssociationList.__setitem__:list-model`,
`..._AssociationList.__imul__:list-model`, `..._AssociationDict.pop:dict-model`).

Run:  cd /tmp && /venv/bin/python /verif/findings/C50_association_list_dict_vs_builtin.py

The list / dict association proxies are documented to behave like the list / dict of proxied values.  Three mutators do not:

* `_AssociationList.__setitem__(slice, values)`: its own index arithmetic (`start = index.start or 0`, `stop = index.stop`
  unclamped, `rng = range(start, stop, step)`, `del self[start]` once per element of rng) is right only for
  0 <= start <= stop <= len: a NEGATIVE start (`p[-1:] = [9]`), a stop beyond the end (`p[:5] = [9]`, `p[0:1] = []` on an
  empty proxy) or start > len deletes the wrong members and/or raises IndexError half-way (members already deleted stay
  deleted); extended slices with a negative step compare lengths against the wrong range.
* `_AssociationList.__imul__(n)` for n < 0 leaves the list unchanged (the builtin empties it).
* `_AssociationDict.pop(key, default)` for a MISSING key hands the default to the getter (`self._get(default)`):
  AttributeError instead of returning the default (only a default of None survives, the default getter lets None through).
"""
from sqlalchemy import Column, ForeignKey, Integer, String, create_engine
from sqlalchemy.ext.associationproxy import association_proxy
from sqlalchemy.orm import Session, declarative_base, relationship
from sqlalchemy.orm.collections import attribute_keyed_dict

Base = declarative_base()


class Parent(Base):
    __tablename__ = "parent"
    id = Column(Integer, primary_key=True)
    kids = relationship("Kid", order_by="Kid.id", cascade="all, delete-orphan")
    names = association_proxy("kids", "name")
    notes_by_key = relationship("Note", collection_class=attribute_keyed_dict("key"), cascade="all, delete-orphan")
    notes = association_proxy("notes_by_key", "text", creator=lambda k, v: Note(key=k, text=v))


class Kid(Base):
    __tablename__ = "kid"
    id = Column(Integer, primary_key=True)
    parent_id = Column(ForeignKey("parent.id"))
    name = Column(Integer)

    def __init__(self, name):
        self.name = name


class Note(Base):
    __tablename__ = "note"
    id = Column(Integer, primary_key=True)
    parent_id = Column(ForeignKey("parent.id"))
    key = Column(String)
    text = Column(Integer)


bad = 0


def outcome(f):
    try:
        return ("returns", f())
    except Exception as ex:
        return ("raises", type(ex).__name__)


def check_list(initial, label, op):
    global bad
    p = Parent()
    p.names.extend(initial)
    ref = list(initial)
    a = outcome(lambda: op(p.names))
    b = outcome(lambda: op(ref))
    got = list(p.names)
    if a[0] != b[0] or (a[0] == "raises" and a[1] != b[1]) or got != ref:
        bad += 1
        print(f"list proxy over {initial}: {label}: proxy {a[0]} {a[1] if a[0] == 'raises' else ''} -> {got};  builtin {b[0]} "
              f"{b[1] if b[0] == 'raises' else ''} -> {ref}")


def setslice(sl, vals):
    def op(x):
        x[sl] = list(vals)
    return op


def imul(n):
    def op(x):
        x *= n
    return op


check_list([1, 2], "p[-1:] = [9]", setslice(slice(-1, None), [9]))
check_list([1, 2, 3], "p[-2:-1] = [9]", setslice(slice(-2, -1), [9]))
check_list([1, 2], "p[:5] = [9]", setslice(slice(None, 5), [9]))
check_list([], "p[:1] = []", setslice(slice(None, 1), []))
check_list([1], "p[-1:0] = []", setslice(slice(-1, 0), []))
check_list([1], "p[::-1] = [9]", setslice(slice(None, None, -1), [9]))
check_list([1, 2], "p[0:2] = [8, 9]  (control)", setslice(slice(0, 2), [8, 9]))
check_list([1], "p *= -1", imul(-1))
check_list([1], "p *= 2  (control)", imul(2))

p = Parent()
p.notes["a"] = 1
ref = {"a": 1}
for label, op in (("pop('missing', 0)", lambda d: d.pop("missing", 0)), ("pop('missing', None)  (control)", lambda d: d.pop("missing", None)),
                  ("pop('a', 0)  (control)", lambda d: d.pop("a", 0))):
    a, b = outcome(lambda: op(p.notes)), outcome(lambda: op(ref))
    if a != b or dict(p.notes) != ref:
        bad += 1
        print(f"dict proxy: {label}: proxy {a};  builtin {b}")

print("FAIL" if bad else "PASS", f"({bad} divergences from the builtin collections)")
raise SystemExit(1 if bad else 0)
