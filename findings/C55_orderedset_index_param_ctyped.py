"""C55-R3 finding: parameters declared `cython.Py_ssize_t` in util/_collections_cy.py::OrderedSet
(`__getitem__(self, key)`, `insert(self, pos, element)`) are converted to a C integer only in the compiled
build, at call time.  `os[0:2]` returns a list and `os[2**70]` raises IndexError in the pure-Python build but
raise TypeError / OverflowError in the compiled build; `os.insert(pos, already_present)` ignores a bad `pos` in
the pure-Python build (the element is present, nothing is inserted) but raises in the compiled build.

The script runs the REAL library twice in sub-processes: once as installed (compiled extensions) and once
with a meta-path hook that makes the seven `*_cy` modules load from their `.py` source (pure-Python mode;
there is no run-time switch in this version, DISABLE_SQLALCHEMY_CEXT is build-time only).

Run:  cd /tmp && /venv/bin/python /verif/findings/C55_orderedset_index_param_ctyped.py
"""
import json
import subprocess
import sys

CHILD = r'''
import importlib.abc, importlib.util, json, os, sys
if sys.argv[1] == "pure":
    class PureCy(importlib.abc.MetaPathFinder):
        def find_spec(self, fullname, path, target=None):
            if fullname.startswith("sqlalchemy.") and fullname.endswith("_cy"):
                for p in path or []:
                    f = os.path.join(p, fullname.rsplit(".", 1)[1] + ".py")
                    if os.path.exists(f):
                        return importlib.util.spec_from_file_location(fullname, f)
            return None
    sys.meta_path.insert(0, PureCy())
from sqlalchemy.util import OrderedSet
from sqlalchemy.util import _collections_cy as m

def run(fn):
    try:
        return ["value", repr(fn())]
    except Exception as e:
        return ["raised", type(e).__name__]

def ins(pos):
    s = OrderedSet([1, 2, 3])
    s.insert(pos, 9)
    return list(s)

def ins_present(pos):
    s = OrderedSet([1, 2, 3])
    s.insert(pos, 1)
    return list(s)

class Idx:
    def __index__(self):
        return 1

out = {
    "compiled": m._is_compiled(),
    "OrderedSet([1,2,3])[0:2]": run(lambda: OrderedSet([1, 2, 3])[0:2]),
    "OrderedSet([1,2,3])[2**70]": run(lambda: OrderedSet([1, 2, 3])[2 ** 70]),
    "OrderedSet([1,2,3]).insert(2**70, 9)": run(lambda: ins(2 ** 70)),
    "OrderedSet([1,2,3])[Idx()]": run(lambda: OrderedSet([1, 2, 3])[Idx()]),
    "OrderedSet([1,2,3]).insert('x', 1)  # 1 present": run(lambda: ins_present("x")),
    "OrderedSet([1,2,3]).insert(2**70, 1)  # 1 present": run(lambda: ins_present(2 ** 70)),
}
print(json.dumps(out))
'''

res = {}
for mode in ("compiled", "pure"):
    p = subprocess.run([sys.executable, "-c", CHILD, mode], capture_output=True, text=True, cwd="/tmp")
    if p.returncode != 0:
        print(mode, "child failed:", p.stderr[-600:])
        raise SystemExit(2)
    res[mode] = json.loads(p.stdout.strip().splitlines()[-1])

print("compiled build: _is_compiled() =", res["compiled"]["compiled"], "| pure build: _is_compiled() =", res["pure"]["compiled"])
diverge = []
for k in res["compiled"]:
    if k == "compiled":
        continue
    a, b = res["compiled"][k], res["pure"][k]
    mark = "SAME   " if a == b else "DIFFERS"
    print(f"{mark} {k:52s} compiled -> {a[0]} {a[1]:28s} pure -> {b[0]} {b[1]}")
    if a != b:
        diverge.append(k)
print()
if diverge:
    print(f"DEFECT: {len(diverge)} call(s) behave differently in the compiled and the pure-Python build")
raise SystemExit(1 if diverge else 0)
