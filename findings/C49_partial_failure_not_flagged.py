"""C49-R2 reproduction (keys `ext/mutable.py::MutableList:list.extend:partial-failure`, `MutableDict:dict.update:...`,
`MutableSet:set.update:...`, `MutableSet:set.difference_update:...`).

Run:  cd /tmp && /venv/bin/python /verif/findings/C49_partial_failure_not_flagged.py

list.extend / dict.update / set.update / set.difference_update consume their argument element by element.  When iterating the
argument raises part-way (a generator that fails, an unhashable element -> TypeError) the elements consumed so far STAY in the
collection, but the Mutable* override leaves through the exception before `self.changed()`: the in-memory value has changed,
the parent is not flagged modified, flush writes nothing.

Minimal repair (verified on a scratch worktree: test/ext/test_mutable.py 244 passed; ./check C49 silent):

    def extend(self, x):
        try:
            list.extend(self, x)
        finally:
            self.changed()
    (same for MutableDict.update, MutableSet.update, MutableSet.difference_update)
"""
from sqlalchemy import JSON, Column, Integer, PickleType, create_engine
from sqlalchemy.ext.mutable import MutableDict, MutableList, MutableSet
from sqlalchemy.orm import Session, declarative_base

Base = declarative_base()


class A(Base):
    __tablename__ = "a"
    id = Column(Integer, primary_key=True)
    d = Column(MutableDict.as_mutable(JSON))
    l = Column(MutableList.as_mutable(JSON))
    s = Column(MutableSet.as_mutable(PickleType))


def failing(items):
    for i in items:
        yield i
    raise RuntimeError("source of the items failed")


e = create_engine("sqlite://")
Base.metadata.create_all(e)
with Session(e) as s:
    s.add(A(id=1, d={"a": 1}, l=[1], s={1, 2}))
    s.commit()

bad = 0
with Session(e) as s:
    a = s.get(A, 1)
    a.d, a.l, a.s
    for what, op in (
        ("l.extend(<generator failing after 2, 3>)", lambda: a.l.extend(failing([2, 3]))),
        ("d.update(<generator failing after ('b', 1)>)", lambda: a.d.update(failing([("b", 1)]))),
        ("s.update([5, [6]])  (unhashable second element)", lambda: a.s.update([5, [6]])),
        ("s.difference_update(<generator failing after 1>)", lambda: a.s.difference_update(failing([1]))),
    ):
        try:
            op()
        except (RuntimeError, TypeError) as ex:
            print(f"{what}: raised {type(ex).__name__}; parent dirty: {a in s.dirty}")
    mem = (list(a.l), dict(a.d), set(a.s))
    print("in memory:", mem)
    s.commit()
with Session(e) as s:
    a = s.get(A, 1)
    stored = (list(a.l), dict(a.d), set(a.s))
    print("stored   :", stored)
    if stored != mem:
        bad += 1
        print("DEFECT: the collections were changed in place by the failed calls, the parent was never flagged, nothing was flushed")
print("FAIL" if bad else "PASS")
raise SystemExit(1 if bad else 0)
