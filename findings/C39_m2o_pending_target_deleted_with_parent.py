"""C39 finding (round-2 seed-agent observation 1): many-to-one with cascade="all, delete-orphan" (single_parent=True).

Assign a brand-new (pending) target to a persistent parent, then session.delete(parent) before any flush.
Session.delete()'s own cascade skips the pending target (Session._delete_impl: `state.key is None -> return`), but at
flush `_ManyToOneDP.presort_deletes` walks `history.sum()` (added + unchanged + deleted) and registers the *pending*
target with isdelete=True; the unit of work then emits `DELETE FROM target WHERE id = ?` with a NO_VALUE / None
primary key for an object that never had a row, and the flush fails (or, on a backend that accepts the parameter,
"expected to delete 1 row(s); 0 were matched").

Expected (property C39: "deleting an object deletes exactly the objects reachable through delete cascades"): the
pending target has no row; the flush deletes the parent (and the old persistent target) and the pending object is
simply never inserted / expunged.

Minimal fix (orm/dependency.py, _ManyToOneDP.presort_deletes):
    -                        if child is None:
    +                        if child is None or not child.has_identity:
                                 continue

Run:  cd /tmp && /venv/bin/python /verif/findings/C39_m2o_pending_target_deleted_with_parent.py
"""
import sys
import warnings

from sqlalchemy import Column, ForeignKey, Integer, String, create_engine, event
from sqlalchemy.orm import Session, declarative_base, relationship

Base = declarative_base()


class Target(Base):
    __tablename__ = "target"
    id = Column(Integer, primary_key=True)
    name = Column(String)


class Parent(Base):
    __tablename__ = "parent"
    id = Column(Integer, primary_key=True)
    target_id = Column(ForeignKey("target.id"))
    target = relationship(Target, cascade="all, delete-orphan", single_parent=True)


class Target2(Base):
    __tablename__ = "target2"
    id = Column(Integer, primary_key=True)
    name = Column(String)


class Parent2(Base):  # plain delete cascade, no delete-orphan: presort_deletes walks history.non_deleted()
    __tablename__ = "parent2"
    id = Column(Integer, primary_key=True)
    target_id = Column(ForeignKey("target2.id"))
    target = relationship(Target2, cascade="all")


def run(variant, Parent=Parent, Target=Target):
    e = create_engine("sqlite://")
    Base.metadata.create_all(e)
    stmts = []

    @event.listens_for(e, "before_cursor_execute")
    def _log(conn, cursor, statement, parameters, context, executemany):
        stmts.append((statement, parameters))

    with Session(e) as s:
        p = Parent(target=Target(name="old"))
        s.add(p)
        s.commit()
        p.target  # load
        del stmts[:]
        if variant == "pending-target":
            p.target = Target(name="new-pending")
        s.delete(p)
        try:
            with warnings.catch_warnings(record=True) as w:
                warnings.simplefilter("always")
                s.flush()
            for x in w:
                print("   warning:", x.message)
        except Exception as err:
            print(f"[{variant}] flush FAILED: {type(err).__name__}: {str(err).splitlines()[0][:200]}")
            for st, pa in stmts:
                if st.startswith("DELETE"):
                    print("   emitted:", st, pa)
            return False
        rows = s.execute(Target.__table__.select()).all(), s.execute(Parent.__table__.select()).all()
        print(f"[{variant}] flush ok, rows left (target, parent) = {rows}")
        return True


ok1 = run("control")          # delete parent with its loaded persistent target: works
ok2 = run("pending-target")   # same, after assigning a new pending target
ok3 = run("pending-target", Parent2, Target2)  # cascade="all" without delete-orphan: same defect through non_deleted()
if ok1 and not (ok2 and ok3):
    print("DEFECT REPRODUCED: deleting the parent tries to DELETE the pending (never inserted) many-to-one target")
    sys.exit(1)
print("not reproduced")
