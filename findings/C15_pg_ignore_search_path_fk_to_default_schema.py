"""C15-R7 finding (unchanged tree): PostgreSQL foreign key reflection with postgresql_ignore_search_path=True
reports the *reflecting* table's schema as referred_schema when the referenced table lives in the default
schema ("public") and the table being reflected lives in another schema.

    billing.invoice(account_id) -> public.account(id)
    inspect(conn).get_foreign_keys("invoice", schema="billing", postgresql_ignore_search_path=True)

PGDialect.get_multi_foreign_keys():
    if postgresql_ignore_search_path:
        if conschema != self.default_schema_name:
            referred_schema = conschema
        else:
            referred_schema = schema          # <-- "billing", the target lives in "public"

Table("invoice", m, schema="billing", autoload_with=conn, postgresql_ignore_search_path=True) then tries to
reflect billing.account (NoSuchTableError, or silently another table of that name), and a re-created table
references the wrong relation.  Without the option the same foreign key reflects as referred_schema=None (right).

No server needed: the real dialect code runs over a fake connection that answers the dialect's foreign key
catalog query with the row a server returns (pg_get_constraintdef prints the target unqualified because
"public" is on the search_path; the n_ref.nspname column says "public").
Run:  cd /tmp && /venv/bin/python /verif/findings/C15_pg_ignore_search_path_fk_to_default_schema.py
exit 1 = defect present.
"""
import sys

from sqlalchemy.dialects import postgresql
from sqlalchemy.engine.reflection import ObjectKind, ObjectScope


class FakeConnection:
    def __init__(self, dialect, rows):
        self.dialect, self.rows = dialect, rows

    def execute(self, statement, parameters=None):
        return iter(self.rows)


dialect = postgresql.dialect()
dialect.default_schema_name = "public"
dialect.server_version_info = (16, 0)
# (table_name, conname, pg_get_constraintdef(), schema of the referenced table, comment)
rows = [("invoice", "invoice_account_fk", "FOREIGN KEY (account_id) REFERENCES account(id) ON DELETE SET NULL",
         "public", None)]
bad = 0
for ignore in (False, True):
    got = dict(dialect.get_multi_foreign_keys(FakeConnection(dialect, rows), "billing", ["invoice"], ObjectScope.DEFAULT,
                                              ObjectKind.TABLE, postgresql_ignore_search_path=ignore))
    fk = got[("billing", "invoice")][0]
    ok = fk["referred_schema"] in (None, "public")
    print(f"postgresql_ignore_search_path={ignore}: billing.invoice -> public.account reflected as "
          f"referred_schema={fk['referred_schema']!r} referred_table={fk['referred_table']!r}  {'ok' if ok else 'WRONG'}")
    bad += not ok
if bad:
    print("FAIL: referred_schema names a schema the referenced table does not live in")
    sys.exit(1)
print("PASS")
