"""C22-R7  sql/compiler.py::SQLCompiler._setup_select_stack:stack-entry[select_0]
           sql/compiler.py::SQLCompiler.visit_insert:stack-entry[insert_from_select]

`_CompilerStackEntry` declares select_0 / insert_from_select / compile_state as optional (total=False) keys.  Two
readers index them without a KeyError guard although the visitor that should have written them did not:

* union(<TextualSelect>, select(...)): visit_textual_select (compound_index 0) never sets entry["select_0"]
  (only visit_select / visit_compound_select do), so the second member's _setup_select_stack raises KeyError('select_0');
* insert(t).from_select([], select(...)): crud only writes "insert_from_select" when there are select names, and
  visit_insert reads it whenever insert_stmt.select is not None -> KeyError('insert_from_select').

(visit_label_reference / visit_textual_label_reference wrap the same kind of read in try/except KeyError -> CompileError.)

Run:  cd /tmp && /venv/bin/python /verif/findings/C22_optional_stack_entry_keyerror.py
"""
import sqlalchemy
from sqlalchemy import Column, Integer, MetaData, Table, column, insert, select, text, union

t = Table("t", MetaData(), Column("id", Integer, primary_key=True), Column("x", Integer))
ts = lambda: text("select 1 as a").columns(column("a"))  # noqa: E731
cases = [
    ("control: union(select, textual)", lambda: union(select(t.c.x), ts())),
    ("control: union(textual, textual)", lambda: union(ts(), ts())),
    ("union(textual, select)", lambda: union(ts(), select(t.c.x))),
    ("control: insert().from_select(['x'], select)", lambda: insert(t).from_select(["x"], select(t.c.x))),
    ("insert().from_select([], select)", lambda: insert(t).from_select([], select(t.c.x))),
]
bad = 0
for label, mk in cases:
    try:
        res = "compiled: " + " ".join(str(mk().compile()).split())[:60]
    except sqlalchemy.exc.SQLAlchemyError as e:
        res = f"documented error {type(e).__name__}"
    except Exception as e:  # noqa
        bad += 1
        res = f"{type(e).__module__}.{type(e).__name__}: {str(e)[:40]}   <-- internal error"
    print(f"{label:46} -> {res}")
print("DEFECT REPRODUCED" if bad else "not reproduced")
