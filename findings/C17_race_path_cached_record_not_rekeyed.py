"""C17-R3  sql/lambdas.py::LambdaElement._retrieve_tracker_rec:cached-record[load]:current-values-rekeyed

A lambda whose closure holds a SQL expression with a bound value (`crit = t.c.q == v; lambda: select(t).where(crit)`)
keeps, per cached record, the BindParameter objects of the invocation that built the record
(`rec.closure_bindparams`).  Every later invocation must hand its own values over under the RECORD's parameter keys
(`orig_bind._with_value(new_bind.value, maintain_key=True)`), because `_setup_binds_for_tracked_expr` splices the
per-invocation parameters into the cached expression by key.

`_retrieve_tracker_rec` does that on the ordinary hit path (`lambda_cache.get(...)` returned a record), but not on
the second way a record comes out of the cache: the double-checked branch under `AnalyzedCode._generation_mutex`

        if key not in lambda_cache:  ... build, store ...
        else:
            rec = lambda_cache[key]          # <- built meanwhile by another thread; parameters NOT re-keyed

An invocation that takes this branch keeps parameters under its own keys; none of them matches the cached expression,
which therefore keeps the values of the thread that built the record: stale closure value, wrong rows.

The interleaving is forced deterministically below with the public `lambda_cache=` argument (a dict whose get() makes
thread B wait, after its miss, until thread A has stored the record).  No sleeps, no monkeypatching of the library.

Expected: B's statement selects q == 7 -> [(2,)].  Observed on the unchanged tree: [(1,)] (A's value 5).

Minimal fix (verified on a scratch copy: this script prints OK, ./check C17 has no C17-R3 violation,
test/sql/test_lambdas.py + test/orm/test_lambdas.py pass):

--- a/lib/sqlalchemy/sql/lambdas.py
+++ b/lib/sqlalchemy/sql/lambdas.py
@@ def _retrieve_tracker_rec(self, fn, apply_propagate_attrs, opts):
                         lambda_cache[key] = rec
                     else:
                         rec = lambda_cache[key]
+                        bindparams[:] = [
+                            orig_bind._with_value(
+                                new_bind.value, maintain_key=True
+                            )
+                            for orig_bind, new_bind in zip(
+                                rec.closure_bindparams, bindparams
+                            )
+                        ]
             else:
                 rec = NonAnalyzedFunction(self._invoke_user_fn(fn))
"""
import sys
import threading

from sqlalchemy import Column, Integer, MetaData, Table, create_engine, lambda_stmt, pool, select

m = MetaData()
t = Table("t", m, Column("id", Integer, primary_key=True), Column("q", Integer))
e = create_engine("sqlite://", poolclass=pool.StaticPool, connect_args={"check_same_thread": False})
m.create_all(e)
with e.begin() as c:
    c.execute(t.insert(), [dict(id=1, q=5), dict(id=2, q=7)])

b_missed = threading.Event()
a_done = threading.Event()


class RaceCache(dict):
    """lambda_cache that makes thread B lose the race: after B's miss, A builds and stores the record"""

    def get(self, key, default=None):
        r = super().get(key, default)
        if threading.current_thread().name == "B" and r is None and not a_done.is_set():
            b_missed.set()
            a_done.wait()
        return r


cache = RaceCache()


def go(v):
    crit = t.c.q == v          # closure value: a SQL expression holding a bound value
    return lambda_stmt(lambda: select(t.c.id).where(crit), lambda_cache=cache)


out = {}


def A():
    b_missed.wait()
    out["A"] = go(5)
    a_done.set()


def B():
    out["B"] = go(7)


ta = threading.Thread(target=A, name="A")
tb = threading.Thread(target=B, name="B")
ta.start(); tb.start(); ta.join(); tb.join()

with e.connect() as c:
    got = c.execute(out["B"]).all()
    want = c.execute(select(t.c.id).where(t.c.q == 7)).all()
print("lambda statement built with v=7 returned", got, "- directly built statement returns", want)
print("parameters of B's statement:", out["B"].compile().params, "(closure value was 7)")
if got != want:
    print("DEFECT: the lambda statement executed with the closure value of the OTHER invocation (5)")
    sys.exit(1)
print("OK")
