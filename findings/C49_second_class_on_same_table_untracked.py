"""C49-R7 reproduction (key `ext/mutable.py::Mutable.as_mutable.listen_for_type:installs-for-every-class`; seed-agent observation,
round 2).

Run:  cd /tmp && /venv/bin/python /verif/findings/C49_second_class_on_same_table_untracked.py

`Mutable.as_mutable()` installs the load/refresh/set/pickle/unpickle listeners from a `mapper_configured` hook, guarded by a
once-only flag stored PER COLUMN (`prop.expression.info["_ext_mutable_listener_applied"]`, added for issue #9676 so that
inheriting mappers do not register twice).  A Column belongs to a Table, not to a class: a second, unrelated class mapped to
the same Table finds the flag set and gets NO listeners -- its values are not coerced (plain dict), in-place changes never flag
the parent, flush writes nothing.  The same happens to the ONLY class mapped to the Table after `clear_mappers()` + re-mapping
(the flag survives on the Column).

Minimal repair (findings/C49_second_class_on_same_table_untracked.fix.diff; verified on a scratch worktree: test/ext/test_mutable.py
incl. test_no_duplicate_reg_w_inheritance (#9676) + test/orm/test_composites.py 349 passed): drop the per-Column flag and skip only
attributes INHERITED from the parent mapper (those are covered by the parent's propagate=True listeners).
"""
from sqlalchemy import JSON, Column, Integer, Table, create_engine
from sqlalchemy.ext.mutable import MutableDict
from sqlalchemy.orm import Session, configure_mappers, registry

reg = registry()
t = Table("t", reg.metadata, Column("id", Integer, primary_key=True), Column("data", MutableDict.as_mutable(JSON)))


class First:
    pass


class Second:
    pass


reg.map_imperatively(First, t)
reg.map_imperatively(Second, t)
configure_mappers()
e = create_engine("sqlite://")
reg.metadata.create_all(e)
ok = True
for cls in (First, Second):
    with Session(e) as s:
        o = cls()
        o.data = {"a": 1}
        s.add(o)
        s.commit()
        pk = o.id
        o.data["b"] = 2
        print(f"{cls.__name__}: value type {type(o.data).__name__}; dirty after `o.data['b'] = 2`: {o in s.dirty}")
        s.commit()
    with Session(e) as s:
        got = dict(s.get(cls, pk).data)
        print(f"{cls.__name__}: stored {got}")
        ok = ok and got == {"a": 1, "b": 2}
from sqlalchemy.orm import clear_mappers  # noqa: E402

clear_mappers()


class Third:
    pass


reg3 = registry(metadata=reg.metadata)
reg3.map_imperatively(Third, t)
configure_mappers()
o = Third()
o.data = {"a": 1}
print(f"Third (mapped alone, after clear_mappers()): value type {type(o.data).__name__}")
ok = ok and type(o.data).__name__ == "MutableDict"
print("PASS" if ok else "FAIL: the second class mapped to the same Table is not change-tracked")
raise SystemExit(0 if ok else 1)
