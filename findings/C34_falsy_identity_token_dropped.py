"""C34-R8  orm/loading.py::_set_get_options:token-tested-against-None
        orm/query.py::Query._get_options:token-tested-against-None

`None` is the "no identity token" value everywhere (parameter defaults, `ShardedSession._identity_lookup` tests
`identity_token is not None`, `QueryContext` copies `load_options._identity_token` whatever it is, and
`execution_options(identity_token=0)` produces keys `(cls, pk, 0)`).  `_set_get_options` (Session.get / refresh) and
`Query._get_options` however test `if identity_token:`: a falsy token such as 0 or '' is dropped on the way to the load.

Session.get(A, 1, identity_token=0): the identity-map lookup uses `(A, (1,), 0)`, the load registers the object under
`(A, (1,), None)`.  Hence every further get() for the same identity misses the map and emits a SELECT again ("Session.get
returns the object without emitting SQL when it is present" is violated), the object carries the wrong identity key, and a
query with `execution_options(identity_token=0)` creates a second object for the row.

Proposed minimal fix:  `if identity_token:` -> `if identity_token is not None:` in both functions.

Run:  cd /tmp && /venv/bin/python /verif/findings/C34_falsy_identity_token_dropped.py
"""
from sqlalchemy import Column, Integer, String, create_engine, event, inspect, select
from sqlalchemy.orm import Session, declarative_base

Base = declarative_base()


class A(Base):
    __tablename__ = "a"
    id = Column(Integer, primary_key=True)
    data = Column(String)


e = create_engine("sqlite://")
Base.metadata.create_all(e)
with Session(e) as s:
    s.add(A(id=1, data="x"))
    s.commit()
sql = []
event.listen(e, "before_cursor_execute", lambda c, cur, st, p, ctx, em: sql.append(st))

bad = 0
for tok in ("t", 0, ""):
    s = Session(e)
    a = s.get(A, 1, identity_token=tok)
    del sql[:]
    b = s.get(A, 1, identity_token=tok)
    again = len(sql)
    c = s.execute(select(A), execution_options={"identity_token": tok}).scalars().one()
    print(f"token={tok!r}: get() registered key token {inspect(a).key[2]!r}; second get() emitted {again} SELECT(s); "
          f"query with the same token returns the same object: {c is a} (its key token: {inspect(c).key[2]!r})")
    if inspect(a).key[2] != tok or again or c is not a:
        bad += 1
    s.close()
print()
print("DEFECT REPRODUCED" if bad else "not reproduced")
