"""C07-R4  sql/compiler.py::SQLCompiler._literal_execute_expanding_parameter_literal_binds:empty:tuple:agrees-with-bound-path

For an EMPTY tuple IN list the literal path (literal_execute=True / literal_binds) prepends "VALUES " to the
dialect's empty-set SELECT when dialect.tuple_in_values is set (SQLite); the bound sibling
_literal_execute_expanding_parameter renders the empty-set SELECT alone.  `IN (VALUES SELECT 1, 1 FROM ...)`
is a syntax error, so `tuple_(a, b).in_([])` / `.not_in([])` works when bound and fails when rendered literally.

Minimal fix (both siblings then render the same text for an empty list):

     if typ_dialect_impl._is_tuple_type:
-        replacement_expression = (
-            "VALUES " if self.dialect.tuple_in_values else ""
-        ) + self.visit_empty_set_op_expr(
+        replacement_expression = self.visit_empty_set_op_expr(
             parameter.type.types, parameter.expand_op
         )

Run:  cd /tmp && /venv/bin/python /verif/findings/C07_empty_tuple_in_literal_values.py
"""
from sqlalchemy import Column, Integer, MetaData, Table, bindparam, create_engine, select, tuple_

e = create_engine("sqlite://")
m = MetaData()
t = Table("t", m, Column("id", Integer, primary_key=True), Column("x", Integer), Column("y", Integer))
m.create_all(e)
bad = 0
with e.begin() as c:
    c.execute(t.insert(), [dict(id=1, x=1, y=1), dict(id=2, x=2, y=2), dict(id=3, x=None, y=None)])
    for op, want in (("in_", []), ("not_in", [1, 2, 3])):
        for kw in ({}, {"literal_execute": True}):
            stmt = select(t.c.id).where(getattr(tuple_(t.c.x, t.c.y), op)(bindparam("q", expanding=True, **kw))).order_by(t.c.id)
            try:
                got = [r[0] for r in c.execute(stmt, {"q": []})]
                note = "" if got == want else f"   <-- WRONG, expected {want}"
                bad += got != want
            except Exception as ex:  # noqa
                got = f"{type(ex).__name__}: {str(ex).splitlines()[0]}"
                sql = [ln for ln in str(ex).splitlines() if ln.startswith("WHERE")]
                note = f"   <-- expected {want}; SQL: {sql[0] if sql else ''}"
                bad += 1
            print(f"tuple_(x, y).{op}([])  {kw or 'bound'}: {got}{note}")
stmt = select(t.c.id).where(tuple_(t.c.x, t.c.y).in_([]))
print("literal_binds:", str(stmt.compile(e, compile_kwargs={"literal_binds": True})).replace("\n", " "))
print("DEFECT REPRODUCED" if bad else "not reproduced")
