"""C18 (str2-g, round-2 observation 2; rule C18-R7): LIMIT / OFFSET of a compound select is silently dropped by
MSSQLCompiler (simple LIMIT on every server version -- it is rendered as TOP by get_select_precolumns, which only
visit_select calls; everything on pre-2012 servers) and by OracleCompiler with enable_offset_fetch=False / pre-12c
(limit_clause() returns '' because the ROWNUM wrapper lives in translate_select_structure, again visit_select only).
SQLCompiler.visit_compound_select renders the limit through _row_limit_clause() alone.

The compiled SQL has no row-limiting construct at all; it is plain SQL, so it is also executed on SQLite (named
parameters) to show that every row comes back.
Run:  cd /tmp && /venv/bin/python /verif/findings/C18_compound_select_limit_dropped.py     (exit 1 = defect present)
"""
import re
import sqlite3
import sys

from sqlalchemy import column, select, table, union
from sqlalchemy.dialects import mssql, oracle

t = table("t", column("id"), column("x"))
u = union(select(t.c.id).where(t.c.x == 1), select(t.c.id).where(t.c.x == 2)).order_by("id")

ms_new = mssql.dialect()
ms_new._supports_offset_fetch = True          # SQL Server 2012+
ms_old = mssql.dialect()
ms_old._supports_offset_fetch = False         # SQL Server 2008
ora_old = oracle.dialect(enable_offset_fetch=False)
ora_new = oracle.dialect()
ora_new._supports_offset_fetch = True

db = sqlite3.connect(":memory:")
db.execute("create table t (id integer, x integer)")
db.executemany("insert into t values (?, ?)", [(i, 1 + i % 2) for i in range(1, 9)])
LIMITING = re.compile(r"\bTOP\b|FETCH FIRST|ROWNUM|ROW_NUMBER|\bLIMIT\b", re.I)

bad = []
for name, stmt, dialect, want_rows in (
    ("mssql 2012+  union.limit(3)", u.limit(3), ms_new, 3),
    ("mssql 2012+  union.limit(3).offset(1)", u.limit(3).offset(1), ms_new, None),   # rendered (OFFSET/FETCH): control
    ("mssql 2008   union.limit(3)", u.limit(3), ms_old, 3),
    ("mssql 2008   union.limit(3).offset(1)", u.limit(3).offset(1), ms_old, 3),
    ("oracle 11g   union.limit(3)", u.limit(3), ora_old, 3),
    ("oracle 11g   union.limit(3).offset(1)", u.limit(3).offset(1), ora_old, 3),
    ("oracle 12c+  union.limit(3)", u.limit(3), ora_new, None),                    # rendered: control
):
    c = stmt.compile(dialect=dialect)
    sql = " ".join(str(c).split())
    has = bool(LIMITING.search(sql))
    line = f"{'ok ' if has else 'BAD'} {name:40s} {sql}"
    if not has:
        rows = db.execute(str(c), c.params).fetchall()
        line += f"\n      executed as is: {len(rows)} rows {rows} (asked for {want_rows})"
        bad.append(name)
    print(line)
if bad:
    print(f"FAIL: no row-limiting clause rendered for: {bad}")
    sys.exit(1)
print("PASS")
