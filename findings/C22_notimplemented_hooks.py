"""C22-R1  dialects/sqlite/base.py::SQLiteCompiler.visit_sequence
           dialects/sqlite/base.py::SQLiteCompiler.delete_extra_from_clause
           dialects/oracle/base.py::OracleCompiler.update_from_clause
           dialects/oracle/base.py::OracleCompiler.delete_extra_from_clause

The base SQLCompiler implements these hooks as `raise NotImplementedError(...)`.  The SQLite and Oracle
compilers do not override them, so compiling a well-formed construct on those built-in dialects raises the
builtin NotImplementedError instead of a documented SQLAlchemy error (CompileError /
UnsupportedCompilationError), which is what C22 requires.

Run:  cd /tmp && /venv/bin/python /verif/findings/C22_notimplemented_hooks.py
"""
import sqlalchemy
from sqlalchemy import Column, Integer, MetaData, Sequence, Table, delete, select, update
from sqlalchemy.dialects import oracle, sqlite

m = MetaData()
t1 = Table("t1", m, Column("x", Integer), Column("y", Integer))
t2 = Table("t2", m, Column("x", Integer), Column("y", Integer))
cases = [
    ("sqlite", sqlite.dialect(), "select(Sequence('s').next_value())", select(Sequence("s").next_value())),
    ("sqlite", sqlite.dialect(), "delete(t1).where(t1.c.x == t2.c.x)", delete(t1).where(t1.c.x == t2.c.x)),
    ("oracle", oracle.dialect(), "update(t1).values(y=5).where(t1.c.x == t2.c.x)", update(t1).values(y=5).where(t1.c.x == t2.c.x)),
    ("oracle", oracle.dialect(), "delete(t1).where(t1.c.x == t2.c.x)", delete(t1).where(t1.c.x == t2.c.x)),
]
bad = 0
for dn, d, text, stmt in cases:
    try:
        str(stmt.compile(dialect=d))
        res = "compiled"
    except sqlalchemy.exc.SQLAlchemyError as e:
        res = f"documented error {type(e).__name__}"
    except Exception as e:  # noqa
        bad += 1
        res = f"{type(e).__module__}.{type(e).__name__}: {e}   <-- not a SQLAlchemy error"
    print(f"{dn:7} {text:50} -> {res}")
print("DEFECT REPRODUCED" if bad else "not reproduced")
