"""C22-R6  (9 keys)  dialects/{mssql,mysql,oracle,postgresql,sqlite}/base.py::*DDLCompiler.visit_create_index:precondition:arg0.element.name is None
                     dialects/{mssql,mysql,postgresql}/base.py::*DDLCompiler.visit_drop_index:precondition:arg0.element.name is None
                     dialects/mysql/base.py::MySQLDDLCompiler.visit_drop_constraint:precondition:test over arg0.element, arg0.element.name

The base DDLCompiler visitors turn an unnamed Index / Constraint into CompileError ("CREATE INDEX requires that
the index have a name", "Can't emit DROP CONSTRAINT ... it has no name").  The dialect overrides re-implement the
visitor without calling super() and without that check, so the unnamed construct reaches
IdentifierPreparer.format_constraint(), whose `assert name is not None` fails: compile() raises a bare AssertionError.

An Index is unnamed when Index(None, col) is used with a MetaData whose naming_convention has no "ix" entry.

Run:  cd /tmp && /venv/bin/python /verif/findings/C22_override_drops_base_precondition.py
"""
import sqlalchemy
from sqlalchemy import CheckConstraint, Column, ForeignKeyConstraint, Index, Integer, MetaData, Table, UniqueConstraint
from sqlalchemy.dialects import mssql, mysql, oracle, postgresql, sqlite
from sqlalchemy.schema import CreateIndex, DropConstraint, DropIndex


def tbl():
    return Table("t", MetaData(naming_convention={"pk": "pk_%(table_name)s"}),
                 Column("id", Integer, primary_key=True), Column("x", Integer))


def run(text, mk):
    try:
        return "compiled: " + " ".join(str(mk()).split())[:60], False
    except sqlalchemy.exc.SQLAlchemyError as e:
        return f"documented error {type(e).__name__}", False
    except Exception as e:  # noqa
        return f"{type(e).__module__}.{type(e).__name__}   <-- internal error", True


bad = 0
for d in (None, mssql.dialect(), mysql.dialect(), oracle.dialect(), postgresql.dialect(), sqlite.dialect()):
    name = d.name if d is not None else "default"
    t = tbl()
    ix = Index(None, t.c.x)
    cases = [("CreateIndex(unnamed)", lambda: CreateIndex(ix).compile(dialect=d)),
             ("DropIndex(unnamed)", lambda: DropIndex(ix).compile(dialect=d))]
    for cls, args in ((CheckConstraint, ("x > 5",)), (UniqueConstraint, ("x",)), (ForeignKeyConstraint, (["x"], ["t.id"]))):
        def mk(cls=cls, args=args):
            t2 = tbl()
            c = cls(*args)
            t2.append_constraint(c)
            return DropConstraint(c).compile(dialect=d)
        cases.append((f"DropConstraint(unnamed {cls.__name__})", mk))
    for text, mk in cases:
        res, internal = run(text, mk)
        bad += internal
        print(f"{name:11} {text:46} -> {res}")
print("DEFECT REPRODUCED" if bad else "not reproduced")
