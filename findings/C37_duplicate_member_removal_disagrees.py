"""C37 finding (unchanged tree): with the same child twice in a one-to-many list, three list removers leave
the two sides of the bidirectional relationship in disagreement.

The backref 'remove' handler (attributes._backref_listeners.emit_backref_from_collection_remove_event) keeps
child.parent when `util.has_dupes(state.dict[key], child)` - "more than one occurrence in the live list" - which
means "another occurrence remains" only if the event is delivered BEFORE the removal and exactly ONE item is
removed by the operation.  collections._list_decorators:

  * pop()           delivers the remove event AFTER list.pop()  -> one of two occurrences popped: the child is
                    still in parent.children but child.parent is None (flush then NULLs the FK: the reloaded
                    collection loses the member)
  * clear(), del l[a:b]  deliver ALL remove events before removing anything -> both occurrences removed, every
                    event still sees the other one: child not in parent.children but child.parent is parent
  * remove(), del l[i], l[i] = x, l[a:b] = [...]  (event before, one item at a time) are right.

(The in-code comment says "the item is usually present in the list, except for a pop() operation".)

Run: cd /tmp && /venv/bin/python /verif/findings/C37_duplicate_member_removal_disagrees.py
"""
import sys

from sqlalchemy import Column, ForeignKey, Integer, create_engine
from sqlalchemy.orm import Session, declarative_base, relationship

Base = declarative_base()


class P(Base):
    __tablename__ = "p"
    id = Column(Integer, primary_key=True)
    children = relationship("C", back_populates="parent")


class C(Base):
    __tablename__ = "c"
    id = Column(Integer, primary_key=True)
    pid = Column(ForeignKey("p.id"))
    parent = relationship("P", back_populates="children")


OPS = [
    ("p.children.pop()", "list.pop"),
    ("p.children.pop(0)", "list.pop"),
    ("p.children.clear()", "list.clear"),
    ("del p.children[0:2]", "list.__delitem__(slice)"),
    ("p.children.remove(c)", "list.remove"),
    ("del p.children[0]", "list.__delitem__(int)"),
    ("p.children[0] = c2", "list.__setitem__(int)"),
    ("p.children[0:2] = [c2]", "list.__setitem__(slice)"),
    ("p.children = [c2]", "bulk replace"),
]
bad = 0
for op, what in OPS:
    p, c, c2 = P(), C(), C()
    p.children.append(c)
    p.children.append(c)
    exec(op)
    member, parent = c in p.children, c.parent is p
    agree = member == parent
    bad += not agree
    print(f"{op:26} [{what:24}] c in p.children={member!s:5} c.parent is p={parent!s:5} -> {'agree' if agree else 'DISAGREE'}")

# after flush and reload: the popped duplicate loses its row's FK although it was still a member
e = create_engine("sqlite://")
Base.metadata.create_all(e)
with Session(e) as s:
    p, c = P(id=1), C(id=1)
    p.children.append(c)
    p.children.append(c)
    s.add(p)
    s.flush()
    p.children.pop()
    before = [x.id for x in p.children]
    s.commit()
    after = [x.id for x in s.get(P, 1).children]
    print(f"pop() of a duplicate, then flush+reload: members before flush {before}, after reload {after} -> {'agree' if before == after else 'DISAGREE'}")
    bad += before != after
print("FINDING REPRODUCED" if bad else "not reproduced")
sys.exit(1 if bad else 0)
