"""C31-R2  orm/dependency.py::_ManyToOneDP.per_state_dependencies:plain,parent-saved,child-deleted:save_parent<child_action

Two mappers that reference each other many-to-one (A.b_id -> b.id, B.a_id -> a.id, both nullable, no
post_update needed because no two ROWS depend on each other).  In one flush the application clears
`a.b` and deletes the formerly referenced `b`.  The final state satisfies every constraint
(UPDATE a SET b_id=NULL; DELETE b), but the two mappers form a cycle, the unit of work switches to the
per-object form, and `_ManyToOneDP.per_state_dependencies` registers no edge
"save of the referencing object  ->  delete of the formerly referenced object" for the branch
(parent saved, child deleted).  The aggregate edge (parent_saves, child_deletes) that would order them
is discarded because both ends are cycle members.  DELETE b is emitted first -> IntegrityError on any
backend that checks FOREIGN KEYs immediately.

Run:  cd /tmp && /venv/bin/python /verif/findings/C31_m2o_cycle_dereference_then_delete.py
"""
from sqlalchemy import ForeignKey, Integer, create_engine, event
from sqlalchemy.orm import DeclarativeBase, Session, mapped_column, relationship
from sqlalchemy.orm import dependency


class Base(DeclarativeBase):
    pass


class A(Base):
    __tablename__ = "a"
    id = mapped_column(Integer, primary_key=True)
    b_id = mapped_column(ForeignKey("b.id"))
    b = relationship("B", foreign_keys=[b_id])


class B(Base):
    __tablename__ = "b"
    id = mapped_column(Integer, primary_key=True)
    a_id = mapped_column(ForeignKey("a.id", use_alter=True, name="fk_b_a"))
    a = relationship("A", foreign_keys=[a_id])


def scenario():
    e = create_engine("sqlite://")

    @event.listens_for(e, "connect")
    def _fk(dbapi_con, rec):
        dbapi_con.execute("pragma foreign_keys=ON")

    Base.metadata.create_all(e)
    stmts = []

    @event.listens_for(e, "before_cursor_execute")
    def _log(conn, cur, stmt, params, ctx, many):
        stmts.append((stmt, params))

    with Session(e) as s:
        b = B(id=1)
        a = A(id=1, b=b)
        s.add_all([a, b])
        s.commit()
        a.b  # load the reference
        del stmts[:]
        a.b = None      # stop referencing b ...
        s.delete(b)     # ... and delete it
        try:
            s.flush()
            outcome = "flush OK"
        except Exception as ex:  # noqa
            outcome = f"flush FAILED: {type(ex).__name__}: {str(ex).splitlines()[0]}"
        return outcome, list(stmts)


print("== unchanged library ==")
outcome, stmts = scenario()
print(outcome)
for st in stmts:
    print("   ", st)
bad = "FAILED" in outcome

# ---- proposed minimal fix, applied here by wrapping the method (the library file is not modified)
_orig = dependency._ManyToOneDP.per_state_dependencies


def _patched(self, uow, save_parent, delete_parent, child_action, after_save, before_delete, isdelete, childisdelete):
    _orig(self, uow, save_parent, delete_parent, child_action, after_save, before_delete, isdelete, childisdelete)
    if not self.post_update and not isdelete and childisdelete:
        uow.dependencies.add((save_parent, child_action))


dependency._ManyToOneDP.per_state_dependencies = _patched
print("== with the proposed edge (save_parent, child_action) ==")
outcome2, stmts2 = scenario()
print(outcome2)
for st in stmts2:
    print("   ", st)
print()
print("DEFECT REPRODUCED" if bad and "OK" in outcome2 else "not reproduced")
