"""C03-R5 findings (unchanged tree), keys
    sql/dml.py::UpdateBase.returning:stale-memo:_all_selected_columns
    sql/dml.py::UpdateBase.returning:stale-memo:exported_columns

`UpdateBase._all_selected_columns` and `UpdateBase.exported_columns` are memoised with the plain
`util.ro_memoized_property`: the value lives in __dict__ under a name that is NOT registered in `_memoized_keys`,
so Generative._generate() (a shallow __dict__ copy that only skips `_memoized_keys`) carries it over to the copy.
Both are computed from `self._returning`, which the generative method returning() rebinds on the copy
(`self._returning += ...`) without dropping the two names.  (Select memoises the very same attribute with
`HasMemoized_ro_memoized_attribute`, which _generate() drops.)

Effect: once `exported_columns` (or anything that reads it: .cte(), .corresponding_column(), ORM result set-up)
was evaluated on a DML statement, every statement derived from it with .returning(more) keeps reporting the
ancestor's RETURNING columns.  The SQL of a statement built on top of the descendant then depends on whether the
ancestor happened to be inspected before -- the same chain of generative calls yields different SQL:

    ins  = insert(t).returning(t.c.a)
    ins.exported_columns                         # or ins.cte(), or a tool that introspects the statement
    ins2 = ins.returning(t.c.b)                  # RETURNING t.a, t.b
    select(ins2.cte("y"))                        # SELECT y.a FROM y        (fresh chain: SELECT y.a, y.b FROM y)
    select(ins2.cte("y").c.b)                    # AttributeError: b

Run:  cd /tmp && /venv/bin/python /verif/findings/C03_dml_returning_stale_exported_columns.py
exit 1 = defect present, 0 = absent.
"""
import sys

from sqlalchemy import column, delete, insert, select, table, update

t = table("t", column("a"), column("b"), column("c"))
bad = []


def sql(stmt):
    return " ".join(str(stmt).split())


for ctor in (insert, update, delete):
    def chain(touch_ancestor):
        s1 = ctor(t).returning(t.c.a)
        if touch_ancestor:
            s1.exported_columns  # memoise on the ancestor
        s2 = s1.returning(t.c.b)
        return s2

    fresh, stale = chain(False), chain(True)
    assert sql(fresh) == sql(stale)  # the DML statement itself renders RETURNING t.a, t.b in both cases
    cols_fresh = [c.name for c in fresh.exported_columns]
    cols_stale = [c.name for c in stale.exported_columns]
    outer_fresh = sql(select(fresh.cte("y")))
    outer_stale = sql(select(stale.cte("y")))
    print(f"{ctor.__name__}: exported_columns fresh={cols_fresh} after-ancestor-was-inspected={cols_stale}")
    print("   fresh:", outer_fresh)
    print("   stale:", outer_stale)
    if cols_fresh != cols_stale:
        bad.append(f"{ctor.__name__}().returning(a).returning(b).exported_columns depends on whether the ancestor was inspected")
    if outer_fresh != outer_stale:
        bad.append(f"SQL of select({ctor.__name__}(...).returning(a).returning(b).cte()) depends on the ancestor's memoisation")

if bad:
    print("DEFECT PRESENT:")
    for b in bad:
        print("  -", b)
    sys.exit(1)
print("defect absent")
