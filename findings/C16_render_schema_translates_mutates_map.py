"""C16-R4 finding: IdentifierPreparer._render_schema_translates writes a "_none" alias key into the
CALLER's schema_translate_map; the stale alias keeps routing schema-less tables after the user removes
the None key (neither the documented InvalidRequestError nor the default schema).

Run:  cd /tmp && /venv/bin/python /verif/findings/C16_render_schema_translates_mutates_map.py
"""
import os
import tempfile

from sqlalchemy import Column, Integer, MetaData, Table, create_engine, event, select

tmp = tempfile.mkdtemp()
main, other = os.path.join(tmp, "main.db"), os.path.join(tmp, "other.db")
eng = create_engine("sqlite:///" + main)


@event.listens_for(eng, "connect")
def _attach(dbapi_conn, rec):
    dbapi_conn.execute("ATTACH DATABASE '%s' AS s1" % other)


m = MetaData()
t = Table("t", m, Column("x", Integer))  # no schema -> addressed through the None key

with eng.begin() as c:
    c.exec_driver_sql("CREATE TABLE main.t (x integer)")
    c.exec_driver_sql("CREATE TABLE s1.t (x integer)")
    c.exec_driver_sql("INSERT INTO main.t VALUES (1)")
    c.exec_driver_sql("INSERT INTO s1.t VALUES (2)")

user_map = {None: "s1"}
seen = []


@event.listens_for(eng, "before_cursor_execute")
def _log(conn, cursor, statement, parameters, context, executemany):
    seen.append(statement)


with eng.connect() as c:
    r1 = c.execution_options(schema_translate_map=user_map).execute(select(t.c.x)).scalar()
print("1st execution with {None: 's1'} ->", r1, "|", seen[-1].replace("\n", " "))
print("caller's map after the execution:", user_map)
mutated = "_none" in user_map

# the user now removes the None key: documented behaviour is an InvalidRequestError
# ("schema translate map which previously had `None` present as a key now no longer has it present")
del user_map[None]
stale = None
try:
    with eng.connect() as c:
        r2 = c.execution_options(schema_translate_map=user_map).execute(select(t.c.x)).scalar()
    stale = True
    print("2nd execution with the None key removed ->", r2, "|", seen[-1].replace("\n", " "))
except Exception as e:  # documented outcome
    stale = False
    print("2nd execution raised (documented):", type(e).__name__)

print()
if mutated:
    print("DEFECT: the caller's schema_translate_map was mutated (gained '_none')")
if stale:
    print("DEFECT: a map WITHOUT a None key silently routed the schema-less table to 's1' through the stale '_none' alias")
raise SystemExit(1 if (mutated or stale) else 0)
