"""C22-R2  sql/compiler.py::SQLCompiler.visit_clauselist:OPERATORS[clauselist.operator]
           sql/compiler.py::SQLCompiler.visit_unary:OPERATORS[unary.operator]
           sql/compiler.py::SQLCompiler.visit_unary:OPERATORS[unary.modifier]

visit_binary and visit_expression_clauselist translate a missing OPERATORS entry into
UnsupportedCompilationError; visit_clauselist and visit_unary index the table directly, so a construct the
constructors accept (ClauseList / UnaryExpression with an operator that has no generic rendering) makes
compile() raise a bare KeyError.

Run:  cd /tmp && /venv/bin/python /verif/findings/C22_operators_keyerror.py
"""
import sqlalchemy
from sqlalchemy import column
from sqlalchemy.sql import operators
from sqlalchemy.sql.elements import ClauseList, UnaryExpression

cases = [
    ("ClauseList(a, b, operator=custom_op('~~'))", lambda: ClauseList(column("a"), column("b"), operator=operators.custom_op("~~"))),
    ("ClauseList(a, b, operator=like_op)", lambda: ClauseList(column("a"), column("b"), operator=operators.like_op)),
    ("UnaryExpression(a, operator=like_op)", lambda: UnaryExpression(column("a"), operator=operators.like_op)),
    ("UnaryExpression(a, modifier=like_op)", lambda: UnaryExpression(column("a"), modifier=operators.like_op)),
    ("control: a.op('~~')(b)  (visit_binary)", lambda: column("a").op("~~")(column("b"))),
    ("control: BinaryExpression with getitem (guarded)", lambda: sqlalchemy.sql.elements.BinaryExpression(column("a"), column("b"), operators.getitem)),
]
bad = 0
for text, mk in cases:
    try:
        res = "compiled: " + str(mk().compile())
    except sqlalchemy.exc.SQLAlchemyError as e:
        res = f"documented error {type(e).__name__}"
    except Exception as e:  # noqa
        bad += 1
        res = f"{type(e).__module__}.{type(e).__name__}: {str(e)[:60]}   <-- internal error"
    print(f"{text:52} -> {res}")
print("DEFECT REPRODUCED" if bad else "not reproduced")
