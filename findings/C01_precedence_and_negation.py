"""C01 findings reproduced against the real library (run: cd /tmp && /venv/bin/python <this file>).

1. C01-R2: `~a.is_(b)` loses the negation (operator_lookup["is_"] declares negate_op=is_).
2. C01-R1: on SQLite `||` binds tighter than arithmetic, but `'a' || (1 + 1)` is rendered ungrouped
   and evaluates to 1 instead of 'a2' (executed).  Same class, rendering only (no backend offline):
   PostgreSQL `a || (b & c)` -> `a || b & c` (same level, left associative), MySQL `(a * b) ^ c` -> `a * b ^ c`
   (`^` binds tighter than `*` in MySQL).
"""
from sqlalchemy import Integer, String, column, create_engine, literal, select
from sqlalchemy.dialects import mysql, postgresql, sqlite

a, b = column("a"), column("b")
print("1.", a.is_(b), "| negated:", ~a.is_(b), "| negated is_not:", ~a.is_not(b))

e = create_engine("sqlite://")
expr = literal("a").concat(literal(1) + literal(1))
with e.connect() as c:
    sql = str(select(expr).compile(dialect=sqlite.dialect(), compile_kwargs={"literal_binds": True}))
    print("2. sqlite:", sql, "->", c.scalar(select(expr)), "(fully parenthesised form gives 'a2')")

x, y, z = column("x", Integer), column("y", Integer), column("z", Integer)
s = column("s", String)
print("   postgresql:", s.concat(y.bitwise_and(z)).compile(dialect=postgresql.dialect()))
print("   mysql:", (x * y).bitwise_xor(z).compile(dialect=mysql.dialect()))
