"""C10-R4  engine/result.py::ScalarResult.unique / MappingResult.unique,
           ext/asyncio/result.py::AsyncScalarResult.unique / AsyncMappingResult.unique  (:_unique_filter_state)

The row getters of a result (`_onerow_getter`, `_manyrow_getter`, `_iterator_getter`) are memoized closures that
capture `self._unique_filter_state` (and yield_per, post-creational filter, ...) when first used.  `Result.unique()`
and `AsyncResult.unique()` are `@_generative`, which for an InPlaceGenerative drops those memoizations; the
`unique()` of the four filtered views assign `self._unique_filter_state` without dropping them.  After one
`next()` / `fetchmany()` on the view, `.unique()` is therefore ignored by next()/fetchmany()/partitions() (but
honoured by all(), which is not memoized): duplicates are delivered although uniquing was requested.

Minimal fix: decorate the four methods with `@_generative` (as on Result / AsyncResult).

Run:  cd /tmp && /venv/bin/python /verif/findings/C10_filter_unique_keeps_memoized_getters.py
"""
import asyncio

from sqlalchemy.engine.result import IteratorResult, SimpleResultMetaData
from sqlalchemy.ext.asyncio.result import AsyncResult

DATA = ((1,), (1,), (2,), (2,), (3,))


def mk():
    return IteratorResult(SimpleResultMetaData(["a"]), iter(DATA))


def drain(s):
    out = []
    while True:
        try:
            out.append(next(s))
        except StopIteration:
            return out


def val(x):
    return x["a"] if hasattr(x, "keys") else (x[0] if isinstance(x, tuple) or hasattr(x, "_mapping") else x)


bad = 0
for kind in ("scalars", "mappings", "itself"):
    for how in ("next", "fetchmany", "partitions"):
        view = mk() if kind == "itself" else getattr(mk(), kind)()
        first = [val(next(view))]
        view.unique()
        if how == "next":
            rest = [val(x) for x in drain(view)]
        elif how == "fetchmany":
            rest = [val(x) for x in view.fetchmany(10)]
        else:
            rest = [val(x) for part in view.partitions(2) for x in part]
        ok = len(set(rest)) == len(rest)
        bad += not ok
        print(f"{kind:9s} next() -> {first}; unique(); {how:10s} -> {rest}" + ("" if ok else "   <-- duplicates after unique()"))


async def amain():
    global bad
    for kind in ("scalars", "mappings"):
        view = getattr(AsyncResult(mk()), kind)()
        first = [val(x) for x in await view.fetchmany(1)]
        view.unique()
        rest = [val(x) for x in await view.fetchmany(10)]
        ok = len(set(rest)) == len(rest)
        bad += not ok
        print(f"async {kind:9s} fetchmany(1) -> {first}; unique(); fetchmany(10) -> {rest}" + ("" if ok else "   <-- duplicates after unique()"))

asyncio.run(amain())
print("DEFECT REPRODUCED" if bad else "not reproduced")
