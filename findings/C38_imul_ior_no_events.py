"""C38-R1 reproduction: list.__imul__ and dict.__ior__ are not instrumented.

Run:  cd /tmp && /venv/bin/python /verif/findings/C38_imul_ior_no_events.py

`orm.collections._list_decorators()` has no `__imul__` and `_dict_decorators()` has no `__ior__`,
so the builtin implementations run on InstrumentedList / InstrumentedDict: membership changes,
no append/remove event fires, attribute history stays empty, backrefs are not updated and the
unit of work does not see the change.
"""
from sqlalchemy import ForeignKey, Integer, String, create_engine, event, inspect
from sqlalchemy.orm import DeclarativeBase, Mapped, Session, attribute_keyed_dict, mapped_column, relationship


class Base(DeclarativeBase):
    pass


class A(Base):
    __tablename__ = "a"
    id: Mapped[int] = mapped_column(Integer, primary_key=True)
    bs = relationship("B", back_populates="a")
    bd = relationship("D", collection_class=attribute_keyed_dict("name"), back_populates="a")


class B(Base):
    __tablename__ = "b"
    id: Mapped[int] = mapped_column(Integer, primary_key=True)
    a_id = mapped_column(ForeignKey("a.id"))
    a = relationship("A", back_populates="bs")


class D(Base):
    __tablename__ = "d"
    id: Mapped[int] = mapped_column(Integer, primary_key=True)
    name: Mapped[str] = mapped_column(String)
    a_id = mapped_column(ForeignKey("a.id"))
    a = relationship("A", back_populates="bd")


events = []
for attr in (A.bs, A.bd):
    event.listen(attr, "append", lambda t, v, i: events.append(("append", v)))
    event.listen(attr, "remove", lambda t, v, i: events.append(("remove", v)))

e = create_engine("sqlite://")
Base.metadata.create_all(e)
bad = 0
with Session(e) as s:
    a = A()
    b1, b2 = B(), B()
    a.bs = [b1, b2]
    a.bd = {"x": D(name="x")}
    s.add(a)
    s.commit()

    # ---- list *= 0 removes every member: plain list semantics, but no remove events
    a.bs  # load
    events.clear()
    a.bs *= 0
    hist = inspect(a).attrs.bs.history
    print("after `a.bs *= 0`: contents", list(a.bs), "events", events, "history", hist)
    print("   b1.a is still", b1.a, "(backref not updated)")
    if not events and b1.a is a and not hist.deleted:
        bad += 1
        print("   DEFECT: 2 members removed, 0 remove events, empty history, stale backref")
    s.flush()
    s.expire_all()
    print("   after flush + reload a.bs =", a.bs, "(rows still reference the parent)")

    # ---- list *= 2 duplicates members with no append events
    events.clear()
    a.bs *= 2
    print("after `a.bs *= 2`: len", len(a.bs), "events", events)
    if len(a.bs) == 4 and not events:
        bad += 1
        print("   DEFECT: 2 members added, 0 append events")
    s.rollback()

    # ---- dict |= adds / replaces members with no events
    a.bd
    events.clear()
    d_new, d_repl = D(name="y"), D(name="x")
    old_x = a.bd["x"]
    a.bd |= {"y": d_new, "x": d_repl}
    hist = inspect(a).attrs.bd.history
    print("after `a.bd |= {...}`: keys", sorted(a.bd), "events", events, "history", hist)
    print("   d_new.a =", d_new.a, " old_x.a =", old_x.a)
    if not events and d_new.a is None and old_x.a is a:
        bad += 1
        print("   DEFECT: 1 member added and 1 replaced, 0 events, backrefs not set/cleared")
    s.flush()
    print("   d_new persisted by flush?", inspect(d_new).persistent)

print("DEFECTS REPRODUCED:", bad)
raise SystemExit(1 if bad else 0)
