"""C25-R6 (pool/base.py::_finalize_fairy:no-touch-after-hand-back) -- genuine race, real library.

On the asyncio-dialect garbage-collection path (`is_gc_cleanup and pool._dialect.is_async`), `_finalize_fairy`
calls `fairy.detach()`, which hands the record back to the pool (`_do_return_conn`), then closes / terminates the
orphaned DBAPI connection -- and only THEN evaluates

    if connection_record and connection_record.fairy_ref is not None:
        connection_record.checkin()

After detach() the record's fairy_ref is None, so this is meant to be skipped.  But the record has been in the queue
since detach(): if another thread checks it out while the finalizer is still busy terminating the old connection
(a DBAPI call, not instantaneous), fairy_ref is that thread's weakref -> the finalizer checks the record in a
second time although the other thread holds it.  The next checkout gets the same record: one DBAPI connection,
two holders.

The schedule is forced without patching the library: the dialect's do_terminate() (called by
Pool._close_connection) blocks on an Event while the main thread checks out.
"""
import gc
import sys
import threading

from sqlalchemy import pool as pool_mod


class FakeConn:
    n = 0

    def __init__(self):
        FakeConn.n += 1
        self.id = FakeConn.n
        self.closed = False

    def close(self):
        self.closed = True

    def rollback(self):
        pass

    def __repr__(self):
        return f"<FakeConn #{self.id}{' closed' if self.closed else ''}>"


in_terminate = threading.Event()
go_on = threading.Event()


class FakeAsyncDialect:
    is_async = True
    has_terminate = True

    def do_rollback(self, c):
        c.rollback()

    def do_commit(self, c):
        pass

    def do_close(self, c):
        c.close()

    def do_terminate(self, c):
        in_terminate.set()
        go_on.wait(10)
        c.close()


p = pool_mod.QueuePool(FakeConn, pool_size=1, max_overflow=0, timeout=2)
p._dialect = FakeAsyncDialect()


def leak_one():
    c = p.connect()          # checked out and never closed: garbage collected below
    del c
    gc.collect()             # -> weakref callback -> _finalize_fairy(gc path) -> detach() -> do_terminate() blocks


import warnings
warnings.simplefilter("ignore")
t = threading.Thread(target=leak_one)
t.start()
assert in_terminate.wait(10), "finalizer did not reach do_terminate"
# the record is already back in the queue (detach() returned it); another holder takes it
c2 = p.connect()
rec = c2._connection_record
print("second holder:", c2.dbapi_connection, "record in_use =", rec.in_use)
go_on.set()
t.join()
print("after the gc finalizer finished: record in_use =", rec.in_use, "| pool:", p.status())
try:
    c3 = p.connect()
except Exception as e:  # clean behaviour: pool of size 1 is exhausted while c2 is out
    print("third checkout refused (expected):", type(e).__name__)
    print("PASS")
    sys.exit(0)
same = c3.dbapi_connection is c2.dbapi_connection
print("third checkout got", c3.dbapi_connection, "same DBAPI connection as the live second holder:", same)
print("FAIL: pool_size=1, max_overflow=0, yet two live checkouts"
      + (" share one DBAPI connection" if same else "") + f"; checkedout()={p.checkedout()}")
sys.exit(1)
