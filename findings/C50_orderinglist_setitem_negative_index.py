"""C50-R3 finding (unchanged tree): OrderingList.__setitem__ numbers the new entity with the RAW index.

    self._order_entity(int(index), entity, True)
    super().__setitem__(index, entity)

For a negative index (`bullets[-1] = b`, plain-list semantics: the last element) the entity is stored at
index len-1 but its position attribute is set to -1 (ordering_func(-1, self)).  position != index, the -1
is flushed, and `order_by position` returns the entity FIRST on reload.

Run:  cd /tmp && /venv/bin/python /verif/findings/C50_orderinglist_setitem_negative_index.py
"""
from sqlalchemy import Column, ForeignKey, Integer, String, create_engine
from sqlalchemy.ext.orderinglist import ordering_list
from sqlalchemy.orm import Session, declarative_base, relationship

Base = declarative_base()


class Slide(Base):
    __tablename__ = "slide"
    id = Column(Integer, primary_key=True)
    bullets = relationship("Bullet", order_by="Bullet.position", collection_class=ordering_list("position"),
                           cascade="all, delete-orphan")


class Bullet(Base):
    __tablename__ = "bullet"
    id = Column(Integer, primary_key=True)
    slide_id = Column(ForeignKey("slide.id"))
    position = Column(Integer)
    text = Column(String)


e = create_engine("sqlite://")
Base.metadata.create_all(e)
problems = []
with Session(e) as s:
    sl = Slide(bullets=[Bullet(text=t) for t in "abc"])
    s.add(sl)
    s.commit()
    sl.bullets[-1] = Bullet(text="z")          # replace the last bullet, as with a plain list
    mem = [(b.text, b.position) for b in sl.bullets]
    print("in memory :", mem)
    if [p for _, p in mem] != list(range(len(mem))):
        problems.append(f"positions {[p for _, p in mem]} != indexes {list(range(len(mem)))} after bullets[-1] = z")
    s.commit()
    want = [t for t, _ in mem]
with Session(e) as s:
    sl = s.query(Slide).one()
    got = [(b.text, b.position) for b in sl.bullets]
    print("reloaded  :", got)
    if [t for t, _ in got] != want:
        problems.append(f"reloaded order {[t for t, _ in got]} != in-memory order {want}")
if problems:
    print("DEFECT:", "; ".join(problems))
    raise SystemExit(1)
print("ok")
