"""C29-R6  ext/asyncio/result.py::AsyncResult.scalars:view-source[AsyncScalarResult]
           ext/asyncio/result.py::AsyncResult.mappings:view-source[AsyncMappingResult]

AsyncResult.scalars() / .mappings() build the filtered view from `self._real_result` (the wrapped sync
CursorResult); the view constructors copy `_unique_filter_state` and `_metadata` from that argument.  But
AsyncResult.unique() and AsyncResult.columns() store their state on the AsyncResult itself, never on the wrapped
result, so filters applied before scalars()/mappings() are silently dropped.  The sync API
(Result.scalars() -> ScalarResult(self, index)) keeps them, so the same program gives different rows:

    sync :  conn.execute(q).unique().scalars().all()            -> [1, 2]
    async:  (await conn.stream(q)).unique().scalars().all()     -> [1, 1, 2]
    sync :  conn.execute(q).columns(1).scalars().all()          -> ['a', 'a', 'b']
    async:  (await conn.stream(q)).columns(1).scalars().all()   -> [1, 1, 2]      (wrong column)

Run:  cd /tmp && /venv/bin/python /verif/findings/C29_async_view_drops_parent_filters.py
Exit 1 while the divergence exists, 0 when sync and asyncio agree.
"""
import asyncio

from sqlalchemy import create_engine, literal, select, union_all
from sqlalchemy.ext.asyncio import create_async_engine

q = union_all(
    select(literal(1).label("x"), literal("a").label("y")),
    select(literal(1), literal("a")),
    select(literal(2), literal("b")),
)

PROGRAMS = {
    "unique().scalars().all()": lambda r: r.unique().scalars().all(),
    "unique().mappings().all()": lambda r: r.unique().mappings().all(),
    "columns(1).scalars().all()": lambda r: r.columns(1).scalars().all(),
    "columns('y').mappings().all()": lambda r: r.columns("y").mappings().all(),
    "unique().all()  (control)": lambda r: r.unique().all(),
    "scalars().unique().all()  (control)": lambda r: r.scalars().unique().all(),
}


def norm(rows):
    return [dict(r) if hasattr(r, "keys") and not isinstance(r, (str, int)) and not hasattr(r, "_fields") else
            (tuple(r) if hasattr(r, "_fields") else r) for r in rows]


def run_sync():
    e = create_engine("sqlite://")
    out = {}
    with e.connect() as c:
        for name, prog in PROGRAMS.items():
            out[name] = norm(prog(c.execute(q)))
    return out


async def run_async():
    e = create_async_engine("sqlite+aiosqlite://")
    out = {}
    async with e.connect() as c:
        for name, prog in PROGRAMS.items():
            out[name] = norm(await prog(await c.stream(q)))
    await e.dispose()
    return out


s = run_sync()
a = asyncio.run(run_async())
bad = 0
for name in PROGRAMS:
    same = s[name] == a[name]
    bad += not same
    print(f"{'ok  ' if same else 'DIFF'} {name}\n       sync : {s[name]}\n       async: {a[name]}")
print(f"{bad} of {len(PROGRAMS)} programs differ between the sync and the asyncio API")
raise SystemExit(1 if bad else 0)
