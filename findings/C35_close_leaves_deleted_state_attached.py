"""C35-R6  orm/session.py::Session.expunge_all:detaches[self._transaction._deleted]

Documented state machine: "deleted" is a state *inside a transaction* -- "an instance which has been deleted within a
flush, but the transaction has not yet completed"; when the transaction ends the object becomes detached (commit) or
persistent again (rollback).  `Session.expunge_all()` is documented as "equivalent to calling expunge(obj) on all objects in
this Session".

Session._remove_newly_deleted() takes a flushed-as-deleted state OUT of the identity map and keeps it, still attached
(session_id set), only in `self._transaction._deleted`.  The one-object form knows that home: `_expunge_states` has the arm
`elif self._transaction: self._transaction._deleted.pop(state, None)` before it detaches.  `expunge_all()` collects
`self.identity_map.all_states() + list(self._new)` only.  `Session.close()` / `reset()` (`_close_impl`) = expunge_all() +
`transaction.close()` for every transaction -- which rolls the database transaction back but, unlike rollback(), restores no
snapshot.  Result: after delete + flush + close()

  * the object still reports `deleted` and `inspect(obj).session` is the closed session -- for a transaction that no longer
    exists, and although the DELETE was rolled back (the row is there);
  * neither deleted_to_detached nor deleted_to_persistent fired: the object never leaves the `deleted` state;
  * it cannot be used with another session ("Instance has been deleted" / "already attached to session").

Observation of round-2 seed agent C35 (notes/seed_agent_observations.md, "C35 (round 2)" 1).

Proposed minimal fix (makes expunge_all what its docstring says; verified in a scratch worktree: this script prints
"not reproduced", the object is `detached` after close() and deleted_to_detached fires, ./check C35 silent):

         all_states = self.identity_map.all_states() + list(self._new)
+        if self._transaction is not None:
+            # objects whose DELETE was flushed live only in the transaction's
+            # _deleted collection (see _expunge_states)
+            for trans in self._transaction._iterate_self_and_parents():
+                all_states.extend(
+                    s for s in list(trans._deleted) if s not in all_states
+                )
+                trans._deleted.clear()
         self.identity_map._kill()

(The object then is detached with was_deleted=True, as after a commit.  Because close() rolls the DELETE back, a closer
repair for `_close_impl` alone would first revert the deletions like rollback() does -- `_update_impl(s, revert_deletion=True)`
for the states of every transaction's `_deleted` -- and detach them as persistent; expunge_all() called by the user inside a
transaction still needs the lines above.)

Run:  cd /tmp && /venv/bin/python /verif/findings/C35_close_leaves_deleted_state_attached.py
"""
from sqlalchemy import Integer, create_engine, event, inspect, text
from sqlalchemy.orm import DeclarativeBase, Session, mapped_column, object_session


class Base(DeclarativeBase):
    pass


class T(Base):
    __tablename__ = "t"
    id = mapped_column(Integer, primary_key=True)


def lifecycle(o):
    i = inspect(o)
    return [k for k in ("transient", "pending", "persistent", "deleted", "detached") if getattr(i, k)]


e = create_engine("sqlite://")
Base.metadata.create_all(e)
with Session(e) as s0:
    s0.add(T(id=1))
    s0.commit()


def run(how):
    s = Session(e)
    events = []
    for name in ("persistent_to_deleted", "deleted_to_detached", "deleted_to_persistent", "persistent_to_detached"):
        event.listen(s, name, lambda sess, obj, name=name: events.append(name))
    o = s.get(T, 1)
    s.delete(o)
    s.flush()
    assert lifecycle(o) == ["deleted"]
    if how == "close()":
        s.close()
    elif how == "expunge_all()":
        s.expunge_all()
    else:  # the documented sibling: expunge(obj)
        s.expunge(o)
    st = lifecycle(o)
    print(f"  delete, flush, {how:14s} -> state {st}, attached to the session: {object_session(o) is s}, events after the flush: {events[1:]}")
    s.close()
    return st


print("one object, expunge(obj) (reference):")
ref = run("expunge(obj)")
print("all objects:")
a = run("expunge_all()")
b = run("close()")
with e.connect() as c:
    print("  row in the database after close() (the DELETE was rolled back):", c.execute(text("select count(*) from t")).scalar())
if ref == ["detached"] and (a == ["deleted"] or b == ["deleted"]):
    print("REPRODUCED: the object stays in the 'deleted' state, attached to a session whose transaction is gone; no lifecycle event fired")
elif ref == a == b == ["detached"]:
    print("not reproduced")
else:
    print("unexpected result")
