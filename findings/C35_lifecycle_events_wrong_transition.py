"""C35-R3  orm/session.py::Session._update_impl:deleted_to_persistent
C35-R3  orm/state.py::InstanceState._detach_states:[detach,key=None,_deleted]
C35-R3  orm/state.py::InstanceState._detach_states:[to_transient,key=None,_deleted]

(1) `deleted_to_persistent` is documented as "occurs only when an object that's been deleted successfully in
    a flush is restored due to a call to Session.rollback(); not called under any other circumstances".
    SessionTransaction._restore_snapshot calls Session._update_impl(s, revert_deletion=True) for every state in
    `session._deleted` too -- objects merely MARKED for deletion and never flushed, i.e. still persistent --
    and _update_impl fires the event on its `elif revert_deletion:` arm whether or not `_deleted` was set.
    => a persistent -> persistent "transition" is announced as deleted -> persistent.

(2) InstanceState._detach_states(to_transient=True) (rollback of an object that was added in the rolled-back
    transaction) deletes `state.key` but leaves `state._deleted` True when the object had also been deleted and
    flushed in that transaction.  The object is then transient with `_deleted` still set -- a combination the
    five lifecycle predicates do not expect:
      * the rollback itself announces `deleted_to_detached` although the object becomes TRANSIENT;
      * when the object is added to a session again it is pending with `was_deleted == True`, and expunging it
        announces `deleted_to_detached` (a pending -> transient move), `pending_to_transient` never fires.

Run:  cd /tmp && /venv/bin/python /verif/findings/C35_lifecycle_events_wrong_transition.py
"""
import inspect as _inspect
import textwrap

from sqlalchemy import Integer, create_engine, event, inspect
from sqlalchemy.orm import DeclarativeBase, Session, mapped_column
from sqlalchemy.orm import session as session_mod
from sqlalchemy.orm import state as state_mod


class Base(DeclarativeBase):
    pass


class A(Base):
    __tablename__ = "a"
    id = mapped_column(Integer, primary_key=True)


NAMES = [
    "transient_to_pending", "pending_to_transient", "persistent_to_transient", "pending_to_persistent",
    "detached_to_persistent", "loaded_as_persistent", "persistent_to_deleted", "deleted_to_persistent",
    "deleted_to_detached", "persistent_to_detached",
]


def lifecycle(st):
    return [k for k in ("transient", "pending", "persistent", "deleted", "detached") if getattr(st, k)]


def listen(sess, log):
    for name in NAMES:
        def mk(name):
            def fn(s, inst):
                log.append((name, "now " + "/".join(lifecycle(inspect(inst)))))
            return fn
        event.listen(sess, name, mk(name))


def run():
    e = create_engine("sqlite://")
    Base.metadata.create_all(e)
    problems = []
    # ---- (1)
    s = Session(e)
    log = []
    listen(s, log)
    a = A(id=1)
    s.add(a)
    s.commit()
    a.id
    del log[:]
    s.delete(a)                       # marked only; no flush -> still persistent
    before = lifecycle(inspect(a))
    s.rollback()
    print("(1) delete() without flush, then rollback(): state before", before, "after", lifecycle(inspect(a)))
    print("    events:", log)
    if any(n == "deleted_to_persistent" for n, _ in log):
        problems.append("deleted_to_persistent fired for an object that never left the persistent state")
    s.close()
    # ---- (2)
    s = Session(e)
    log = []
    listen(s, log)
    b = A(id=2)
    s.add(b)
    s.flush()
    s.delete(b)
    s.flush()
    del log[:]
    s.rollback()
    st = inspect(b)
    print("(2) add+flush+delete+flush, then rollback(): state", lifecycle(st), "key", st.key, "_deleted", st._deleted)
    print("    events:", log)
    if st.transient and st._deleted:
        problems.append("transient object keeps _deleted=True after rollback")
    if ("deleted_to_detached", "now transient") in log:
        problems.append("deleted_to_detached announced for an object that became transient")
    s2 = Session(e)
    log2 = []
    listen(s2, log2)
    s2.add(b)
    print("    re-added: state", lifecycle(st), "was_deleted", st.was_deleted)
    s2.expunge(b)
    print("    expunged: state", lifecycle(st), "events:", log2)
    if any(n == "deleted_to_detached" for n, _ in log2) or not any(n == "pending_to_transient" for n, _ in log2):
        problems.append("expunging a PENDING object announced deleted_to_detached instead of pending_to_transient")
    return problems


print("== unchanged library ==")
p1 = run()
for p in p1:
    print("  PROBLEM:", p)

# ---- proposed minimal fixes, applied to the loaded classes only (library files are not modified)
src = textwrap.dedent(_inspect.getsource(session_mod.Session._update_impl))
assert src.count("    if state._deleted:\n        if revert_deletion:") == 1 and src.count("    elif revert_deletion:\n") == 1
src = src.replace("    if state._deleted:\n        if revert_deletion:", "    was_deleted = state._deleted\n    if state._deleted:\n        if revert_deletion:", 1)
src = src.replace("    elif revert_deletion:\n", "    elif revert_deletion and was_deleted:\n", 1)
ns = {}
exec(compile("from __future__ import annotations\n" + src, "<patched _update_impl>", "exec"), session_mod.__dict__, ns)
session_mod.Session._update_impl = ns["_update_impl"]

src = textwrap.dedent(_inspect.getsource(state_mod.InstanceState._detach_states.__func__))
assert src.count("            del state.key\n") == 1
src = src.replace("            del state.key\n", "            del state.key\n            if deleted:\n                del state._deleted\n", 1)
ns = {}
exec(compile("from __future__ import annotations\n" + src, "<patched _detach_states>", "exec"), state_mod.__dict__, ns)
state_mod.InstanceState._detach_states = ns["_detach_states"]

print("== with the proposed fixes ==")
p2 = run()
for p in p2:
    print("  PROBLEM:", p)
print()
print("DEFECT REPRODUCED" if len(p1) >= 4 and len(p2) <= 1 else "not reproduced as expected")
