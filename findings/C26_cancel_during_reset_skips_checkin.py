"""C26 / C25 (observation "C29 (round 2)" of the seed agents) -- unchanged library, pool/base.py::_finalize_fairy

    except BaseException as e:
        pool.logger.error("Exception during reset or similar", exc_info=True)
        if connection_record:
            connection_record.invalidate(e=e)
        if not isinstance(e, Exception):
            raise                      # <- leaves _finalize_fairy
    ...
    if connection_record and connection_record.fairy_ref is not None:
        connection_record.checkin()    # <- never reached for CancelledError / KeyboardInterrupt / GreenletExit

When the reset-on-return (rollback, `reset` event hooks) of a connection that is being returned raises a BaseException that
is not an Exception -- asyncio.CancelledError when the task is cancelled / times out while the driver awaits the rollback,
KeyboardInterrupt, greenlet.GreenletExit -- the record is invalidated but NOT checked in: `fairy_ref` stays set,
`_do_return_conn` never runs, QueuePool's overflow / queue accounting never gets the slot back.  The fairy is gone
(`_ConnectionFairy._checkin` sets `dbapi_connection = None` first), so nobody can return it later; the weakref callback
of the fairy is the only thing that may still do it, and for an async dialect it refuses to touch the record's connection.

Property clauses: C26 "errors during reset or close ... once every holder has released its connection the pool reports zero
checked-out connections"; C25 "its checked-out count equals the number of live checkouts"; C29 "if a task is cancelled ...
the connection is returned to the pool exactly once ... later operations on the engine work".

Part 1 (sync, informational): a `reset` pool event hook raises CancelledError / KeyboardInterrupt: the slot is lost until the closed
Connection object is garbage collected (the fairy's weakref callback then checks the record in).
Part 2 (asyncio + aiosqlite, the defect): a task is cancelled while the reset-on-return of `async with session.begin()` is awaiting:
the slot is lost for good -- pool.checkedout() stays 1 after the task ended and after gc.collect(), the next connect() times out.

Proposed minimal fix (pool/base.py, _finalize_fairy): check the record in before re-raising,
            if not isinstance(e, Exception):
    +            if connection_record and connection_record.fairy_ref is not None:
    +                connection_record.checkin()
                 raise
(or move the check-in into the `finally:` of the try).

Run:  cd /tmp && /venv/bin/python /verif/findings/C26_cancel_during_reset_skips_checkin.py
"""
import asyncio
import gc

from sqlalchemy import create_engine, event, exc, text
from sqlalchemy.pool import AsyncAdaptedQueuePool, QueuePool

bad = 0

# ---------------------------------------------------------------- part 1: sync
for boom in (asyncio.CancelledError, KeyboardInterrupt):
    e = create_engine("sqlite://", poolclass=QueuePool, pool_size=1, max_overflow=0, pool_timeout=0.5)
    armed = []

    @event.listens_for(e, "reset")
    def _reset(dbapi_conn, record, reset_state, boom=boom, armed=armed):
        if armed:
            armed.pop()
            raise boom()

    c = e.connect()
    c.execute(text("select 1"))
    armed.append(1)
    try:
        c.close()
        got = "nothing raised"
    except BaseException as err:  # noqa
        got = type(err).__name__
    held = e.pool.checkedout()       # close() was called: the holder is gone, but the Connection object is still referenced
    del c
    gc.collect()
    out = e.pool.checkedout()        # sync dialect: the fairy's weakref callback checks the record in after all
    try:
        with e.connect() as c2:
            c2.execute(text("select 1"))
        later = "works"
    except exc.TimeoutError:
        later = "TimeoutError: QueuePool limit reached"
    print(f"sync, {boom.__name__} during reset: close() -> {got}; pool.checkedout() = {held} while the closed Connection object is referenced, "
          f"{out} after it was garbage collected; next connect(): {later}")
    if out != 0 or later != "works":
        bad += 1                     # (not expected: the garbage collector repairs the sync case)
    e.dispose()

# ---------------------------------------------------------------- part 2: asyncio
try:
    import aiosqlite  # noqa
    from sqlalchemy.ext.asyncio import AsyncSession, create_async_engine
    from sqlalchemy.util import await_only
except ImportError:  # pragma: no cover
    aiosqlite = None

if aiosqlite is not None:
    async def main():
        global bad
        eng = create_async_engine("sqlite+aiosqlite://", poolclass=AsyncAdaptedQueuePool, pool_size=1, max_overflow=0, pool_timeout=0.5)
        in_reset = asyncio.Event()
        slow = []

        @event.listens_for(eng.sync_engine, "reset")
        def _reset(dbapi_conn, record, reset_state):
            if slow:
                slow.pop()
                in_reset.set()
                await_only(asyncio.sleep(0.5))     # stands for a rollback that takes a while on the wire

        async def work():
            async with AsyncSession(eng) as s:
                async with s.begin():
                    await s.execute(text("select 1"))
                    slow.append(1)
                # leaving begin(): COMMIT, the connection goes back to the pool: reset-on-return -> awaits

        t = asyncio.ensure_future(work())
        await in_reset.wait()
        t.cancel()
        try:
            await t
            got = "finished"
        except asyncio.CancelledError:
            got = "CancelledError"
        gc.collect()
        out = eng.pool.checkedout()
        try:
            async with eng.connect() as c:
                await c.execute(text("select 1"))
            later = "works"
        except exc.TimeoutError:
            later = "TimeoutError: QueuePool limit reached"
        print(f"asyncio, task cancelled during reset-on-return: task -> {got}; holders: 0; pool.checkedout() = {out}; next connect(): {later}")
        if out != 0 or later != "works":
            bad += 1
        await eng.dispose()

    asyncio.run(main())

print()
print("DEFECT REPRODUCED" if bad else "not reproduced")
