"""C07-R6  sql/compiler.py::SQLCompiler._process_parameters_for_postcompile:expanded-names-checked-against-existing

The elements of an expanding IN parameter `<name>` are bound as `<name>_1 .. <name>_N`.  Anonymous bind names have
the same shape `<column>_<counter>`, and nothing compares the generated names with the names already used by the
statement: with columns `x` and `x_1`, `x IN (1, 2)` uses the parameter `x_1` and expands to `x_1_1, x_1_2`,
while `x_1 = 7` uses the anonymous parameter `x_1_1`.  `parameters.update(to_update)` silently replaces the value
of the other parameter and the statement returns the wrong rows (on every paramstyle; no error is raised).

Minimal fix (fail loudly instead of silently, in _process_parameters_for_postcompile before
`parameters.update(to_update)`; a full fix would pick non-colliding names):

+                    for _k, _ in to_update:
+                        if _k in self.binds and _k != name:
+                            raise exc.CompileError(
+                                "Expanded parameter name %r for IN parameter %r conflicts with "
+                                "another bind parameter of the same name" % (_k, name))
                     parameters.update(to_update)

Run:  cd /tmp && /venv/bin/python /verif/findings/C07_expanded_name_collision.py
"""
from sqlalchemy import Column, Integer, MetaData, Table, create_engine, or_, select
from sqlalchemy.dialects import postgresql

e = create_engine("sqlite://")
m = MetaData()
t = Table("t", m, Column("id", Integer, primary_key=True), Column("x", Integer), Column("x_1", Integer))
m.create_all(e)
bad = 0
with e.begin() as c:
    c.execute(t.insert(), [dict(id=1, x=1, x_1=7), dict(id=2, x=2, x_1=1), dict(id=3, x=5, x_1=7)])
    want = [r[0] for r in c.execute(select(t.c.id).where(or_(t.c.x == 1, t.c.x == 2)).where(t.c.x_1 == 7))]
    for label, stmt in (
        ("x IN (1, 2) AND x_1 = 7", select(t.c.id).where(t.c.x.in_([1, 2])).where(t.c.x_1 == 7)),
        ("x_1 = 7 AND x IN (1, 2)", select(t.c.id).where(t.c.x_1 == 7).where(t.c.x.in_([1, 2]))),
    ):
        got = [r[0] for r in c.execute(stmt)]
        flag = "" if got == want else f"   <-- WRONG, OR-of-equalities gives {want}"
        bad += got != want
        print(f"sqlite  {label}: {got}{flag}")
    stmt = select(t.c.id).where(t.c.x.in_([1, 2])).where(t.c.x_1 == 7)
    comp = stmt.compile(dialect=postgresql.dialect())
    st = comp.construct_expanded_state()
    print("postgresql:", st.statement.replace("\n", " "), "| parameters:", dict(st.parameters))
    bad += len(st.parameters) != 3
print("DEFECT REPRODUCED" if bad else "not reproduced")
