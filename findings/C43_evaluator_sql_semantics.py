"""C43 reproduction: the Python evaluator used by synchronize_session='evaluate' disagrees with SQL.

Run:  cd /tmp && /venv/bin/python /verif/findings/C43_evaluator_sql_semantics.py

For each case a bulk UPDATE ... WHERE <criteria> SET flag=1 is executed with
synchronize_session='evaluate' on SQLite; afterwards the in-session object's `flag` is compared with
the value actually stored.  A mismatch means the session was silently desynchronised (the documented
contract is: evaluate faithfully or raise).

  R2  visit_and_clauselist_op returns None at the first NULL:  NOT (NULL AND FALSE) must be TRUE
      (x = 5 AND id = 0 with x NULL; a literal false() would be folded away at construction time)
  R3  mod: Python % takes the sign of the divisor, SQL of the dividend
  R3  NOT IN with a NULL element is NULL (never true) in SQL, True in Python; IN with a NULL element is
      NULL (not FALSE) for a non-member, which shows under NOT (... OR ...)
  R3  startswith/endswith: '%' and '_' in the operand are LIKE wildcards in SQL, literals in Python; with
      autoescape=True / escape= the operand handed to Python is the escaped pattern (database row updated, object not)
  R4  UPDATE applies SET values to objects whose criteria could not be decided (expired attribute)
  R4  a SET expression that reads an expired attribute stores the _ExpiredObject sentinel as the value
"""
from sqlalchemy import Integer, String, and_, create_engine, not_, or_, select, update
from sqlalchemy.orm import DeclarativeBase, Mapped, Session, mapped_column


class Base(DeclarativeBase):
    pass


class A(Base):
    __tablename__ = "a"
    id: Mapped[int] = mapped_column(Integer, primary_key=True)
    x = mapped_column(Integer, nullable=True)
    n = mapped_column(Integer, nullable=True)
    s = mapped_column(String, nullable=True)
    flag = mapped_column(Integer, default=0)
    y = mapped_column(Integer, nullable=True)


e = create_engine("sqlite://")
Base.metadata.create_all(e)

CASES = [
    ("C43-R2 NOT (x = 5 AND id = 0), x NULL", dict(x=None), lambda: not_(and_(A.x == 5, A.id == 0))),
    ("C43-R3 mod of a negative number: n % 3 = 2, n = -1", dict(n=-1), lambda: A.n % 3 == 2),
    ("C43-R3 mod of a negative number: n % 3 = -1, n = -1", dict(n=-1), lambda: A.n % 3 == -1),
    ("C43-R3 x NOT IN (1, NULL), x = 2", dict(x=2), lambda: A.x.not_in([1, None])),
    ("C43-R3 NOT (x IN (1, NULL) OR id = 0), x = 2", dict(x=2), lambda: not_(or_(A.x.in_([1, None]), A.id == 0))),
    ("C43-R3 startswith('a%c'), s = 'abbbc-tail'", dict(s="abbbc-tail"), lambda: A.s.startswith("a%c")),
    ("C43-R3 startswith('a_c'), s = 'abc'", dict(s="abc"), lambda: A.s.startswith("a_c")),
    ("C43-R3 endswith('a_c'), s = 'xabc'", dict(s="xabc"), lambda: A.s.endswith("a_c")),
    # round 2 (seed-agent observation C08/2, C43): with autoescape / escape the operand the evaluator receives is the
    # ESCAPED pattern ('a/_b'), which str.startswith compares literally: the row matches in SQL, never in Python
    ("C43-R3 startswith('a_b', autoescape=True), s = 'a_bc'", dict(s="a_bc"), lambda: A.s.startswith("a_b", autoescape=True)),
    ("C43-R3 endswith('50%', autoescape=True), s = 'rate 50%'", dict(s="rate 50%"), lambda: A.s.endswith("50%", autoescape=True)),
    ("C43-R3 startswith('a^_b', escape='^'), s = 'a_bc'", dict(s="a_bc"), lambda: A.s.startswith("a^_b", escape="^")),
]

bad = 0
for label, attrs, crit in CASES:
    with Session(e) as s:
        s.query(A).delete()
        a = A(id=1, flag=0, **attrs)
        s.add(a)
        s.commit()
        a.flag, a.x, a.n, a.s  # load everything
        try:
            s.execute(update(A).where(crit()).values(flag=1), execution_options={"synchronize_session": "evaluate"})
        except Exception as err:  # raising is the documented alternative
            print(f"{label}: raised {type(err).__name__} (acceptable)")
            continue
        mem = a.__dict__.get("flag")
        db = s.execute(select(A.__table__.c.flag)).scalar()
        verdict = "ok" if mem == db else "DEFECT (session desynchronised)"
        if mem != db:
            bad += 1
        print(f"{label}: in-session flag={mem} database flag={db}  {verdict}")

# ---- R4: expired attribute in the criteria: condition unknown, values applied anyway
with Session(e) as s:
    s.query(A).delete()
    a = A(id=1, x=1, y=5, flag=0)
    s.add(a)
    s.commit()
    a.x, a.y
    s.expire(a, ["x"])
    s.execute(update(A).where(A.x == 2).values(y=10), execution_options={"synchronize_session": "evaluate"})
    db = s.execute(select(A.__table__.c.y)).scalar()
    mem = a.y  # (an expired attribute would simply be reloaded here: that is a correct outcome)
    wrong = not (type(mem) is type(db) and mem == db)
    print(f"C43-R4 UPDATE WHERE x = 2 (x expired, row has x = 1): in-session y={mem} database y={db}",
          "DEFECT" if wrong else "ok")
    bad += int(wrong)
    s.rollback()
    a.x, a.y
    s.expire(a, ["x"])
    s.execute(update(A).where(A.id == 1).values(y=A.x + 1), execution_options={"synchronize_session": "evaluate"})
    db = s.execute(select(A.__table__.c.y)).scalar()
    mem = a.y  # (an expired attribute would simply be reloaded here: that is a correct outcome)
    wrong = not (type(mem) is type(db) and mem == db)
    print(f"C43-R4 UPDATE SET y = x + 1 (x expired): in-session y={mem!r} database y={db}",
          "DEFECT (internal sentinel stored as attribute value)" if wrong else "ok")
    bad += int(wrong)

print("DEFECTS REPRODUCED:", bad)
raise SystemExit(1 if bad else 0)
