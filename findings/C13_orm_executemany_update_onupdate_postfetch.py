"""C13-R6 finding: ORM flush, executemany UPDATE: every object receives the FIRST row's
Python-side onupdate value, while the database stored one value per row.

orm/persistence.py::_emit_update_statements has three branches.  The two "one execute() per
record" branches hand `c.context.compiled_parameters[0]` to `_postfetch` -- correct, the
statement ran for that record alone.  The executemany branch (records with identical
parameter keys, no RETURNING / version id needed) runs ONE `connection.execute(statement,
multiparams)` and then loops over the records, but still hands `compiled_parameters[0]` to
`_postfetch` for each of them.  `_postfetch` copies the prefetched (client-side default /
onupdate) values from that parameter set onto the object, so with a per-row callable /
context-sensitive `onupdate` all objects of the batch end up with the first row's value in
memory, although `DefaultExecutionContext._process_execute_defaults` invoked the callable once
per row and each row stored its own value.

Sibling paths do it right: `_emit_insert_statements` zips the records with
`result.context.compiled_parameters`, `_emit_post_update_statements` indexes
`compiled_parameters[i]` with the record's position.

Property clause violated (C13): "Returned defaults ... equal what was stored" (ORM, executemany).

Minimal fix (orm/persistence.py, executemany branch of _emit_update_statements):

-                for (
-                    state,
-                    state_dict,
-                    params,
-                    mapper,
-                    connection,
-                    value_params,
-                    has_all_defaults,
-                    has_all_pks,
-                ) in records:
+                for (
+                    state,
+                    state_dict,
+                    params,
+                    mapper,
+                    connection,
+                    value_params,
+                    has_all_defaults,
+                    has_all_pks,
+                ), compiled_params in zip(
+                    records, c.context.compiled_parameters
+                ):
                     if bookkeeping:
                         _postfetch(
                             mapper,
                             uowtransaction,
                             table,
                             state,
                             state_dict,
                             c,
-                            c.context.compiled_parameters[0],
+                            compiled_params,
                             value_params,

Run:  cd /tmp && /venv/bin/python /verif/findings/C13_orm_executemany_update_onupdate_postfetch.py
Exit status 1 = defect reproduced, 0 = not reproduced.
"""
import itertools
import sys

from sqlalchemy import Column, Integer, String, create_engine, select
from sqlalchemy.orm import Session, declarative_base

Base = declarative_base()
ctr = itertools.count(100)


class A(Base):
    __tablename__ = "a"
    id = Column(Integer, primary_key=True)
    x = Column(String)
    # per-row callable: every invocation yields a new value
    stamp = Column(Integer, default=lambda: next(ctr), onupdate=lambda: next(ctr))


e = create_engine("sqlite://")
Base.metadata.create_all(e)
bad = False
with Session(e, expire_on_commit=False) as s:
    objs = [A(id=i, x="a") for i in (1, 2, 3)]
    s.add_all(objs)
    s.flush()  # executemany INSERT: zip(records, compiled_parameters) -> correct
    mem = [o.stamp for o in objs]
    db = [r[0] for r in s.execute(select(A.stamp).order_by(A.id))]
    print(f"INSERT  in-memory {mem}  stored {db}  {'ok' if mem == db else 'MISMATCH'}")
    bad |= mem != db

    for o in objs:
        o.x = "b"
    s.flush()  # executemany UPDATE: compiled_parameters[0] for every record
    mem = [o.stamp for o in objs]
    db = [r[0] for r in s.execute(select(A.stamp).order_by(A.id))]
    print(f"UPDATE  in-memory {mem}  stored {db}  {'ok' if mem == db else 'MISMATCH'}")
    bad |= mem != db

if bad:
    print("DEFECT: objects updated in one executemany batch carry the first row's onupdate value, "
          "not the value stored for their own row")
    sys.exit(1)
print("not reproduced")
