"""C02-R6 finding: OracleCompiler._render_json_extract_from_binary renders the JSON path with literal_binds=True.

`t.c.data["a"]` and `t.c.data["b"]` differ only in a bound value, which is extracted from the cache key, so the
two statements have EQUAL cache keys -- but the Oracle compiler writes the path of the statement that populates
the compiled cache into Compiled.string.  A later statement with another path gets a cache hit and runs the
first statement's SQL.  Every other forced-inline site of the statement compilers uses literal_execute
(post-compile token, filled per execution), e.g. MSSQLCompiler.visit_aggregate_strings_func.

Drives the real cache protocol (ClauseElement._compile_w_cache + construct_params) with the real Oracle
dialect; no database needed.   run: cd /tmp && /venv/bin/python <this file>    (exit 1 = defect present)
"""
import sys

from sqlalchemy import JSON, Column, Integer, MetaData, Table, select
from sqlalchemy.dialects import oracle

m = MetaData()
t = Table("t", m, Column("id", Integer, primary_key=True), Column("data", JSON))
dialect = oracle.dialect()
cache = {}


def execute_sql(stmt, compiled_cache):
    """what Connection._execute_clauseelement does up to building the string that is sent to the DBAPI"""
    compiled, extracted, _pd, hit = stmt._compile_w_cache(
        dialect, compiled_cache=compiled_cache, column_keys=[], for_executemany=False, schema_translate_map=None
    )
    params = compiled.construct_params(extracted_parameters=extracted, escape_names=False)
    sql = str(compiled)
    if compiled.literal_execute_params or compiled.post_compile_params:
        sql = compiled._process_parameters_for_postcompile(params).statement
    return " ".join(sql.split()), hit.name


bad = 0
for what, mk in (
    ("index", lambda k: select(t.c.data[k].as_string())),
    ("path", lambda k: select(t.c.data[("x", k)].as_integer())),
):
    s1, s2 = mk("a"), mk("b")
    assert s1._generate_cache_key() == s2._generate_cache_key()
    print(f"-- {what}: cache keys of the two statements are equal")
    w1 = execute_sql(s1, cache)
    w2 = execute_sql(s2, cache)
    c2 = execute_sql(s2, None)
    print("   stmt 'a' warm :", *w1)
    print("   stmt 'b' warm :", *w2)
    print("   stmt 'b' cold :", *c2)
    if w2[0] != c2[0]:
        bad += 1
        print("   DEFECT: with the compiled cache the second statement runs the first statement's JSON path")
print("FAIL" if bad else "PASS")
sys.exit(1 if bad else 0)
