"""C56-R3 finding (pre-existing, unchanged library): parts of the upsert clause are rendered without the caller's
compile keywords, although the sibling parts of the same clause (and the sibling dialects) forward them.

  * MySQLCompiler.visit_on_duplicate_key_update renders every SET value with
        self.process(val.self_group(), use_schema=False, is_upsert_set=True)            # no **kw
    (PostgreSQL / SQLite: `self.process(value.self_group(), is_upsert_set=True, **set_kw)` with set_kw = dict(kw)).
  * PGCompiler._on_conflict_target and SQLiteCompiler._on_conflict_target render the conflict-target elements with
        self.process(c, include_table=False, use_schema=False)                           # no **kw
    while the target's WHERE predicate two lines below is rendered with dict(kw) + flags.

Observable consequence: compile flags stop at those parts.  With compile_kwargs={"literal_binds": True} (what
`print(stmt.compile(..., compile_kwargs={"literal_binds": True}))`, Alembic's offline `--sql` mode and SQL logging
helpers use to get an executable script) the VALUES are rendered inline but the upsert clause keeps bound-parameter
placeholders whose values are nowhere in the script: the emitted SQL is not executable / not the statement.

    cd /tmp && /venv/bin/python /verif/findings/C56_upsert_clause_drops_compile_kwargs.py
Exit status 1 = defect reproduced, 0 = not reproduced.
"""
import re
import sys

from sqlalchemy import Column, Integer, MetaData, String, Table, func
from sqlalchemy.dialects import mysql, postgresql, sqlite
from sqlalchemy.dialects.mysql import insert as my_insert
from sqlalchemy.dialects.postgresql import insert as pg_insert
from sqlalchemy.dialects.sqlite import insert as sl_insert

m = MetaData()
t = Table("t", m, Column("id", Integer, primary_key=True), Column("a", String), Column("b", Integer))
LIT = {"literal_binds": True}
PLACEHOLDER = re.compile(r"%s|%\(\w+\)s|\?|__\[POSTCOMPILE")
bad = []


def show(label, stmt, dialect):
    sql = str(stmt.compile(dialect=dialect, compile_kwargs=LIT)).replace("\n", " ")
    left = PLACEHOLDER.findall(sql)
    print(f"{label:<34}: {sql}")
    if left:
        bad.append(label)
        print(f"{'':<34}  ^ placeholder(s) {left} survive literal_binds=True")


s = my_insert(t).values(id=1, a="x")
s = s.on_duplicate_key_update(a="y", b=s.inserted.b + 5)
show("mysql ON DUPLICATE KEY SET", s, mysql.dialect())

s = pg_insert(t).values(id=1, a="x")
s = s.on_conflict_do_update(index_elements=[func.coalesce(t.c.a, "zz")], index_where=t.c.b > 3,
                            set_=dict(a="y", b=s.excluded.b + 5), where=t.c.b > 7)
show("postgresql conflict target", s, postgresql.dialect())

s = sl_insert(t).values(id=1, a="x")
s = s.on_conflict_do_nothing(index_elements=[func.coalesce(t.c.a, "zz")])
show("sqlite conflict target", s, sqlite.dialect())

# the parts that do forward **kw, for comparison
s = pg_insert(t).values(id=1, a="x")
s = s.on_conflict_do_update(index_elements=[t.c.id], index_where=t.c.b > 3, set_=dict(a="y", b=s.excluded.b + 5), where=t.c.b > 7)
show("postgresql (parts that forward)", s, postgresql.dialect())

if bad:
    print("DEFECT REPRODUCED in:", ", ".join(bad))
    sys.exit(1)
print("not reproduced")
