"""C32-R9  orm/session.py::Session._expunge_states:pending-and-registered

(seed-agent observation "C32 (round 2)": FlushError 'NULL identity key' partway through Session._register_persistent)

Session._register_persistent() -- called by UOWTransaction.finalize_flush_changes() after all statements of a flush were
emitted -- promotes the pending objects one by one: `state.key = instance_key; self.identity_map.replace(state)`, and only
after the loop (and after _commit_all_states, _register_altered and the pending_to_persistent hooks) removes them from
`Session._new`.  It can be left by an exception in between:
  (a) its own `raise exc.FlushError("Instance ... has a NULL identity key")` for a later state of the same loop,
  (b) a `pending_to_persistent` event hook that raises (C32 quantifies over "exceptions raised from flush events").
The states handled before the exception are then pending (in Session._new) AND registered (in the identity map).
Session.rollback() -> _restore_snapshot() -> `_expunge_states(set(self._new) | session._new, to_transient=True)` treats
the two memberships as exclusive (`if state in self._new: pop ... elif identity_map.contains_state(state): safe_discard`):
the state is taken out of _new, keeps its identity-map entry, and _detach_states(to_transient=True) deletes its key.  Then
the expire-all pass of _restore_snapshot (`for s in identity_map.all_states(): s._expire(...)`) wipes the attribute values
of these objects -- which are transient now and can never be refreshed.

Observed on the unchanged library:
  * objects added in the failed transaction are transient but EMPTY (`obj.name` raises DetachedInstanceError),
  * the identity map keeps entries for rows that were rolled back (and `InstanceState._cleanup` later trips an
    AssertionError in `_fast_discard` when they are garbage collected),
  * repeating the same work (`add_all` the same objects, commit) fails with
    "Instance ... cannot be refreshed - it's not persistent and does not contain a full primary key" or inserts NULLs.

Proposed minimal fix (verified in a scratch worktree: this script prints 0 problems; test/orm/test_session.py
test_transaction.py test_events.py test_unitofworkv2.py test_naturalpks.py test_session_state_change.py test_cascade.py:
1027 passed, 80 skipped; ./check C32 exit 0 on the fixed tree, C33 / C34 report exactly what they report on the
unchanged tree):

         for state in states:
             if state in self._new:
                 self._new.pop(state)
+                # a flush that failed while registering its objects
+                # (_register_persistent) leaves pending states that are
+                # already filed in the identity map
+                if self.identity_map.contains_state(state):
+                    self.identity_map.safe_discard(state)
             elif self.identity_map.contains_state(state):

Run:  cd /tmp && /venv/bin/python /verif/findings/C32_failed_registration_keeps_new_objects_in_identity_map.py
"""
import gc
import sys
import warnings

from sqlalchemy import Column, Integer, String, create_engine, event, inspect, text
from sqlalchemy.orm import Session, declarative_base

Base = declarative_base()


class A(Base):
    __tablename__ = "a"
    id = Column(Integer, primary_key=True)
    name = Column(String)


class B(Base):
    __tablename__ = "b"
    code = Column(String, primary_key=True, nullable=True)
    name = Column(String)


def state_of(o):
    i = inspect(o)
    for n in ("transient", "pending", "persistent", "deleted", "detached"):
        if getattr(i, n):
            return n
    return "?"


def visible(o):
    return {k: v for k, v in o.__dict__.items() if not k.startswith("_")}


def engine():
    e = create_engine("sqlite://")
    with e.begin() as c:
        c.execute(text("create table a (id integer primary key, name varchar)"))
        # the database accepts a NULL "primary key" value, so the INSERT itself succeeds
        c.execute(text("create table b (code varchar, name varchar)"))
    return e


problems = []


def check_after_rollback(label, s, objs):
    for o in objs:
        if state_of(o) != "transient":
            problems.append(f"{label}: {o.__class__.__name__}({visible(o)}) is {state_of(o)} after rollback, expected transient")
        if "name" not in o.__dict__:
            try:
                o.name
                what = "was expired"
            except Exception as err:  # noqa: BLE001
                what = f"`.name` raises {type(err).__name__}"
            problems.append(f"{label}: a new object lost its attribute values in the rollback ({what}; __dict__={visible(o)})")
    n_rows = s.execute(text("select count(*) from a")).scalar()
    if len(s.identity_map) != n_rows:
        problems.append(f"{label}: table a has {n_rows} rows but the identity map holds {len(s.identity_map)} entries: {list(s.identity_map.keys())}")


def variant_null_identity_key():
    s = Session(engine())
    objs = [A(name=f"a{i}") for i in range(6)]
    b = B(code=None, name="b")
    s.add_all(objs + [b])
    try:
        s.flush()
    except Exception as err:  # noqa: BLE001
        print("  flush raised", type(err).__name__, "-", str(err)[:60], "...")
    else:
        problems.append("null-key: flush did not fail (scenario not reached)")
    s.rollback()
    check_after_rollback("null-key", s, objs)
    # rerun the same work with the offending value corrected
    b.code = "b1"
    try:
        s.add_all(objs + [b])
        s.commit()
        rows = s.execute(text("select name from a order by id")).scalars().all()
        if rows != [f"a{i}" for i in range(6)]:
            problems.append(f"null-key: the rerun wrote {rows}, a failure-free run writes {[f'a{i}' for i in range(6)]}")
    except Exception as err:  # noqa: BLE001
        problems.append(f"null-key: the rerun fails: {type(err).__name__}: {str(err)[:120]}")
    s.close()


def variant_event_hook():
    s = Session(engine())

    def boom(session, obj):
        raise RuntimeError("pending_to_persistent hook failed")

    event.listen(s, "pending_to_persistent", boom)
    objs = [A(name=f"a{i}") for i in range(3)]
    s.add_all(objs)
    try:
        s.flush()
    except RuntimeError as err:
        print("  flush raised", type(err).__name__, "-", err)
    s.rollback()
    check_after_rollback("event-hook", s, objs)
    event.remove(s, "pending_to_persistent", boom)
    try:
        s.add_all(objs)
        s.commit()
        rows = s.execute(text("select name from a order by id")).scalars().all()
        if rows != ["a0", "a1", "a2"]:
            problems.append(f"event-hook: the rerun wrote {rows}, a failure-free run writes ['a0', 'a1', 'a2']")
    except Exception as err:  # noqa: BLE001
        problems.append(f"event-hook: the rerun fails: {type(err).__name__}: {str(err)[:120]}")
    s.close()


if __name__ == "__main__":
    warnings.simplefilter("ignore")
    print("variant (a): FlushError 'NULL identity key' raised partway through _register_persistent")
    # `states` is a set: how many objects are registered before the offending one is visited depends on their addresses
    for _trial in range(20):
        before = len(problems)
        variant_null_identity_key()
        if len(problems) > before:
            break
    print("variant (b): pending_to_persistent hook raises")
    variant_event_hook()
    gc.collect()
    for p in problems:
        print("PROBLEM:", p)
    print(f"{len(problems)} problem(s)")
    sys.exit(1 if problems else 0)
