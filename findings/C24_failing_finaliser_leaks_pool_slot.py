"""Observation on the UNCHANGED library (reported by the round-2 seed agent of C24, reproduced by str2-k).

Not a violation of C24 (the connection whose isolation-level reset failed is never handed out again), but of pool
accounting (C25 territory): when a connection-characteristics finaliser raises inside _ConnectionRecord.checkin(), the
exception leaves checkin() before pool._return_conn(self): the record is neither returned nor invalidated, the pool
slot is lost for good.  After pool_size + max_overflow such failures every checkout times out.

Run:  cd /tmp && /venv/bin/python /verif/findings/C24_failing_finaliser_leaks_pool_slot.py
Expected (defect present): prints the growing "Checked out connections" although nothing is checked out, then
"DEFECT: checkout failed with TimeoutError", exit 1.

Minimal fix (same policy as _finalize_fairy's `reset failure -> invalidate`; verified on a scratch worktree: this script
and the seed's demo pass, C24 stays silent -- C24-R4 `:finaliser-failure-not-pooled` accepts it because the record is
invalidated before _return_conn, see R.mutant benign-checkin-failing-finaliser-invalidated-returned-reraised):

    --- a/lib/sqlalchemy/pool/base.py
    +++ b/lib/sqlalchemy/pool/base.py
    @@ def checkin(self, _fairy_was_created: bool = True) -> None:
    -        while self.finalize_callback:
    -            finalizer = self.finalize_callback.pop()
    -            if connection is not None:
    -                finalizer(connection)
    +        try:
    +            while self.finalize_callback:
    +                finalizer = self.finalize_callback.pop()
    +                if connection is not None:
    +                    finalizer(connection)
    +        except BaseException as err:
    +            # the connection was not reset: don't pool it, but release
    +            # the pool slot
    +            self.finalize_callback.clear()
    +            self.invalidate(e=err)
    +            pool._return_conn(self)
    +            raise
"""
import logging
import sqlite3
import sys

from sqlalchemy import create_engine, text
from sqlalchemy.pool import QueuePool

logging.disable(logging.CRITICAL)


class Cur:
    def __init__(self, cur, owner):
        self._cur, self._owner = cur, owner

    def execute(self, sql, *a):
        if self._owner.fail_next_reset and sql.startswith("PRAGMA read_uncommitted = 0"):
            self._owner.fail_next_reset = False
            raise sqlite3.OperationalError("injected: disk I/O error")
        return self._cur.execute(sql, *a)

    def __getattr__(self, k):
        return getattr(self._cur, k)

    def __iter__(self):
        return iter(self._cur)


class Conn:
    def __init__(self, real):
        object.__setattr__(self, "_real", real)
        object.__setattr__(self, "fail_next_reset", False)

    def cursor(self, *a, **kw):
        return Cur(self._real.cursor(*a, **kw), self)

    def __getattr__(self, k):
        return getattr(self._real, k)

    def __setattr__(self, k, v):
        if k in ("_real", "fail_next_reset"):
            object.__setattr__(self, k, v)
        else:
            setattr(self._real, k, v)


def main():
    e = create_engine("sqlite://", creator=lambda: Conn(sqlite3.connect(":memory:", check_same_thread=False)),
                      poolclass=QueuePool, pool_size=1, max_overflow=1, pool_timeout=1)
    for i in range(2):
        c = e.connect().execution_options(isolation_level="READ UNCOMMITTED")
        c.execute(text("select 1"))
        c.commit()
        c.connection.dbapi_connection.fail_next_reset = True
        try:
            c.close()
        except Exception as ex:
            print(f"close #{i + 1} raised {type(ex).__name__} (fine: the failure is reported to the user)")
        del c
        print("   pool:", e.pool.status())
    try:
        with e.connect() as c2:
            print("checkout ok, isolation level", c2.get_isolation_level())
    except Exception as ex:
        print("DEFECT: checkout failed with", type(ex).__name__, "-", str(ex)[:90])
        return 1
    print("no defect: the slots of the two failed check-ins were released")
    return 0


if __name__ == "__main__":
    sys.exit(main())
