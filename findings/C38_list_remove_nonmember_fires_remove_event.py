"""C38-R7  orm/collections.py::_list_decorators.remove:remove-member-only

The instrumented list `remove(value)` fires the remove event BEFORE the underlying list.remove() and without
testing membership (its siblings set.remove / set.discard / dict.__delitem__ test `x in self` first;
list.__delitem__ reads `self[index]`, which raises for a bad index before any event):

    def remove(self, value, _sa_initiator=None):
        __del(self, value, _sa_initiator, NO_KEY)      # <- fire_remove_event(value)
        fn(self, value)                                 # <- raises ValueError when value is not a member

For a value that is not in the collection the call raises ValueError exactly like list -- but the remove
event has already been delivered: user `remove` listeners run and CollectionAttributeImpl.fire_remove_event
marks the object as having NO parent for this relationship (sethasparent(False)).  C38: "the append/remove
events it fires account exactly for the items added and removed".

Consequence shown below (delete-orphan): `p1.children.remove(c)` fails with ValueError because c belongs to
p2.children; c is still a member of p2.children, yet as soon as c is flushed for any other reason its row is
DELETEd as an orphan.

Minimal fix (sibling agreement with set.remove/discard and dict.__delitem__):

     def remove(self, value, _sa_initiator=None):
    -    __del(self, value, _sa_initiator, NO_KEY)
    +    # testlib.pragma exempt:__eq__
    +    if value in self:
    +        __del(self, value, _sa_initiator, NO_KEY)
         # testlib.pragma exempt:__eq__
         fn(self, value)

Run:  cd /tmp && /venv/bin/python /verif/findings/C38_list_remove_nonmember_fires_remove_event.py   (exit 1 = defect present)
"""
import sys

from sqlalchemy import Column, ForeignKey, Integer, create_engine, event, text
from sqlalchemy.orm import Session, declarative_base, relationship

Base = declarative_base()


class P(Base):
    __tablename__ = "p"
    id = Column(Integer, primary_key=True)
    children = relationship("C", cascade="all, delete-orphan")


class C(Base):
    __tablename__ = "c"
    id = Column(Integer, primary_key=True)
    pid = Column(ForeignKey("p.id"))
    data = Column(Integer)


events = []


@event.listens_for(P.children, "remove")
def _removed(target, value, initiator):
    events.append(value)


bad = []
e = create_engine("sqlite://")
Base.metadata.create_all(e)
with Session(e) as s:
    p1, p2, c = P(), P(), C()
    p2.children.append(c)
    s.add_all([p1, p2])
    s.commit()
    p1.children, p2.children  # load both collections

    plain = list(p1.children)
    try:
        plain.remove(c)
        plain_exc = None
    except ValueError as err:
        plain_exc = err
    try:
        p1.children.remove(c)  # c is NOT a member of p1.children
        coll_exc = None
    except ValueError as err:
        coll_exc = err
    print("plain list:", repr(plain_exc), "| instrumented:", repr(coll_exc))
    if type(plain_exc) is not type(coll_exc):
        bad.append("exception differs from list")
    print("remove events fired:", len(events), "(members that left the collection: 0)")
    if events:
        bad.append(f"{len(events)} remove event(s) fired although nothing was removed")
    print("c still in p2.children:", c in p2.children)

    c.data = 5  # any unrelated change that makes c part of the next flush
    s.commit()
    rows = s.execute(text("select id, pid from c")).all()
    print("c rows after commit:", rows, "(expected [(1, 2)])")
    if rows != [(1, 2)]:
        bad.append("row of c was DELETEd as an orphan although c is still in p2.children")

if bad:
    print("DEFECT:", "; ".join(bad))
    sys.exit(1)
print("ok")
