"""C56-R4 finding (pre-existing, unchanged library): SQLiteCompiler._on_conflict_target renders the elements of the
conflict target with `self.process(c, include_table=False, use_schema=False)` -- without literal_execute=True,
which the sibling rendering of the target's WHERE predicate (index_where) does pass for exactly this reason.

SQLite matches ON CONFLICT (<target>) against a unique *expression* index only when the expression text is
inline; a `?` never matches.  So for a table with  CREATE UNIQUE INDEX ix ON t (coalesce(a, 'zz'))  the
documented way of naming the conflict target,
    insert(t).on_conflict_do_update(index_elements=[func.coalesce(t.c.a, "zz")], set_=...)
renders  ON CONFLICT (coalesce(a, ?))  and the real SQLite backend refuses it with
"ON CONFLICT clause does not match any PRIMARY KEY or UNIQUE constraint", while the same statement with the
literal inline performs the upsert.  (on_conflict_do_nothing is affected in the same way.)

    cd /tmp && /venv/bin/python /verif/findings/C56_sqlite_conflict_target_expression_bound.py
Exit status 1 = defect reproduced, 0 = not reproduced.
"""
import sys

from sqlalchemy import Column, Index, Integer, MetaData, String, Table, create_engine, func, select, text
from sqlalchemy.dialects.sqlite import insert

m = MetaData()
t = Table("t", m, Column("id", Integer, primary_key=True), Column("a", String), Column("b", Integer))
Index("ix_t_a_or_zz", func.coalesce(t.c.a, "zz"), unique=True)

e = create_engine("sqlite://")
m.create_all(e)
bad = False
with e.begin() as conn:
    conn.execute(insert(t).values(id=1, a="x", b=5))
    stmt = insert(t).values(id=2, a="x", b=6)
    stmt = stmt.on_conflict_do_update(
        index_elements=[func.coalesce(t.c.a, "zz")],
        set_=dict(b=stmt.excluded.b + 1),
    )
    print("rendered :", str(stmt.compile(dialect=e.dialect)).replace("\n", " "))
    try:
        conn.execute(stmt)
        print("library  : executed, rows =", conn.execute(select(t)).all())
    except Exception as ex:  # noqa: BLE001
        bad = True
        print("library  : FAILED ->", type(ex).__name__, str(ex).split("\n")[0])
    # the same statement with the target expression inline (what literal_execute=True would render)
    conn.execute(text(
        "INSERT INTO t (id, a, b) VALUES (2, 'x', 6) "
        "ON CONFLICT (coalesce(a, 'zz')) DO UPDATE SET b = (excluded.b + 1)"
    ))
    print("inline   : executed, rows =", conn.execute(select(t)).all(), "(expected [(1, 'x', 7)])")

    stmt2 = insert(t).values(id=3, a="x", b=9).on_conflict_do_nothing(index_elements=[func.coalesce(t.c.a, "zz")])
    try:
        conn.execute(stmt2)
        print("do_nothing: executed")
    except Exception as ex:  # noqa: BLE001
        bad = True
        print("do_nothing: FAILED ->", type(ex).__name__, str(ex).split("\n")[0])

    # sibling that is right: the WHERE predicate of the target is rendered inline (literal_execute=True)
    s3 = insert(t).values(id=4, a="q", b=1)
    s3 = s3.on_conflict_do_update(index_elements=[t.c.id], index_where=t.c.b > 3, set_=dict(b=2))
    print("sibling  :", str(s3.compile(dialect=e.dialect)).replace("\n", " "))

if bad:
    print("DEFECT REPRODUCED: a literal inside a conflict-target expression is bound, SQLite cannot match the unique index")
    sys.exit(1)
print("not reproduced")
