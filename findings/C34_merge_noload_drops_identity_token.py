"""C34-R10  orm/session.py::Session._merge:token-follows-key

A state's `identity_token` must be the third component of its `key`: `Mapper._identity_key_from_state(state)` re-computes
the key as (class, pk, state.identity_token) and `Session._register_persistent` takes a difference to `state.key` for a
primary-key switch.  The loader (`state.key = identitykey; state.identity_token = identity_token`) and
`InstanceState.__setstate__` (`self.identity_token = self.key[2]`) keep the two together; the `load=False` arm of
`Session._merge` does not: `merged_state.key = key` copies the key (class, pk, token) of the given object onto the new
instance and leaves `merged_state.identity_token` at the class default None.

History: load row 1 with identity_token="shard1", close the session, `merge(obj, load=False)` into a second session
(the documented way to move cached objects into a Session), change a plain attribute, flush.  The flush re-files the
merged object under (A, (1,), None).  `session.get(A, 1, identity_token="shard1")` then misses the identity map, emits a
SELECT and returns a SECOND object for the row; a query with the token does the same.

Proposed minimal fix (orm/session.py, Session._merge, `elif not load:` arm):
                 merged_state.key = key
    +            merged_state.identity_token = key[2]

Run:  cd /tmp && /venv/bin/python /verif/findings/C34_merge_noload_drops_identity_token.py
"""
from sqlalchemy import Column, Integer, String, create_engine, event, inspect, select
from sqlalchemy.orm import Session, declarative_base

Base = declarative_base()


class A(Base):
    __tablename__ = "a"
    id = Column(Integer, primary_key=True)
    data = Column(String)


e = create_engine("sqlite://")
Base.metadata.create_all(e)
with Session(e) as s:
    s.add(A(id=1, data="x"))
    s.commit()

tok = "shard1"
stmt = select(A).where(A.id == 1)
s1 = Session(e)
a = s1.execute(stmt, execution_options={"identity_token": tok}).scalar_one()
s1.close()
print("detached object:      key", inspect(a).key[1:], " identity_token", repr(inspect(a).identity_token))

s2 = Session(e)
m = s2.merge(a, load=False)
st = inspect(m)
print("merge(load=False):    key", st.key[1:], " identity_token", repr(st.identity_token))
m.data = "changed"
s2.flush()
print("after flush:          identity map keys", [k[1:] for k in s2.identity_map.keys()])

sql = []
event.listen(e, "before_cursor_execute", lambda c, cur, stt, p, ctx, em: sql.append(stt))
got = s2.get(A, 1, identity_token=tok)
n_get = len(sql)
again = s2.execute(stmt, execution_options={"identity_token": tok}).scalar_one()
same_row = [o for o in s2.identity_map.values() if o.id == 1]
print(f"get(A, 1, identity_token={tok!r}): emitted {n_get} SELECT(s), returned the merged object: {got is m}")
print(f"query with the token returns the merged object: {again is m}; objects for row 1 in this Session: {len(same_row)}")
bad = st.identity_token != st.key[2] or n_get or got is not m or again is not m or len(same_row) != 1
print()
print("DEFECT REPRODUCED" if bad else "not reproduced")
