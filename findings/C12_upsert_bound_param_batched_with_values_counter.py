"""C12-R4 finding (pre-existing, unchanged library): SQLCompiler._deliver_insertmanyvalues_batches selects
row-at-a-time for a statement whose upsert SET clause holds a per-row bound parameter
(imv.has_upsert_bound_parameters, issue #13130) only when `not imv.embed_values_counter`.

With RETURNING(sort_by_parameter_order=True) and a server-generated (autoincrement) primary key on PostgreSQL the
INSERT is rendered as  INSERT .. SELECT .. FROM (VALUES (.., 0), (.., 1), ..) ORDER BY sen_counter  with
embed_values_counter=True, the guard is false, all rows are batched into ONE statement, and its single
`DO UPDATE SET data = %(newdata)s` receives only the FIRST parameter set's value.

The real PostgreSQL dialect is driven over a minimal fake DBAPI that records what reaches cursor.execute().
    cd /tmp && /venv/bin/python /verif/findings/C12_upsert_bound_param_batched_with_values_counter.py
"""
import re
import sys

from sqlalchemy import Column, Integer, MetaData, String, Table, bindparam, create_engine
from sqlalchemy.dialects import registry
from sqlalchemy.dialects.postgresql import insert
from sqlalchemy.dialects.postgresql.base import PGDialect

CALLS = []


class Cursor:
    arraysize = 1
    description = None
    rowcount = -1

    def __init__(self):
        self._rows = []

    def execute(self, stmt, params=None):
        CALLS.append((stmt, params))
        m = re.search(r"RETURNING (.*)$", stmt, re.S)
        if m:
            cols = [c.strip() for c in m.group(1).split(", ")]
            self.description = [(c.split(".")[-1].split(" AS ")[-1], None, None, None, None, None, None) for c in cols]
            nrows = max(1, len(re.findall(r"\(%\(", stmt.split("ON CONFLICT")[0].split("VALUES", 1)[1])))
            self._rows = [tuple(i + 1 for _ in cols) for i in range(nrows)]
            self.rowcount = nrows

    def executemany(self, stmt, seq):
        for p in seq:
            self.execute(stmt, p)

    def fetchall(self):
        r, self._rows = self._rows, []
        return r

    def fetchone(self):
        return self._rows.pop(0) if self._rows else None

    def fetchmany(self, size=None):
        return self.fetchall()

    def close(self):
        pass

    def setinputsizes(self, *a):
        pass


class Connection:
    autocommit = False

    def cursor(self, *a, **k):
        return Cursor()

    def commit(self):
        pass

    def rollback(self):
        pass

    def close(self):
        pass


class DBAPI:
    paramstyle = "pyformat"
    apilevel = "2.0"
    threadsafety = 1

    class Error(Exception):
        pass

    @staticmethod
    def connect(*a, **k):
        return Connection()


class FakePG(PGDialect):
    driver = "fakepg"
    default_paramstyle = "pyformat"
    supports_statement_cache = True

    @classmethod
    def import_dbapi(cls):
        return DBAPI

    def create_connect_args(self, url):
        return [], {}


registry.register("postgresql.fakepg", __name__, "FakePG")


def run(sort):
    CALLS.clear()
    e = create_engine("postgresql+fakepg://", _initialize=False)
    m = MetaData()
    t = Table("t", m, Column("id", Integer, primary_key=True), Column("name", String, unique=True), Column("data", String))
    stmt = insert(t)
    stmt = stmt.on_conflict_do_update(index_elements=["name"], set_={"data": bindparam("newdata")})
    stmt = stmt.returning(t.c.name, sort_by_parameter_order=sort)
    params = [{"name": "k%d" % i, "data": "ins%d" % i, "newdata": "upd%d" % i} for i in range(3)]
    with e.connect() as conn:
        conn.execute(stmt, params)
    delivered = set()
    for s, p in CALLS:
        print("   ", " ".join(s.split())[:200])
        print("      ", p)
        delivered |= {v for v in (p or {}).values() if isinstance(v, str) and v.startswith("upd")}
    return sorted(delivered)


bad = False
for sort in (False, True):
    print("RETURNING(sort_by_parameter_order=%s)" % sort)
    got = run(sort)
    ok = got == ["upd0", "upd1", "upd2"]
    print("   SET values that reached the DBAPI:", got, "(expected upd0, upd1, upd2)", "" if ok else " <-- DEFECT")
    bad |= not ok
sys.exit(1 if bad else 0)
