"""C14-R4 finding (unchanged tree): sort_tables_and_constraints' cycle handler discards the ordering pair
(referred table, table) of a constraint that it leaves inline.

Rule key: C14-R4 sql/ddl.py::sort_tables_and_constraints:cycle-handler:edge-kept-for-inline-constraints

MetaData.drop_all() on an ALTER-capable backend calls the sort with
    filter_fn = lambda c: False if (not supports_alter or c.name is None) else None
i.e. an UNNAMED foreign key can not be dropped with ALTER TABLE DROP CONSTRAINT and must be honoured by the
table order.  In the CircularDependencyError handler only the constraints with `filter_fn(fkc) is not False`
are deferred, but for each of them the pair (fkc.referred_table, table) is discarded -- a pair that an unnamed
sibling constraint to the SAME referred table also needs.  Result: the referenced table is dropped while the
unnamed constraint still points at it.  A valid order exists (and is found once the pair is kept).

    documents.created_by -> users.id   (named:   dropped by ALTER)
    documents.updated_by -> users.id   (unnamed: stays, needs documents dropped BEFORE users)
    users.primary_doc_id -> documents.id (named: dropped by ALTER; this breaks the cycle)

Run:  cd /tmp && /venv/bin/python /verif/findings/C14_drop_all_inline_fk_loses_ordering.py
Exit 1 = defect reproduced, 0 = not reproduced.
"""

import re
import sys

from sqlalchemy import Column, ForeignKey, ForeignKeyConstraint, Integer, MetaData, Table
from sqlalchemy.dialects import postgresql
from sqlalchemy.engine.mock import MockConnection
from sqlalchemy.sql.ddl import sort_tables_and_constraints


class Refused(Exception):
    pass


class Catalog:
    """the part of PostgreSQL that matters here: a table cannot be dropped while a foreign key of another
    table references it; a constraint can be dropped by name"""

    fk_re = re.compile(r"(?:CONSTRAINT (\S+) )?FOREIGN KEY\(([^)]*)\) REFERENCES (\S+) \(")

    def __init__(self):
        self.dialect = postgresql.dialect()
        self.tables = {}
        self.log = []

    def connection(self):
        return MockConnection(self.dialect, self.execute)

    def execute(self, ddl, *a, **kw):
        stmt = " ".join(str(ddl.compile(dialect=self.dialect)).split())
        self.log.append(stmt)
        m = re.match(r"CREATE TABLE (\S+) \(", stmt)
        if m:
            fks = [[n, c, r] for n, c, r in self.fk_re.findall(stmt)]
            for _, _, ref in fks:
                if ref != m.group(1) and ref not in self.tables:
                    raise Refused('relation "%s" does not exist' % ref)
            self.tables[m.group(1)] = fks
            return
        m = re.match(r"ALTER TABLE (\S+) ADD (.*)", stmt)
        if m:
            for fk in ([n, c, r] for n, c, r in self.fk_re.findall(m.group(2))):
                if fk[2] not in self.tables:
                    raise Refused('relation "%s" does not exist' % fk[2])
                self.tables[m.group(1)].append(fk)
            return
        m = re.match(r"ALTER TABLE (\S+) DROP CONSTRAINT (\S+)", stmt)
        if m:
            self.tables[m.group(1)] = [fk for fk in self.tables[m.group(1)] if fk[0] != m.group(2)]
            return
        m = re.match(r"DROP TABLE (\S+)", stmt)
        if m:
            name = m.group(1)
            for other, fks in self.tables.items():
                if other != name and any(fk[2] == name for fk in fks):
                    raise Refused("cannot drop table %s because other objects depend on it (constraint on table %s)" % (name, other))
            del self.tables[name]
            return
        raise Refused("unhandled: " + stmt)


def build():
    m = MetaData()
    Table(
        "documents", m,
        Column("id", Integer, primary_key=True),
        Column("created_by", Integer),
        Column("updated_by", Integer),
        ForeignKeyConstraint(["created_by"], ["users.id"], name="fk_doc_created_by"),
        ForeignKeyConstraint(["updated_by"], ["users.id"]),  # unnamed
    )
    Table(
        "users", m,
        Column("id", Integer, primary_key=True),
        Column("primary_doc_id", Integer, ForeignKey("documents.id", name="fk_user_primary_doc")),
    )
    return m


def main():
    bad = 0
    m = build()
    # 1. the sort itself, with drop_all's filter: `documents` keeps an inline (unnamed) FK to `users`,
    #    so `users` must be sorted before `documents`
    res = sort_tables_and_constraints(
        list(m.tables.values()), filter_fn=lambda c: False if c.name is None else None
    )
    order = [t.name for t, _ in res if t is not None]
    inline = {t.name: sorted(str(c.elements[0].parent.name) for c in fkcs) for t, fkcs in res if t is not None}
    print("sort order :", order)
    print("inline FKs :", inline)
    if inline["documents"] and order.index("users") > order.index("documents"):
        print("DEFECT: documents keeps inline FK(s) %s -> users but is sorted before users" % inline["documents"])
        bad = 1
    # 2. end to end
    cat = Catalog()
    conn = cat.connection()
    m.create_all(conn, checkfirst=False)
    n = len(cat.log)
    try:
        m.drop_all(conn, checkfirst=False)
        print("drop_all ok:", cat.log[n:])
    except Refused as e:
        print("DEFECT: drop_all fails on an enforcing backend:", e)
        for s in cat.log[n:]:
            print("    ", s)
        print("a valid order exists: DROP CONSTRAINT fk_user_primary_doc, fk_doc_created_by; DROP TABLE documents; DROP TABLE users")
        bad = 1
    sys.exit(bad)


if __name__ == "__main__":
    main()
