"""C45-R6 finding: Session.merge_all() calls Session._merge() without disabling autoflush.

Session.merge() wraps its _merge() call in `with self.no_autoflush:`; loading.merge_frozen_result() does the same and
loading.merge_result() sets session.autoflush = False / restores it in `finally`.  Session.merge_all() -- documented
as "Calls Session.merge() on multiple instances" -- does not.  While _merge() copies the attributes of a NEW (pending)
merged instance property by property, a relationship property makes it call Session.get() for the related object;
with autoflush left on, that query flushes the half-populated pending instance.  Mapper properties are iterated in
sorted-key order, so every column whose attribute name sorts after the relationship's name is still missing:
the INSERT fails for NOT NULL columns (and for nullable ones an INSERT with NULLs followed by an UPDATE is emitted).

Run:  cd /tmp && /venv/bin/python /verif/findings/C45_merge_all_autoflushes_half_merged_instance.py
Expected (correct) behaviour: both calls succeed and emit only SELECTs while merging.
"""

from sqlalchemy import ForeignKey, String, create_engine, event
from sqlalchemy.orm import DeclarativeBase, Mapped, Session, mapped_column, relationship


class Base(DeclarativeBase):
    pass


class A(Base):
    __tablename__ = "a"
    id: Mapped[int] = mapped_column(primary_key=True)
    bs: Mapped[list["B"]] = relationship(cascade="all")  # "bs" sorts before "name"
    name: Mapped[str] = mapped_column(String, nullable=False)


class B(Base):
    __tablename__ = "b"
    id: Mapped[int] = mapped_column(primary_key=True)
    a_id: Mapped[int] = mapped_column(ForeignKey("a.id"))


engine = create_engine("sqlite://")
Base.metadata.create_all(engine)
print("property iteration order of A:", [p.key for p in A.__mapper__.iterate_properties])


def run(how: str, pk: int) -> bool:
    stmts = []

    def before_cursor_execute(conn, cursor, statement, parameters, context, executemany):
        stmts.append(statement.split()[0])

    event.listen(engine, "before_cursor_execute", before_cursor_execute)
    ok = True
    with Session(engine) as s:
        graph = A(id=pk, name="x", bs=[B(id=pk * 10)])
        try:
            if how == "merge":
                merged = s.merge(graph)
            else:
                (merged,) = s.merge_all([graph])
            print(f"{how:9s}: ok, name={merged.name!r}; statements emitted while merging: {stmts}")
        except Exception as e:  # noqa: BLE001
            ok = False
            print(f"{how:9s}: FAILED with {type(e).__name__}: {str(e).splitlines()[0][:150]}")
            print(f"           statements emitted while merging: {stmts}")
        s.rollback()
    event.remove(engine, "before_cursor_execute", before_cursor_execute)
    return ok


a = run("merge", 1)
b = run("merge_all", 2)
if a and not b:
    print("DEFECT: the same object graph merges with Session.merge() but not with Session.merge_all() "
          "(premature autoflush of the half-merged pending instance)")
    raise SystemExit(1)
print("no difference observed")
