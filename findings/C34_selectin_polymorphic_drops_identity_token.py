"""C34 observation (no rule decides it -- see notes/str-o.md): loading._load_subclass_via_in

The secondary SELECT of `polymorphic_load="selectin"` / selectin_polymorphic() is executed with
`context.session.execute(q2, {"primary_keys": [...]})` -- without any execution options of the query that triggered it.
On a plain Session used with identity tokens (`execution_options(identity_token=...)`) the secondary rows get the key
(cls, pk, None), miss the identity map and are loaded into NEW objects: for a moment the session holds two objects for
one row, the objects the query returned never receive their subclass columns (each attribute access later costs a
SELECT).  (ShardedSession is not affected: its execute hook re-runs the secondary query per shard with the shard's token.)
Other secondary loaders (selectinload, immediateload, lazy loads) do not forward the token on a plain Session either, but
they load OTHER rows; only this one re-loads the rows of the primary query.

Run:  cd /tmp && /venv/bin/python /verif/findings/C34_selectin_polymorphic_drops_identity_token.py
"""
from sqlalchemy import Column, ForeignKey, Integer, String, create_engine, event, inspect, select
from sqlalchemy.orm import Session, declarative_base

Base = declarative_base()


class P(Base):
    __tablename__ = "p"
    id = Column(Integer, primary_key=True)
    type = Column(String)
    __mapper_args__ = {"polymorphic_on": type, "polymorphic_identity": "p"}


class C(P):
    __tablename__ = "c"
    id = Column(Integer, ForeignKey("p.id"), primary_key=True)
    cdata = Column(String)
    __mapper_args__ = {"polymorphic_identity": "c", "polymorphic_load": "selectin"}


e = create_engine("sqlite://")
Base.metadata.create_all(e)
with Session(e) as s:
    s.add(C(id=1, cdata="cd"))
    s.commit()

loaded = []
event.listen(P, "load", lambda target, ctx: loaded.append(target), propagate=True)
res = {}
for tok in (None, "t"):
    del loaded[:]
    s = Session(e)
    objs = s.execute(select(P), execution_options={} if tok is None else {"identity_token": tok}).scalars().all()
    res[tok] = (len(loaded), "cdata" in objs[0].__dict__)
    print(f"token={tok!r}: objects constructed for the one row: {len(loaded)} (keys {[inspect(o).key[1:] for o in loaded]}); "
          f"subclass column loaded on the returned object: {'cdata' in objs[0].__dict__}")
    s.close()
print()
print("OBSERVATION REPRODUCED" if res[None] == (1, True) and res["t"] != (1, True) else "not reproduced")
