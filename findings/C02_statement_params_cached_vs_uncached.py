"""C02 finding of the strengthening round, reproduced against the real library on SQLite
(run: cd /tmp && /venv/bin/python /verif/findings/C02_statement_params_cached_vs_uncached.py).

C02-R5 key orm/context.py::FromStatement:_params-collected-uncached
  Values given with ExecutableStatement.params() reach the execution on two paths.  With the compiled cache they
  are collected by the cache key (`_params` rows, dp_params -> CacheKey.params); without it (compiled_cache=None,
  a dialect/statement that is not cacheable, plain stmt.compile()) the compiler collects them through
  SQLCompiler._add_to_params(), called by visit_select / visit_compound_select / visit_textual_select /
  visit_textclause / visit_tstring / visit_function.  orm.FromStatement has the `_params` row in its key but
  compiles through its own fixed _compiler_dispatch(), which never calls _add_to_params():
  `select(U).from_statement(text("... :id")).params(id=2)` works with the cache and raises
  "A value is required for bind parameter 'id'" with compiled_cache=None.

Observation, not decided by a rule (lambda keys are built from code objects, C17): a statement-level .params()
*inside* a lambda_stmt is honoured only when the cache is NOT used.
"""
from sqlalchemy import Column, Integer, String, bindparam, create_engine, lambda_stmt, select, text
from sqlalchemy.orm import Session, declarative_base

Base = declarative_base()


class U(Base):
    __tablename__ = "u"
    id = Column(Integer, primary_key=True)
    name = Column(String)


def run(cache, mk):
    e = create_engine("sqlite://")
    Base.metadata.create_all(e)
    with Session(e) as s:
        s.add_all([U(id=1, name="a"), U(id=2, name="b")])
        s.commit()
        opts = {} if cache else {"compiled_cache": None}
        try:
            return [u.id for u in s.execute(mk(), execution_options=opts).scalars()]
        except Exception as ex:
            return f"{type(ex).__name__}: {str(ex).splitlines()[0][:110]}"


cases = {
    "from_statement(text).params(id=2)": lambda: select(U).from_statement(text("select * from u where id=:id")).params(id=2),
    "from_statement(select).params(id=2)": lambda: select(U).from_statement(select(U).where(U.id == bindparam("id"))).params(id=2),
    "from_statement(text.params(id=2)) [control]": lambda: select(U).from_statement(text("select * from u where id=:id").params(id=2)),
    "select.params(id=2) [control]": lambda: select(U).where(U.id == bindparam("id")).params(id=2),
    "lambda_stmt(lambda: select.params(id=2)) [observation]": lambda: lambda_stmt(lambda: select(U).where(U.id == bindparam("id")).params(id=2)),
}
bad = 0
for name, mk in cases.items():
    on, off = run(True, mk), run(False, mk)
    bad += on != off
    print(f"{name}\n    compiled cache used    : {on}\n    compiled_cache=None    : {off}\n    -> {'SAME' if on == off else 'DIFFERENT'}")
print("DEFECT REPRODUCED" if bad else "nothing reproduced")
