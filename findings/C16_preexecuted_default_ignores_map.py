"""C16-R5 engine/default.py::DefaultExecutionContext._exec_default_clause_element:compile-map

A column default that is a SQL expression and has to be PRE-EXECUTED (primary key column, no RETURNING)
is compiled by DefaultExecutionContext._exec_default_clause_element with
    expression.select(default_arg).compile(dialect=self.dialect)
i.e. WITHOUT the executing context's schema_translate_map.  No `__[SCHEMA_x]` placeholders are rendered,
so _execute_scalar() (which does substitute placeholders when the option is present) has nothing to
substitute: the default's SELECT reads the UNtranslated schema while the INSERT itself goes to the
translated one.

Run:  cd /tmp && /venv/bin/python /verif/findings/C16_preexecuted_default_ignores_map.py
Exit 1 = defect present.
"""
import sys

from sqlalchemy import Column, Integer, MetaData, Table, create_engine, event, func, select

e = create_engine("sqlite://")
md = MetaData()
src = Table("src", md, Column("v", Integer), schema="tenant_a")
t = Table(
    "t", md,
    Column("id", Integer, primary_key=True, default=select(func.max(src.c.v)).scalar_subquery()),
    Column("x", Integer),
    schema="tenant_a",
    implicit_returning=False,   # forces the default to be executed before the INSERT
)
stmts = []


@event.listens_for(e, "before_cursor_execute")
def _log(conn, cur, st, params, ctx, many):
    stmts.append(" ".join(st.split()))


with e.connect() as c:
    c.exec_driver_sql("attach ':memory:' as tenant_a")
    c.exec_driver_sql("attach ':memory:' as tenant_b")
    for s, v in (("tenant_a", 100), ("tenant_b", 200)):
        c.exec_driver_sql(f"create table {s}.src (v integer)")
        c.exec_driver_sql(f"create table {s}.t (id integer primary key, x integer)")
        c.exec_driver_sql(f"insert into {s}.src values ({v})")
    del stmts[:]
    c2 = c.execution_options(schema_translate_map={"tenant_a": "tenant_b"})
    r = c2.execute(t.insert().values(x=3))
    for s in stmts:
        print("SQL:", s)
    print("inserted_primary_key:", r.inserted_primary_key, " rows in tenant_b.t:",
          c.exec_driver_sql("select * from tenant_b.t").all())
    bad = [s for s in stmts if "tenant_a" in s]
    if bad or r.inserted_primary_key[0] != 200:
        print("FAIL: with schema_translate_map {'tenant_a': 'tenant_b'} the pre-executed default read the "
              "untranslated schema:", bad, "-> primary key", r.inserted_primary_key[0], "(expected 200 = max(tenant_b.src.v))")
        sys.exit(1)
    print("PASS")
