"""C24-R4 finding: DefaultDialect._set_connection_characteristics registers the
_reset_characteristics finaliser only AFTER all set_connection_characteristic() calls.

If a later characteristic raises, the ones already applied to the DBAPI connection (e.g. the
isolation level) are never reset: the connection goes back to the pool and the next checkout
receives it with the previous user's isolation level.

Trigger used here (public API only): execution_options(isolation_level="AUTOCOMMIT",
logging_token=None) on a connection that has no logging token yet -- the logging_token
characteristic raises AttributeError (`del conn._message_formatter`).  Whether isolation_level is
applied before logging_token depends on set iteration order, so the scenario is run under several
PYTHONHASHSEED values.  Any other failing characteristic (e.g. postgresql_readonly on a broken
server connection) hits the same path.

Run:  cd /tmp && /venv/bin/python /verif/findings/C24_characteristics_partial_set.py
"""
import os
import subprocess
import sys
import tempfile

CHILD = r'''
import os, sys
from sqlalchemy import create_engine, pool
path = sys.argv[1]
e = create_engine("sqlite:///" + path, poolclass=pool.QueuePool, pool_size=1, max_overflow=0)
c = e.connect()
raw = c.connection.dbapi_connection
default = raw.isolation_level
try:
    c.execution_options(isolation_level="AUTOCOMMIT", logging_token=None)
    print("no error raised"); sys.exit(0)
except Exception as ex:
    err = type(ex).__name__
n_callbacks = len(c.connection._connection_record.finalize_callback)
c.close()                      # user gives the connection back (reset-on-return = rollback)
c2 = e.connect()               # next user
raw2 = c2.connection.dbapi_connection
leaked = raw2 is raw and raw2.isolation_level != default
print(f"error={err} finalisers_registered={n_callbacks} same_dbapi_connection={raw2 is raw} "
      f"default_isolation={default!r} isolation_on_next_checkout={raw2.isolation_level!r} LEAKED={leaked}")
'''

def main():
    d = tempfile.mkdtemp(prefix="c24_")
    leaked = 0
    for seed in range(1, 7):
        env = dict(os.environ, PYTHONHASHSEED=str(seed))
        out = subprocess.run([sys.executable, "-c", CHILD, os.path.join(d, f"db{seed}.sqlite")],
                             env=env, cwd=d, capture_output=True, text=True)
        line = [l for l in out.stdout.splitlines() if l.startswith(("error=", "no error"))]
        print(f"PYTHONHASHSEED={seed}: {line[0] if line else out.stderr.strip()[-300:]}")
        if line and "LEAKED=True" in line[0]:
            leaked += 1
    import shutil
    shutil.rmtree(d, ignore_errors=True)
    print()
    if leaked:
        print(f"DEFECT REPRODUCED in {leaked} of 6 runs: the pool handed out a connection still in AUTOCOMMIT "
              "(isolation_level None) set by the previous, failed, execution_options() call; "
              "no _reset_characteristics finaliser had been registered.")
    else:
        print("not reproduced")
    return 1 if leaked else 0

if __name__ == "__main__":
    sys.exit(main())
