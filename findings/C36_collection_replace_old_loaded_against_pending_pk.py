"""C36-R7  orm/attributes.py::_CollectionAttributeImpl.set:original-loaded-against-committed

`parent.children = [...]` on a collection that is not loaded fetches the old collection with
`self.get(state, dict_, passive=PASSIVE_ONLY_PERSISTENT ^ (passive & NO_RAISE))` and records it as the attribute's original
(`state._modified_event(dict_, self, old, True)`; bulk_replace fires the remove events for old - new).  The flags do not contain
LOAD_AGAINST_COMMITTED, so the lazy loader binds the parent's key columns from the CURRENT in-memory values.  When the
parent's (natural) primary key has a pending, unflushed change and autoflush does not run first (autoflush=False session,
`no_autoflush` block, or inside a flush / event handler), the loader selects the children of the NEW key -- there are none --
and the empty result is recorded as the committed value: history says nothing was deleted, no remove event / backref runs for
the members the collection really had, and the flush leaves their rows pointing at the old key.  The sibling fetches of an
original (`_ScalarObjectAttributeImpl.set/delete`, the deferred-history loader in `get_history`) all pass
LOAD_AGAINST_COMMITTED, whose documented meaning is "callables should use committed values as primary/foreign keys during a load".

Same class as round-2 seed C36_2 (the flag dropped from `_ScalarObjectAttributeImpl.delete`); found by the rule written for it.

Proposed minimal fix (verified in a scratch worktree: this script prints "not reproduced", ./check C36 no longer reports the key,
ORM test files listed in notes/str2-p.md pass):

-            passive=PASSIVE_ONLY_PERSISTENT ^ (passive & PassiveFlag.NO_RAISE),
+            passive=(PASSIVE_ONLY_PERSISTENT | LOAD_AGAINST_COMMITTED)
+            ^ (passive & PassiveFlag.NO_RAISE),

Run:  cd /tmp && /venv/bin/python /verif/findings/C36_collection_replace_old_loaded_against_pending_pk.py
"""
import sys

from sqlalchemy import Column, ForeignKey, Integer, String, create_engine, inspect
from sqlalchemy.orm import Session, declarative_base, relationship

Base = declarative_base()


class P(Base):
    __tablename__ = "p"
    name = Column(String, primary_key=True)
    cs = relationship("C", passive_updates=False)


class C(Base):
    __tablename__ = "c"
    id = Column(Integer, primary_key=True)
    pname = Column(ForeignKey("p.name"))


e = create_engine("sqlite://")
Base.metadata.create_all(e)
with Session(e) as s:
    s.add(P(name="old", cs=[C(id=1), C(id=2)]))
    s.commit()

problems = []
with Session(e, autoflush=False) as s:
    p = s.get(P, "old")
    assert "cs" not in p.__dict__
    p.name = "new"           # pending change of the key the children refer to
    p.cs = []                # replace the (unloaded) collection: committed value is [C1, C2], current value is []
    h = inspect(p).attrs.cs.history
    print("history after `p.cs = []`: added=%s unchanged=%s deleted=%s" % (
        [c.id for c in h.added], [c.id for c in h.unchanged], [c.id for c in h.deleted]))
    if sorted(c.id for c in h.deleted) != [1, 2]:
        problems.append("history.deleted is %s; the committed collection held C(1), C(2) and the current one is empty" % [c.id for c in h.deleted])
    s.flush()
    s.commit()
    rows = s.connection().exec_driver_sql("select id, pname from c order by id").all()
    print("rows after commit:", rows)
    if any(r[1] is not None for r in rows):
        problems.append("the flush did not de-associate the replaced members: %s (parent row is now 'new')" % (rows,))

if problems:
    print("REPRODUCED (C36-R7):")
    for x in problems:
        print("  -", x)
    sys.exit(1)
print("not reproduced")
