"""C15-R2 / C15-R3 finding (unchanged tree; reported by the C15 seed agent, reproduced here): SQLite reflection
loses constraint names and foreign key options -- and drops UNIQUE constraints entirely -- when a table, column
or constraint name contains `$`.

The identifier preparer treats `$` as a legal character (legal_characters = [A-Z0-9_$]+), so the DDL compiler
writes such names without quotes.  SQLite accepts them.  The reflection code reads the statement text back with
patterns that only accept [a-z0-9_]+ / \\w+ for an unquoted name (FK_PATTERN, UNIQUE_PATTERN, PK_PATTERN,
_find_cols_in_sig), so the clauses are not recognised:

* get_foreign_keys: name None, options {} (ON DELETE CASCADE / DEFERRABLE lost) when the constraint name, a
  constrained / referred column or the referred table has a `$`;
* get_unique_constraints: the constraint is not returned at all when a column has a `$`, its name is lost when the
  name has one;
* get_pk_constraint: the constraint name is lost.

A table reflected and re-created therefore loses the cascades / the unique constraint.
Run:  cd /tmp && /venv/bin/python /verif/findings/C15_sqlite_dollar_names_not_reflected.py      exit 1 = defect present
"""
import sys

from sqlalchemy import (Column, ForeignKeyConstraint, Integer, MetaData, PrimaryKeyConstraint, Table, UniqueConstraint,
                        create_engine, inspect)

e = create_engine("sqlite://")
m = MetaData()
Table("p$t", m, Column("id", Integer, primary_key=True))
Table("c", m, Column("id", Integer), Column("p$id", Integer), Column("u$1", Integer), Column("v", Integer),
      PrimaryKeyConstraint("id", name="pk$c"),
      ForeignKeyConstraint(["p$id"], ["p$t.id"], name="fk$c", ondelete="CASCADE", deferrable=True),
      UniqueConstraint("u$1", "v", name="uq$c"))
m.create_all(e)
with e.connect() as conn:
    conn.exec_driver_sql("PRAGMA foreign_keys=ON")
    conn.exec_driver_sql("insert into p$t (id) values (1)")
    conn.exec_driver_sql("insert into c (id, p$id, u$1, v) values (1, 1, 1, 1)")
    conn.exec_driver_sql("delete from p$t")
    left = conn.exec_driver_sql("select count(*) from c").scalar()
    print("the backend has the cascade in force: rows left in c after deleting the parent:", left)
i = inspect(e)
fk = i.get_foreign_keys("c")
uq = i.get_unique_constraints("c")
pk = i.get_pk_constraint("c")
print("foreign keys      :", fk)
print("unique constraints:", uq)
print("primary key       :", pk)
problems = []
if not fk or fk[0]["name"] != "fk$c" or fk[0]["options"].get("ondelete") != "CASCADE" or not fk[0]["options"].get("deferrable"):
    problems.append("foreign key name / ON DELETE CASCADE / DEFERRABLE not reflected")
if [(u["name"], u["column_names"]) for u in uq] != [("uq$c", ["u$1", "v"])]:
    problems.append("unique constraint not reflected")
if pk.get("name") != "pk$c":
    problems.append("primary key constraint name not reflected")
m2 = MetaData()
t2 = Table("c", m2, autoload_with=e)
print("re-created table keeps the unique constraint:",
      any(isinstance(c, UniqueConstraint) for c in t2.constraints),
      "; keeps ON DELETE:", [f.ondelete for f in t2.foreign_key_constraints])
if problems:
    print("FAIL: " + "; ".join(problems))
    sys.exit(1)
print("PASS")
