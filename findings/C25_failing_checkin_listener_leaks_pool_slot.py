"""C25 / C26 -- unchanged library, pool/base.py::_ConnectionRecord.checkin  (rule C25-R7 = C26-R8,
key `pool/base.py::_ConnectionRecord.checkin:every-exceptional-exit-hands-back`, second leaking call of that key;
the first one -- a failing connection-characteristics finaliser -- is findings/C24_failing_finaliser_leaks_pool_slot.py)

        self.fairy_ref = None                          # <- from here nobody else returns the record
        ...
        if pool.dispatch.checkin:
            pool.dispatch.checkin(connection, self)    # <- a listener of the "checkin" event raises
        pool._return_conn(self)                        # <- never reached

A listener of the pool's "checkin" event that raises (a bug in user code, a metrics/cleanup hook that talks to the
connection and hits a driver error, a KeyboardInterrupt / CancelledError landing there) leaves checkin() after the
in-use marker was cleared and before the record went back: the record is neither in the pool nor counted as returned.
`checkedout()` stays 1 with no live checkout (C25), "once every holder has released its connection the pool reports zero
checked-out connections" fails (C26); a second checkin is refused ("Double checkin attempted"), the weakref callback of
the fairy sees `fairy_ref is not ref` and returns: nothing repairs it, also not the garbage collector.  After
pool_size + max_overflow such failures every checkout raises TimeoutError.

Run:  cd /tmp && /venv/bin/python /verif/findings/C25_failing_checkin_listener_leaks_pool_slot.py
Expected (defect present): "DEFECT REPRODUCED", exit 1.  With /tmp/fx/pool_fix1.patch applied: "not reproduced", exit 0.
"""
import gc
import logging
import sys

from sqlalchemy import create_engine, event, exc, text
from sqlalchemy.pool import QueuePool

logging.disable(logging.CRITICAL)


def main():
    e = create_engine("sqlite://", poolclass=QueuePool, pool_size=1, max_overflow=1, pool_timeout=0.5)
    armed = []

    @event.listens_for(e, "checkin")
    def _checkin(dbapi_conn, record):
        if armed:
            armed.pop()
            raise RuntimeError("injected: the checkin hook failed")

    for i in range(2):
        c = e.connect()
        c.execute(text("select 1"))
        armed.append(1)
        try:
            c.close()
            got = "nothing raised"
        except Exception as err:
            got = type(err).__name__
        del c
        gc.collect()
        print(f"close #{i + 1} -> {got} (fine: the failure is reported); live checkouts: 0; pool.checkedout() = {e.pool.checkedout()}"
              f"   [{e.pool.status()}]")
    out = e.pool.checkedout()
    try:
        with e.connect() as c2:
            c2.execute(text("select 1"))
        later = "works"
    except exc.TimeoutError as err:
        later = "TimeoutError: " + str(err)[:70]
    print("next connect():", later)
    bad = out != 0 or later != "works"
    print()
    print("DEFECT REPRODUCED" if bad else "not reproduced")
    return 1 if bad else 0


if __name__ == "__main__":
    sys.exit(main())
