"""C34-R10  orm/bulk_persistence.py::_bulk_insert:token-follows-key      (low severity, exotic history)

`_bulk_insert(..., return_defaults=True)` on mapped objects assigns `state.key = (identity_cls, (pk...), None)`: the token
component is the literal None, whatever `state.identity_token` is.  `make_transient()` keeps the identity_token of an
object that was loaded with one, so such an object gets a key that disagrees with its own token
(`Mapper._identity_key_from_state(state)` yields (cls, pk, token)).

History: load row 1 with identity_token="shard1", expunge + make_transient, the row is deleted elsewhere,
`bulk_save_objects([obj], return_defaults=True)` inserts it again, `session.add(obj)` (filed under (A,(1,),None)), change an
attribute, flush: `Session._register_persistent` sees (A,(1,),"shard1") != state.key, treats it as a primary-key switch and
re-files the object.  `session.get(A, 1)` (the token it was attached with) then misses the identity map, emits SQL and builds a second object for the row.

Proposed minimal fix (orm/bulk_persistence.py, _bulk_insert):
                 state.key = (
                     identity_cls,
                     tuple([dict_[key] for key in identity_props]),
    -                None,
    +                state.identity_token,
                 )

Run:  cd /tmp && /venv/bin/python /verif/findings/C34_bulk_insert_key_ignores_state_token.py
"""
from sqlalchemy import Column, Integer, String, create_engine, event, inspect, select, text
from sqlalchemy.orm import Session, declarative_base, make_transient

Base = declarative_base()


class A(Base):
    __tablename__ = "a"
    id = Column(Integer, primary_key=True)
    data = Column(String)


e = create_engine("sqlite://")
Base.metadata.create_all(e)
with Session(e) as s:
    s.add(A(id=1, data="x"))
    s.commit()

tok = "shard1"
s1 = Session(e)
a = s1.execute(select(A).where(A.id == 1), execution_options={"identity_token": tok}).scalar_one()
s1.expunge(a)
make_transient(a)
s1.rollback()
with e.begin() as c:
    c.execute(text("delete from a"))
print("transient again:      key", inspect(a).key, " identity_token", repr(inspect(a).identity_token))
s1.bulk_save_objects([a], return_defaults=True)
st = inspect(a)
print("after bulk insert:    key", st.key[1:], " identity_token", repr(st.identity_token))
s1.add(a)
k0 = st.key  # the key the object is attached under
a.data = "y"
s1.flush()
print("after add + flush:    identity map keys", [k[1:] for k in s1.identity_map.keys()])
sql = []
event.listen(e, "before_cursor_execute", lambda c, cur, stt, p, ctx, em: sql.append(stt))
got = s1.get(A, 1, identity_token=k0[2])
same_row = [o for o in s1.identity_map.values() if o.id == 1]
print(f"flush without a primary-key change kept the identity key: {inspect(a).key == k0}")
print(f"get(A, 1, identity_token={k0[2]!r}): emitted {len(sql)} SELECT(s), returned the attached object: {got is a}; objects for row 1 in this Session: {len(same_row)}")
bad = st.key[2] != st.identity_token or sql or got is not a or len(same_row) != 1
print()
print("DEFECT REPRODUCED" if bad else "not reproduced")
