"""C08-R1  sql/operators.py::_escaped_like_impl:escape=_

With autoescape=True and escape="_" the wildcard replacement runs in the wrong order for this escape
character: '%' is first rewritten to '_%', then every '_' (including the escape just inserted) is
rewritten to '__'.  The pattern '__%' means "literal underscore, then the % wildcard", so a literal
'%' in the operand is NOT matched literally and the operator returns wrong rows.

Run:  cd /tmp && /venv/bin/python /verif/findings/C08_autoescape_underscore_escape.py
"""
from sqlalchemy import column, create_engine, literal, select

e = create_engine("sqlite://")
expr = column("c").contains("50%", autoescape=True, escape="_")
print("bound pattern value:", repr(expr.right.value), " (expected '50_%')")

bad = 0
with e.connect() as conn:
    for hay, needle in [("a50%b", "50%"), ("a50_xyz", "50%"), ("x%y", "%"), ("x_y", "%")]:
        got = conn.scalar(select(literal(hay).contains(needle, autoescape=True, escape="_")))
        want = needle in hay
        flag = "" if bool(got) == want else "   <-- WRONG"
        bad += bool(got) != want
        print(f"literal({hay!r}).contains({needle!r}, autoescape=True, escape='_') -> {bool(got)}; python `in` -> {want}{flag}")
    # control: the same with the default escape is right
    for hay, needle in [("a50%b", "50%"), ("a50_xyz", "50%")]:
        got = conn.scalar(select(literal(hay).contains(needle, autoescape=True)))
        assert bool(got) == (needle in hay)
print("DEFECT REPRODUCED" if bad else "not reproduced")
