"""C02 findings: statements that differ in an attribute the compiler reads but the cache key omits
share one compiled form (run: cd /tmp && /venv/bin/python <this file>)."""
from sqlalchemy import (Column, Integer, MetaData, Table, bindparam, column, create_engine, delete, event, func,
                        insert, select, text)
from sqlalchemy.sql.expression import outparam
from sqlalchemy.dialects import oracle

m = MetaData()
t = Table("t", m, Column("id", Integer, primary_key=True), Column("x", Integer, default=5), Column("y", Integer))
t2 = Table("t2", m, Column("id", Integer, primary_key=True), Column("y", Integer))
e = create_engine("sqlite://")
m.create_all(e)
log = []
event.listen(e, "before_cursor_execute", lambda c, cur, stmt, p, ctx, many: log.append(stmt))

with e.begin() as c:
    c.execute(insert(t2), [{"id": 1, "y": 10}, {"id": 2, "y": 20}])
    # 1. Insert.from_select(include_defaults=...) is not in Insert's cache key
    s = select(t2.c.id, t2.c.y)
    c.execute(insert(t).from_select(["id", "y"], s, include_defaults=True))
    c.execute(delete(t))
    c.execute(insert(t).from_select(["id", "y"], s, include_defaults=False))
    print("1. include_defaults=False executed as:", log[-1].replace("\n", " "))
    print("   rows (x should be NULL, the Python default must not be applied):", c.execute(select(t.c.id, t.c.x)).all())
    # 2. Delete.return_defaults() columns are not in Delete's cache key
    r1 = c.execute(delete(t).where(t.c.id == 1).return_defaults(t.c.x))
    r2 = c.execute(delete(t).where(t.c.id == 2))
    print("2. plain delete() executed as:", log[-1].replace("\n", " "), "| returns_rows =", r2.returns_rows)

# 3. BindParameter.isoutparam / expanding are not in the bind's cache key
a, b = select(bindparam("p", type_=Integer)), select(outparam("p", Integer))
print("3. outparam key equal:", a._generate_cache_key() == b._generate_cache_key(),
      "| has_out_parameters:", a.compile(dialect=oracle.dialect()).has_out_parameters, b.compile(dialect=oracle.dialect()).has_out_parameters)
a, b = select(bindparam("p", expanding=True)), select(bindparam("p"))
print("   expanding key equal:", a._generate_cache_key() == b._generate_cache_key(), "|", str(a), "|", str(b))
# 4. TableValuedAlias.joins_implicitly is not in its cache key (controls cartesian-product linting)
f = func.json_each(column("c"))
a = select(column("z")).select_from(f.table_valued("value", joins_implicitly=True))
b = select(column("z")).select_from(f.table_valued("value", joins_implicitly=False))
print("4. joins_implicitly key equal:", a._generate_cache_key() == b._generate_cache_key())

# 5. still open (recorded as known findings): UpdateBase._supplemental_returning and Values._is_lateral
from sqlalchemy import update, values
from sqlalchemy.dialects import postgresql
pg = postgresql.dialect()
a = update(t).values(y=1).return_defaults(t.c.x, supplemental_cols=[t.c.y])
b = update(t).values(y=1).return_defaults(t.c.x)
print("5. supplemental_cols key equal:", a._generate_cache_key() == b._generate_cache_key(), "|",
      str(a.compile(dialect=pg)).replace("\n", " "), "|", str(b.compile(dialect=pg)).replace("\n", " "))
v = values(column("a", Integer), name="v").data([(1,)])
a, b = select(v.lateral("q")), select(v.alias("q"))
print("   values().lateral() key equal:", a._generate_cache_key() == b._generate_cache_key(), "|",
      str(a.compile(dialect=pg)).replace("\n", " "), "|", str(b.compile(dialect=pg)).replace("\n", " "))
