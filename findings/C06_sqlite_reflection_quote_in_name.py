"""C06-R8 finding (unchanged tree): SQLite reflection loses / mangles names that contain the quote character.

The SQLite dialect writes identifiers with IdentifierPreparer.quote_identifier(), which doubles a `"` inside the
name (`a"b` -> "a""b").  The regular expressions that read names back out of `sqlite_master.sql`
(SQLiteDialect._find_cols_in_sig, get_unique_constraints, get_foreign_keys, get_pk_constraint) use `"(.+?)"` /
`"[^"]+"`: the body ends at the first `"`, or -- where the text after the closing quote forces the lazy match to go
on -- returns the still escaped text.  DDL and DML work; reflection does not return the same name.

Run:  cd /tmp && /venv/bin/python /verif/findings/C06_sqlite_reflection_quote_in_name.py
Exit status 1 = defect reproduced.
"""
import sys
import warnings

from sqlalchemy import CheckConstraint, Column, ForeignKeyConstraint, Integer, MetaData, PrimaryKeyConstraint
from sqlalchemy import Table, UniqueConstraint, column, create_engine, inspect

warnings.simplefilter("ignore")
bad = []


def check(what, got, want):
    ok = got == want
    print(f"  {'ok  ' if ok else 'BAD '}{what}: {got!r}" + ("" if ok else f"   expected {want!r}"))
    if not ok:
        bad.append(what)


for nm in ["plain", "sp ace", "o'clock", 'a"b']:
    e = create_engine("sqlite://")
    m = MetaData()
    par = Table("par " + nm, m, Column("id", Integer), Column(nm, Integer), Column("other", Integer),
                PrimaryKeyConstraint("id", name="pk " + nm), UniqueConstraint(nm, "other", name="uq " + nm))
    Table("ch " + nm, m, Column("id", Integer, primary_key=True), Column(nm, Integer), Column("o2", Integer),
          ForeignKeyConstraint([nm, "o2"], [par.c[nm], par.c.other], name="fk " + nm),
          CheckConstraint(column(nm) > 0, name="ck " + nm))
    m.create_all(e)  # DDL executes
    with e.begin() as c:  # DML executes
        c.execute(par.insert(), {"id": 1, nm: 1, "other": 1})
    insp = inspect(e)
    print(f"name {nm!r}:")
    check("get_columns", [c["name"] for c in insp.get_columns("par " + nm)], ["id", nm, "other"])
    check("get_pk_constraint name", insp.get_pk_constraint("par " + nm)["name"], "pk " + nm)
    check("get_unique_constraints", insp.get_unique_constraints("par " + nm),
          [{"name": "uq " + nm, "column_names": [nm, "other"]}])
    check("get_foreign_keys", [(f["name"], f["constrained_columns"], f["referred_table"], f["referred_columns"])
                               for f in insp.get_foreign_keys("ch " + nm)],
          [("fk " + nm, [nm, "o2"], "par " + nm, [nm, "other"])])
    check("get_check_constraints name", [c["name"] for c in insp.get_check_constraints("ch " + nm)], ["ck " + nm])
    t2 = Table("par " + nm, MetaData(), autoload_with=e)
    check("autoload unique constraints", sorted(str(c.name) for c in t2.constraints if isinstance(c, UniqueConstraint)),
          ["uq " + nm])

print()
if bad:
    print(f"DEFECT REPRODUCED: {len(bad)} reflection results differ for a name containing the quote character")
    sys.exit(1)
print("not reproduced")
