r"""C15-R2 finding (genuine): SQLite foreign key reflection loses ON DELETE / ON UPDATE / DEFERRABLE / INITIALLY
when the constraint was created with a MATCH clause.

DDLCompiler.visit_foreign_key_constraint writes `... REFERENCES p (id) MATCH FULL ON DELETE CASCADE DEFERRABLE ...`
(define_constraint_match comes before define_constraint_cascades).  SQLite accepts and stores that text verbatim
(MATCH is parsed and ignored by the backend; the actions and deferrability are honoured).
SQLiteDialect.get_foreign_keys.parse_fks() reads the options back with FK_PATTERN, whose option groups follow the
referred column list directly: with `MATCH FULL` in between, every optional group matches the empty string, so
`options` comes back empty.  A table reflected from such a database and re-created elsewhere silently loses
ON DELETE CASCADE.

Run:  cd /tmp && /venv/bin/python /verif/findings/C15_sqlite_fk_match_clause_hides_options.py   (exit 1 = defect shown)

Minimal fix (verified on a scratch copy: this script exits 0, `SQLASTATIC_ROOT=<copy> ./check C15` reports the key as
holding, test/dialect/sqlite + test/engine/test_reflection.py pass):

--- a/lib/sqlalchemy/dialects/sqlite/base.py
+++ b/lib/sqlalchemy/dialects/sqlite/base.py
@@ def parse_fks():
                 r'REFERENCES\s+(?:(?:"((?:[^"]|"")+)")|([a-z0-9_]+))\s*'
                 r'\(\s*((?:(?:"(?:[^"]|"")+"|[a-z0-9_]+)\s*(?:,\s*)?)+)\)\s*'
+                r"(?:MATCH\s+\w+\s*)?"
                 r"((?:ON\s+(?:DELETE|UPDATE)\s+"
"""
import sys

from sqlalchemy import Column, ForeignKeyConstraint, Integer, MetaData, Table, create_engine, event, inspect
from sqlalchemy.schema import CreateTable

engine = create_engine("sqlite://")


@event.listens_for(engine, "connect")
def _fk_on(dbapi_con, rec):
    dbapi_con.execute("PRAGMA foreign_keys=ON")


def build(match):
    m = MetaData()
    Table("p", m, Column("id", Integer, primary_key=True))
    Table(
        "c", m, Column("id", Integer, primary_key=True), Column("pid", Integer),
        ForeignKeyConstraint(["pid"], ["p.id"], name="fk1", ondelete="CASCADE", onupdate="SET NULL",
                             deferrable=True, initially="DEFERRED", match=match),
    )
    return m


bad = False
for match in (None, "FULL"):
    m = build(match)
    m.drop_all(engine)
    m.create_all(engine)
    ddl = [ln.strip() for ln in str(CreateTable(m.tables["c"]).compile(engine)).splitlines() if "FOREIGN" in ln][0]
    opts = inspect(engine).get_foreign_keys("c")[0]["options"]
    print(f"match={match!r}\n  written  : {ddl}\n  reflected: {opts}")
    # the backend does honour the clause it was given
    with engine.begin() as conn:
        conn.exec_driver_sql("insert into p (id) values (1)")
        conn.exec_driver_sql("insert into c (id, pid) values (1, 1)")
        conn.exec_driver_sql("delete from p")
        left = conn.exec_driver_sql("select count(*) from c").scalar()
    print(f"  backend  : deleting the parent row leaves {left} child row(s)  (ON DELETE CASCADE is in force)")
    m2 = MetaData()
    c2 = Table("c", m2, autoload_with=engine)
    ddl2 = [ln.strip() for ln in str(CreateTable(c2).compile(engine)).splitlines() if "FOREIGN" in ln][0]
    print(f"  reflected table re-created as: {ddl2}")
    if opts.get("ondelete") != "CASCADE" or opts.get("onupdate") != "SET NULL" or not opts.get("deferrable"):
        bad = True
    m.drop_all(engine)

if bad:
    print("\nDEFECT: with a MATCH clause the reflected foreign key has no ondelete/onupdate/deferrable/initially")
    sys.exit(1)
print("\nno difference observed")
