"""C04-R5 finding (pre-existing, unchanged library): a per-row bound parameter in the WHERE of
ON CONFLICT DO UPDATE is delivered for the FIRST parameter set of a batch only.

SQLiteCompiler / PGCompiler.visit_on_conflict_do_update render the SET values with is_upsert_set=True (issue
#13130) but render `update_whereclause` without it, so visit_bindparam does not mark the statement
(has_upsert_bound_parameters), the executemany INSERT..RETURNING is batched into one multi-VALUES statement and
the single WHERE clause gets parameters[0]'s value.

Runs against the real library on an in-memory SQLite database.
    cd /tmp && /venv/bin/python /verif/findings/C04_upsert_where_param_batched.py
"""
import sys

from sqlalchemy import Column, Integer, MetaData, String, Table, bindparam, create_engine, event, select
from sqlalchemy.dialects.sqlite import insert

e = create_engine("sqlite://")
m = MetaData()
t = Table("t", m, Column("k", String, primary_key=True), Column("v", Integer))
m.create_all(e)

seen = []


@event.listens_for(e, "before_cursor_execute")
def _log(conn, cursor, statement, parameters, context, executemany):
    if statement.startswith("INSERT") and "ON CONFLICT" in statement:
        seen.append((statement, parameters))


stmt = insert(t)
stmt = stmt.on_conflict_do_update(
    index_elements=["k"], set_={"v": stmt.excluded.v}, where=t.c.v < bindparam("cap")
).returning(t.c.k, t.c.v)

params = [
    {"k": "k1", "v": 10, "cap": 100},   # 1 < 100 -> updated
    {"k": "k2", "v": 10, "cap": 0},     # 1 < 0 is false -> must stay 1
    {"k": "k3", "v": 10, "cap": 100},   # updated
]
with e.begin() as conn:
    conn.execute(t.insert(), [{"k": "k1", "v": 1}, {"k": "k2", "v": 1}, {"k": "k3", "v": 1}])
    conn.execute(stmt, params)
    rows = conn.execute(select(t.c.k, t.c.v).order_by(t.c.k)).all()

for s, p in seen:
    print("statement :", " ".join(s.split()))
    print("parameters:", p)
caps = sorted({v for _, p in seen for v in (p if isinstance(p, (tuple, list)) else p.values()) if v in (0, 100)})
print("stored    :", rows)
expected = [("k1", 10), ("k2", 1), ("k3", 10)]
print("expected  :", expected)
if rows != expected or 0 not in caps:
    print("DEFECT: the `cap` value of parameter sets 2..n never reached the DBAPI; row k2 was updated with cap=100")
    sys.exit(1)
print("ok")
