"""C20-R1  engine/url.py::URL:query:blank-values

URL.render_as_string() writes an empty query value as `key=`, but _parse_url() reads the query string with
urllib.parse.parse_qsl() without keep_blank_values=True, which drops such pairs.  The URL does not
round-trip: make_url(url.render_as_string(hide_password=False)) != url.

Run:  cd /tmp && /venv/bin/python /verif/findings/C20_blank_query_value_dropped.py
"""
from sqlalchemy.engine.url import URL, make_url

bad = 0
for query in ({"sslmode": ""}, {"a": "1", "options": ""}, {"k": ("", "x")}):
    u = URL.create("postgresql+psycopg2", username="u", password="p", host="h", database="d", query=query)
    s = u.render_as_string(hide_password=False)
    back = make_url(s)
    same = back == u
    bad += not same
    print(f"{dict(u.query)!r:32} -> {s!r:55} -> {dict(back.query)!r}", "" if same else "  <-- NOT EQUAL")
print("DEFECT REPRODUCED" if bad else "not reproduced")
