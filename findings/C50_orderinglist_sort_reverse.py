"""C50-R1 reproduction: OrderingList does not override list.sort / list.reverse.

Run:  cd /tmp && /venv/bin/python /verif/findings/C50_orderinglist_sort_reverse.py

After `bullets.reverse()` / `bullets.sort(...)` the in-memory order changes but no position attribute
is renumbered (position != index), nothing is flushed, and after a reload the list silently returns
to the old order.  The module documentation promises that list operations on the collection
"automatically synchronize changes in list position onto a target scalar attribute" and lists no
such limitation (the only documented caveats concern primary-key/unique position columns and the
initial load).  Every other order-changing mutator (insert, pop, remove, __delitem__,
__setitem__) renumbers.
"""
from sqlalchemy import ForeignKey, Integer, String, create_engine
from sqlalchemy.ext.orderinglist import ordering_list
from sqlalchemy.orm import DeclarativeBase, Mapped, Session, mapped_column, relationship


class Base(DeclarativeBase):
    pass


class Slide(Base):
    __tablename__ = "slide"
    id: Mapped[int] = mapped_column(Integer, primary_key=True)
    bullets = relationship("Bullet", order_by="Bullet.position", collection_class=ordering_list("position"))


class Bullet(Base):
    __tablename__ = "bullet"
    id: Mapped[int] = mapped_column(Integer, primary_key=True)
    slide_id = mapped_column(ForeignKey("slide.id"))
    position = mapped_column(Integer)
    text = mapped_column(String)


e = create_engine("sqlite://")
Base.metadata.create_all(e)
bad = 0
with Session(e) as s:
    sl = Slide(id=1)
    for t in "cab":
        sl.bullets.append(Bullet(text=t))
    s.add(sl)
    s.commit()

    for label, op in (("reverse()", lambda l: l.reverse()), ("sort(key=text)", lambda l: l.sort(key=lambda b: b.text))):
        before = [b.text for b in sl.bullets]
        op(sl.bullets)
        mem = [(b.text, b.position) for b in sl.bullets]
        stale = [(t, p) for i, (t, p) in enumerate(mem) if p != i]
        print(f"after bullets.{label}: (text, position) = {mem}")
        print(f"   position != index for {stale}; session dirty: {bool(s.dirty)}")
        s.commit()
        reloaded = [b.text for b in sl.bullets]
        print(f"   after commit + reload the order is {reloaded} (in memory it was {[t for t, _ in mem]})")
        if stale and reloaded != [t for t, _ in mem]:
            bad += 1
            print("   DEFECT: the new order was neither numbered nor persisted")

    # control: insert renumbers
    sl.bullets.insert(0, Bullet(text="z"))
    print("control insert(0): ", [(b.text, b.position) for b in sl.bullets])

print("DEFECTS REPRODUCED:", bad)
raise SystemExit(1 if bad else 0)
