"""C10-R6  engine/cursor.py::CursorResult._fetchiter_impl:no-stale-delegate-across-yield

CursorResult._fetchiter_impl is a generator that binds `fetchone = self.cursor_strategy.fetchone` once, before
its loop.  `yield_per()` (also `_rewind`, soft close) REPLACES `self.cursor_strategy`.  An iterator obtained with
`iter(result)` before `result.yield_per(n)` keeps reading the DBAPI cursor through the old strategy, while
fetchone()/fetchmany() on the result use the new BufferedRowCursorFetchStrategy, whose buffer the iterator never
sees: rows come out of order, and rows sitting in the buffer are lost when the iterator exhausts the cursor.

Minimal fix (read the strategy when it is used, as _fetchone_impl/_fetchmany_impl/_fetchall_impl do):
-        fetchone = self.cursor_strategy.fetchone
-
         while True:
-            row = fetchone(self, self.cursor)
+            row = self.cursor_strategy.fetchone(self, self.cursor)

Run:  cd /tmp && /venv/bin/python /verif/findings/C10_iterator_keeps_old_fetch_strategy.py
"""
from sqlalchemy import create_engine, text

e = create_engine("sqlite://")
bad = 0
with e.connect() as c:
    c.execute(text("create table t (a integer)"))
    c.execute(text("insert into t values (1),(2),(3),(4),(5),(6),(7),(8)"))

    r = c.execute(text("select a from t order by a"))
    it = iter(r)
    out = [next(it)[0]]
    r.yield_per(2)
    out += [next(it)[0], r.fetchone()[0], next(it)[0], r.fetchone()[0]]
    ok = out == [1, 2, 3, 4, 5]
    bad += not ok
    print("iter(r); next; r.yield_per(2); next, fetchone, next, fetchone ->", out, "" if ok else "  <-- out of order, expected [1, 2, 3, 4, 5]")
    r.close()

    r = c.execute(text("select a from t order by a"))
    it = iter(r)
    out = [next(it)[0]]
    r.yield_per(2)
    out.append(r.fetchone()[0])
    out += [x[0] for x in it]
    rest = [x[0] for x in r.all()]
    ok = out + rest == list(range(1, 9))
    bad += not ok
    print("iter(r); next; r.yield_per(2); fetchone; list(it); r.all()       ->", out, "+", rest, "" if ok else "  <-- a row is lost, expected 1..8")
print("DEFECT REPRODUCED" if bad else "not reproduced")
