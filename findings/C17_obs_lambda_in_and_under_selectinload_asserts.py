from sqlalchemy import create_engine, ForeignKey, Integer, String, select
from sqlalchemy.orm import DeclarativeBase, Mapped, mapped_column, relationship, selectinload, Session, joinedload
class Base(DeclarativeBase): pass
class Order(Base):
    __tablename__ = "orders"
    id: Mapped[int] = mapped_column(Integer, primary_key=True)
    lines = relationship("Line", order_by="Line.id")
class Line(Base):
    __tablename__ = "line"
    id: Mapped[int] = mapped_column(Integer, primary_key=True)
    order_id: Mapped[int] = mapped_column(ForeignKey("orders.id"))
    status: Mapped[str] = mapped_column(String(10))
engine = create_engine("sqlite://")
Base.metadata.create_all(engine)
with Session(engine) as s:
    s.add(Order(id=1)); s.add_all([Line(id=1, order_id=1, status="open"), Line(id=3, order_id=1, status="void")]); s.commit()
def go(loader, st):
    with Session(engine) as s:
        return [(o.id, [l.id for l in o.lines]) for o in s.scalars(select(Order).options(loader(Order.lines.and_(lambda: Line.status == st)))).unique()]
for loader in (selectinload, joinedload):
    for st in ("open", "void"):
        try:
            print(loader.__name__, st, go(loader, st))
        except Exception as e:
            import traceback; tb = traceback.extract_tb(e.__traceback__)[-1]
            print(loader.__name__, st, "RAISES", type(e).__name__, str(e)[:100], "at", tb.filename.split("sqlalchemy/")[-1], tb.lineno, tb.name)
