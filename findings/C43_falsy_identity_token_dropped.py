"""C43-R5  token-test[identity_token] -- identity tokens tested for truthiness

Keys (one defect class, three sites):
  orm/loading.py::_set_get_options:token-test[identity_token]
  orm/query.py::Query._get_options:token-test[identity_token]
  ext/horizontal_shard.py::ShardedSession._choose_shard_and_assign:token-test[state.identity_token]

An identity token is an arbitrary application value (the horizontal sharding extension uses the shard id); everywhere
else the library tests "was a token given" with `is None` / `is not None` (bulk_persistence, ShardedSession.
_identity_lookup, execute_and_instances).  `_set_get_options` (used by Session.get / Query.get / refresh) tests
`if identity_token:`; so the falsy tokens 0 and "" are dropped: the primary-key load runs with
load_options._identity_token = None and the loaded object gets the identity key (cls, pk, None).

Consequences shown below, plain Session, sqlite, no sharding extension needed:
  1. session.get(A, 1, identity_token=0) returns an object whose key / state.identity_token carry None, not 0
     (a second get(..., identity_token=0) misses the identity map and emits the SELECT again).
  2. C43: an ORM UPDATE executed for identity_token=0 with synchronize_session='evaluate' filters the in-session
     candidates on `state.identity_token == 0`; the object just loaded through get(identity_token=0) is skipped and
     keeps its stale value while the row changed.  The same history with the truthy token "zero" (or with the
     object loaded through select() + execution_options(identity_token=0)) is synchronised.

Minimal fix (the three tests become `is not None`; verified: this script passes, and
test/ext/test_horizontal_shard.py test/orm/test_query.py test/orm/test_session.py test/orm/dml test/orm/test_loading.py
test/orm/test_expire.py test/ext/test_baked.py pass):

    --- a/lib/sqlalchemy/orm/loading.py   (_set_get_options)
    -    if identity_token:
    +    if identity_token is not None:
    --- a/lib/sqlalchemy/orm/query.py     (Query._get_options)
    -        if identity_token:
    +        if identity_token is not None:
    --- a/lib/sqlalchemy/ext/horizontal_shard.py   (ShardedSession._choose_shard_and_assign)
    -            elif state.identity_token:
    +            elif state.identity_token is not None:

Run:  cd /tmp && /venv/bin/python /verif/findings/C43_falsy_identity_token_dropped.py      (exit 1 = defect present)
"""
import sys

from sqlalchemy import Column, Integer, create_engine, select, update
from sqlalchemy.orm import Session, declarative_base

Base = declarative_base()


class A(Base):
    __tablename__ = "a"
    id = Column(Integer, primary_key=True)
    x = Column(Integer)


e = create_engine("sqlite://")
Base.metadata.create_all(e)
with Session(e) as s:
    s.add(A(id=1, x=1))
    s.commit()

problems = []
for tok in ("zero", 0, ""):
    with Session(e) as s:
        a = s.get(A, 1, identity_token=tok)
        key_tok = a._sa_instance_state.key[2]
        print(f"token {tok!r}: get() -> identity key token {key_tok!r}, state.identity_token {a._sa_instance_state.identity_token!r}")
        if key_tok != tok:
            problems.append(f"get(A, 1, identity_token={tok!r}) produced identity key token {key_tok!r}")
        s.execute(
            update(A).where(A.x >= 1).values(x=A.x + 10),
            execution_options={"identity_token": tok, "synchronize_session": "evaluate"},
        )
        in_session = a.__dict__.get("x", "<expired>")
        in_db = s.execute(select(A.__table__.c.x)).scalar()
        print(f"          after UPDATE (evaluate, identity_token={tok!r}): session x={in_session}  database x={in_db}")
        if in_session != in_db:
            problems.append(f"identity_token={tok!r}: object has x={in_session} in the session but {in_db} in the database")
        s.rollback()

if problems:
    print("DEFECT:")
    for p in problems:
        print("  -", p)
    sys.exit(1)
print("ok")
