"""C28-R5 finding: `_EmptyListener.for_modify()` reads the owner's current collection BEFORE it takes
`util.mini_gil`, and decides inside the lock -- on that stale value -- whether to install a new one:

    existing = getattr(obj, self.name)          # outside the lock
    with util.mini_gil:
        if existing is self or ...:
            result = _ListenerCollection(...)
        ...
        if existing is self:
            setattr(obj, self.name, result)     # test-and-set on a value read outside the lock
    return result

Two threads that dispatch the first once-only event of one target at the same time (the library idiom is
`pool.dispatch.first_connect.for_modify(pool.dispatch).exec_once_unless_exception(...)`, pool/base.py) can
both read the shared placeholder.  Each then creates and installs its OWN _ListenerCollection (the second
replaces the first) and runs exec_once on its own collection, with its own `_exec_once` flag and mutex:
the "first_connect" listener runs twice for one pool.  (The `else: return existing` branch of the method
only repairs the schedule in which the second thread does its read after the first one has installed.)

The schedule is forced with a per-thread trace function: each thread is held right after it has read the
placeholder from the owner, until the other one has read it too (or 2 s have passed -- so that a library
in which the read happens inside a real lock simply serialises the two threads and passes).

Run:  cd /tmp && /venv/bin/python /verif/findings/C28_for_modify_two_threads_install_two_collections.py
Exit 0 / PASS when the listener ran once, 1 / FAIL otherwise.
"""
import sys
import threading

from sqlalchemy import event
from sqlalchemy.event import attr
from sqlalchemy.pool import QueuePool


class FakeDBAPIConnection:
    def rollback(self):
        pass

    def close(self):
        pass


class MyPool(QueuePool):
    pass


calls = []


def on_first_connect(dbapi_connection, record):
    calls.append(threading.current_thread().name)


# class-level listener: every MyPool instance sees it through the per-class _EmptyListener placeholder
event.listen(MyPool, "first_connect", on_first_connect)

pool = MyPool(FakeDBAPIConnection, pool_size=5, reset_on_return=None)

target_code = attr._EmptyListener.for_modify.__code__
both_have_read = threading.Barrier(2, timeout=2)
held = []
tl = threading.local()


def tracer(frame, ev, arg):
    if ev != "call" or frame.f_code is not target_code or getattr(tl, "done", False):
        return None
    me = frame.f_locals.get("self")
    if getattr(me, "name", None) != "first_connect":
        return None

    def local(frame, ev, arg):
        if ev == "line" and not getattr(tl, "done", False):
            # has this activation read the placeholder from the owner yet?  (any local other than `self` holds it)
            if any(k != "self" and v is me for k, v in frame.f_locals.items()):
                tl.done = True
                held.append(threading.current_thread().name)
                try:
                    both_have_read.wait()
                except threading.BrokenBarrierError:
                    pass
        return local
    return local


errors = []


def worker():
    sys.settrace(tracer)
    try:
        c = pool.connect()
        c.close()
    except BaseException as e:  # noqa
        errors.append(repr(e))
    finally:
        sys.settrace(None)


ts = [threading.Thread(target=worker, name=f"T{i + 1}") for i in range(2)]
for t in ts:
    t.start()
for t in ts:
    t.join(30)

print("threads held after reading the placeholder:", held)
print("first_connect listener calls:", calls)
coll = pool.dispatch.first_connect
print("collection installed on the pool:", type(coll).__name__, "_exec_once =", getattr(coll, "_exec_once", None))
if errors:
    print("FAIL: worker raised", errors)
    sys.exit(1)
if len(calls) != 1:
    print(f"FAIL: the once-only first_connect listener ran {len(calls)} times for one pool "
          "(two threads each installed and exec_once'd their own _ListenerCollection)")
    sys.exit(1)
print("PASS")
