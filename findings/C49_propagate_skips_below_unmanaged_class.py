"""C49-R5 finding (unchanged tree): ClassManager.subclass_managers(True) -- the walk used by
InstanceEvents._listen / AttributeEvents._listen to copy a propagate=True listener onto already
instrumented subclasses -- descends only through subclasses that have a ClassManager of their own.
An `__abstract__` (or otherwise unmapped) class between two mapped classes hides everything below it.

ext.mutable installs its load / refresh / pickle / unpickle hooks with propagate=True at
mapper_configured time, i.e. after the hierarchy exists, once per column (on the class owning the
column).  For  A (mapped, Mutable column) -> B (__abstract__) -> C (mapped, single-table subclass)
the hooks never reach C: a C instance loaded from the database carries a plain dict, in-place changes
do not flag the parent, nothing is flushed.  (The upward direction -- ClassManager.__init__ walking
class_.__mro__ -- skips unmanaged classes and continues, so listeners installed BEFORE C exists do reach it.)

Run:  cd /tmp && /venv/bin/python /verif/findings/C49_propagate_skips_below_unmanaged_class.py
"""
from sqlalchemy import JSON, Column, Integer, String, create_engine, event
from sqlalchemy.ext.mutable import MutableDict
from sqlalchemy.orm import Session, configure_mappers, declarative_base, instrumentation

Base = declarative_base()


class A(Base):
    __tablename__ = "a"
    id = Column(Integer, primary_key=True)
    type = Column(String)
    data = Column(MutableDict.as_mutable(JSON))
    __mapper_args__ = {"polymorphic_on": type, "polymorphic_identity": "a"}


class B(A):
    __abstract__ = True


class C(B):
    __mapper_args__ = {"polymorphic_identity": "c"}


configure_mappers()
problems = []
mgrs = list(instrumentation.manager_of_class(A).subclass_managers(True))
print("manager of B:", instrumentation.opt_manager_of_class(B))
print("A.subclass_managers(True):", mgrs)
if instrumentation.manager_of_class(C) not in mgrs:
    problems.append("subclass_managers(True) of A does not yield the manager of its mapped grandchild C")

seen = []
event.listen(A, "load", lambda t, ctx: seen.append(type(t).__name__), propagate=True)

e = create_engine("sqlite://")
Base.metadata.create_all(e)
with Session(e) as s:
    s.add_all([A(data={"x": 1}), C(data={"x": 1})])
    s.commit()
with Session(e) as s:
    for o in s.query(A).order_by(A.id):
        print(type(o).__name__, "loaded value type:", type(o.data).__name__)
        o.data["y"] = 2
        if o not in s.dirty:
            problems.append(f"{type(o).__name__}: in-place change of the Mutable column did not flag the parent")
    s.commit()
print("propagate=True 'load' listener installed after the hierarchy existed saw:", seen)
if "C" not in seen:
    problems.append("propagate=True load listener on A was never called for a C instance")
with Session(e) as s:
    rows = [(type(o).__name__, o.data) for o in s.query(A).order_by(A.id)]
print("stored:", rows)
if rows[1][1] != {"x": 1, "y": 2}:
    problems.append(f"C: stored value {rows[1][1]} != in-memory value {{'x': 1, 'y': 2}}")
if problems:
    print("DEFECT:", "; ".join(problems))
    raise SystemExit(1)
print("ok")
