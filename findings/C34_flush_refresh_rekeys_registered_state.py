"""C34-R6  orm/persistence.py::_finalize_insert_update_commands:key-write[state]

The identity map finds a state's entry through `state.key`.  `_finalize_insert_update_commands` assigns
`state.key = base_mapper._identity_key_from_state(state)` before the post-flush refresh of server generated columns
(`eager_defaults=True`, or a server side `version_id_col`) -- also for a state that is already persistent and registered
under its OLD key.  When the same flush changed the primary key, Session._register_persistent later finds
`state.key == instance_key`, so it takes neither the `state.key is None` arm nor the key-switch arm: no `safe_discard`
under the old key, no `_key_switches` record.  `identity_map.replace(state)` then files the object under the new key as well.

Visible on every backend where the refresh needs a second SELECT (no UPDATE..RETURNING: MySQL, or RETURNING disabled):
  * the object is registered under BOTH identity keys; `session.get(A, <old pk>)` returns it although no such row exists;
  * rollback() does not restore the key (nothing was recorded): the object keeps the key of a row that was rolled back,
    attribute access raises ObjectDeletedError.

Proposed minimal fix (verified in a scratch worktree, see notes/str-o.md):

         if toload_now:
-            state.key = base_mapper._identity_key_from_state(state)
+            identity_key = base_mapper._identity_key_from_state(state)
+            if state.key is None:
+                state.key = identity_key
             stmt = sql.select(mapper)
             loading._load_on_ident(
                 uowtransaction.session,
                 stmt,
-                state.key,
+                identity_key,

Run:  cd /tmp && /venv/bin/python /verif/findings/C34_flush_refresh_rekeys_registered_state.py
"""
from sqlalchemy import Column, FetchedValue, Integer, String, create_engine, inspect
from sqlalchemy.orm import Session, declarative_base

Base = declarative_base()


class A(Base):
    __tablename__ = "a"
    id = Column(Integer, primary_key=True, autoincrement=False)
    data = Column(String)
    upd = Column(String, server_default="d0", server_onupdate=FetchedValue())
    __mapper_args__ = {"eager_defaults": True}


class B(Base):  # control: no post-flush refresh
    __tablename__ = "b"
    id = Column(Integer, primary_key=True, autoincrement=False)
    data = Column(String)


e = create_engine("sqlite://")
# behave like a backend without UPDATE..RETURNING (e.g. MySQL): the eager default is fetched by a second SELECT
e.dialect.update_returning = False
e.dialect.insert_returning = False
Base.metadata.create_all(e)
with Session(e) as s:
    s.add_all([A(id=1, data="x"), B(id=1, data="x")])
    s.commit()


def run(cls):
    s = Session(e)
    o = s.get(cls, 1)
    o.id = 2
    o.data = "y"
    s.flush()
    keys = sorted(k[1] for k in s.identity_map.keys() if k[0] is cls)
    recorded = len(s._transaction._key_switches)
    stale = s.get(cls, 1)
    print(f"  after flush: identity keys {keys}, key switches recorded: {recorded}, get({cls.__name__}, 1) -> {'the object of row 2' if stale is o else stale}")
    s.rollback()
    key = inspect(o).key[1]
    try:
        val = o.id
    except Exception as ex:
        val = type(ex).__name__
    print(f"  after rollback: key {key}, o.id -> {val}")
    s.close()
    return keys == [(2,)] and recorded == 1 and key == (1,) and val == 1


print("control (no eager defaults): primary key 1 -> 2, flush, rollback")
ok_b = run(B)
print("eager_defaults=True, refresh by SELECT: primary key 1 -> 2, flush, rollback")
ok_a = run(A)
print()
print("DEFECT REPRODUCED" if ok_b and not ok_a else "not reproduced")
