"""C33-R10  orm/session.py::SessionTransaction._restore_snapshot:partial-expire-covers[_deleted]

Rolling back a SAVEPOINT calls `_restore_snapshot(dirty_only=True)`: the deletions recorded in `self._deleted` are
reverted (`_update_impl(s, revert_deletion=True)`: the object is persistent again), but the expire pass that follows lets
only `s.modified or s in self._dirty` through.  An object that was *only* deleted inside the savepoint -- never
modified -- is in `_deleted`, not in `_dirty`, so it comes back un-expired with whatever was changed on it inside the
savepoint without marking it modified.  The visible case: a child removed from a delete-orphan collection (no backref, so
the child itself is not touched) gets its has-parent flag cleared (`state.parents[...] = False`), the flush inside the
savepoint DELETEs it, the savepoint is rolled back: the row is back, the child is back in `parent.children`, yet
`mapper._is_orphan(child)` is still True.  The next time the child is flushed for any reason (an ordinary attribute change),
the unit of work deletes its row: committed data is lost.  The same history at the outer level (`rollback()` of the whole
transaction, dirty_only=False) expires everything and behaves correctly; `InstanceState._expire` is what drops `parents`.

Observation of round-2 seed agent C33 (notes/seed_agent_observations.md, "C33 (round 2)" 1).

Proposed minimal fix (verified in a scratch worktree: this script prints "not reproduced", ./check C33 silent,
test/orm/test_transaction.py test_session.py test_cascade.py test_naturalpks.py test_events.py pass):

         for s in self.session.identity_map.all_states():
-            if not dirty_only or s.modified or s in self._dirty:
+            if (
+                not dirty_only
+                or s.modified
+                or s in self._dirty
+                or s in self._deleted
+            ):
                 s._expire(s.dict, self.session.identity_map._modified)

Run:  cd /tmp && /venv/bin/python /verif/findings/C33_savepoint_rollback_keeps_orphan_flag.py
"""
from sqlalchemy import ForeignKey, Integer, String, create_engine, event, inspect, text
from sqlalchemy.orm import DeclarativeBase, Session, mapped_column, relationship


class Base(DeclarativeBase):
    pass


class P(Base):
    __tablename__ = "p"
    id = mapped_column(Integer, primary_key=True)
    children = relationship("C", cascade="all, delete-orphan")


class C(Base):
    __tablename__ = "c"
    id = mapped_column(Integer, primary_key=True)
    pid = mapped_column(ForeignKey("p.id"))
    data = mapped_column(String, default="x")


e = create_engine("sqlite://")


@event.listens_for(e, "connect")
def _c(dbapi_connection, rec):  # pysqlite SAVEPOINT recipe
    dbapi_connection.isolation_level = None


@event.listens_for(e, "begin")
def _b(conn):
    conn.exec_driver_sql("BEGIN")


Base.metadata.create_all(e)


def run(savepoint):
    with e.begin() as c:
        c.execute(text("delete from c"))
        c.execute(text("delete from p"))
    with Session(e) as s0:
        p0 = P(id=1)
        p0.children.append(C(id=1))
        s0.add(p0)
        s0.commit()
    s = Session(e)
    p = s.get(P, 1)
    c = p.children[0]
    scope = s.begin_nested() if savepoint else None
    p.children.remove(c)
    s.flush()  # delete-orphan: DELETE FROM c
    if savepoint:
        scope.rollback()
    else:
        s.rollback()
        p = s.get(P, 1)
    st = inspect(c)
    rows = s.execute(text("select count(*) from c")).scalar()
    print(f"  after rollback: rows in c={rows}  child persistent={st.persistent} expired={st.expired} "
          f"in parent.children={c in p.children}  mapper._is_orphan(child)={st.mapper._is_orphan(st)}")
    c.data = "changed"  # an ordinary modification of the restored child ...
    s.commit()  # ... whose flush deletes the row when the stale orphan flag survived
    with e.connect() as conn:
        left = conn.execute(text("select count(*) from c")).scalar()
    print(f"  after `child.data = ...; commit()`: rows in c={left} (expected 1)")
    s.close()
    return left == 1


print("rollback of the outer transaction:")
ok_outer = run(False)
print("rollback of a SAVEPOINT:")
ok_sp = run(True)
if ok_outer and not ok_sp:
    print("REPRODUCED: after the savepoint rollback the restored child keeps its orphan flag; a later commit deleted its row")
elif ok_outer and ok_sp:
    print("not reproduced")
else:
    print("unexpected: the outer-level reference history fails too")
