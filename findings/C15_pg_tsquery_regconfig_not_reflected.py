r"""C15-R1 finding (genuine): PostgreSQL columns of type TSQUERY / REGCONFIG are reflected as NullType.

PGTypeCompiler.visit_TSQUERY / visit_REGCONFIG write the native type names TSQUERY / REGCONFIG (both classes are
public: sqlalchemy.dialects.postgresql.TSQUERY, .REGCONFIG).  PostgreSQL's format_type() reports such a column as
"tsquery" / "regconfig".  PGDialect.ischema_names has "tsvector" and "regclass" but neither "tsquery" nor
"regconfig", so PGDialect._reflect_type() warns "Did not recognize type 'tsquery'" and returns NullType: the
reflected table cannot be re-created (NullType has no DDL) and the column's type is lost.

No live PostgreSQL is available here: the script compiles the DDL with the real dialect and feeds the catalog's
type name (documented output of format_type(): the lower case type name) through the dialect's own
_reflect_type().

Run:  cd /tmp && /venv/bin/python /verif/findings/C15_pg_tsquery_regconfig_not_reflected.py   (exit 1 = defect shown)

Minimal fix (verified on a scratch copy: this script exits 0, `SQLASTATIC_ROOT=<copy> ./check C15` holds for both keys):

--- a/lib/sqlalchemy/dialects/postgresql/base.py
+++ b/lib/sqlalchemy/dialects/postgresql/base.py
@@
 from .types import TIMESTAMP as TIMESTAMP
+from .types import TSQUERY as TSQUERY
 from .types import TSVECTOR as TSVECTOR
@@ ischema_names = {
     "oid": OID,
     "regclass": REGCLASS,
+    "regconfig": REGCONFIG,
     "double precision": DOUBLE_PRECISION,
@@
     "interval": INTERVAL,
     "tsvector": TSVECTOR,
+    "tsquery": TSQUERY,
 }
"""
import sys
import warnings

from sqlalchemy import Column, Integer, MetaData, Table
from sqlalchemy.dialects import postgresql
from sqlalchemy.dialects.postgresql import REGCLASS, REGCONFIG, TSQUERY, TSVECTOR
from sqlalchemy.schema import CreateTable
from sqlalchemy.types import NullType

dialect = postgresql.dialect()


class NoNamedTypes:
    enums = {}
    domains = {}


bad = False
for typ in (TSVECTOR, REGCLASS, TSQUERY, REGCONFIG):
    t = Table("t", MetaData(), Column("id", Integer, primary_key=True), Column("x", typ))
    ddl = [ln.strip() for ln in str(CreateTable(t).compile(dialect=dialect)).splitlines() if ln.strip().startswith("x ")][0]
    written = ddl.split(None, 1)[1].rstrip(", ")
    catalog = written.lower()           # format_type() prints the lower case name of these types
    with warnings.catch_warnings(record=True) as w:
        warnings.simplefilter("always")
        got = dialect._reflect_type(catalog, NoNamedTypes(), "column 'x'", None)
    print(f"{typ.__name__:10} written as {written!r:12} catalog {catalog!r:12} reflected as {got!r}"
          + (f"   warning: {w[0].message}" if w else ""))
    if isinstance(got, NullType):
        bad = True

if bad:
    print("\nDEFECT: a native type the dialect writes is not known to its own reflection (NullType)")
    sys.exit(1)
print("\nno difference observed")
