"""C03-R1 findings (unchanged tree), keys
    sql/dml.py::UpdateBase.with_dialect_options:self.dialect_options
    sql/selectable.py::GenerativeSelect.fetch:self.dialect_options

Both generative methods call the non-generative helper DialectKWArgs._validate_dialect_kwargs() on the copy made
by _generate().  The helper stores into `self.dialect_options[...]`.  `dialect_options` is a plain
`util.memoized_property`: its value lives in __dict__ under a key that is NOT registered in `_memoized_keys`, so
Generative._generate() (a shallow __dict__ copy that only skips `_memoized_keys`) hands the very same PopulateDict /
_DialectArgDict objects to the copy whenever the attribute was already computed on the original -- e.g. after the
original was compiled once on that dialect, or after a previous with_dialect_options()/fetch(**kw) call.

Effect: the generative call changes the SQL of the statement it was called on and of every statement derived
from it earlier.

Run:  cd /tmp && /venv/bin/python /verif/findings/C03_dialect_options_shared_with_parent.py
"""
import sys

from sqlalchemy import Column, Integer, MetaData, Table, select
from sqlalchemy.dialects import mysql, oracle

m = MetaData()
t = Table("t", m, Column("id", Integer, primary_key=True), Column("x", Integer))
bad = []


def sql(stmt, dialect):
    return " ".join(str(stmt.compile(dialect=dialect)).split())


# 1. UPDATE ... with_dialect_options(): two statements derived from `a`
a = t.update().values(x=1).with_dialect_options(mysql_limit=10)
b = a.where(t.c.id == 1)                      # derived earlier
a_before, b_before = sql(a, mysql.dialect()), sql(b, mysql.dialect())
c = a.with_dialect_options(mysql_limit=99)    # generative call on `a`
a_after, b_after = sql(a, mysql.dialect()), sql(b, mysql.dialect())
print("a before:", a_before)
print("a after :", a_after)
print("b before:", b_before)
print("b after :", b_after)
if a_before != a_after or b_before != b_after:
    bad.append("with_dialect_options() changed the statement it was called on / an earlier derived statement")

# 2. the same through a mere compile of the parent (memoises dialect_options["mysql"])
p = t.update().values(x=1)
p_before = sql(p, mysql.dialect())
p.with_dialect_options(mysql_limit=10)
p_after = sql(p, mysql.dialect())
print("p before:", p_before)
print("p after :", p_after)
if p_before != p_after:
    bad.append("with_dialect_options() after a compile changed the parent")

# 3. SELECT ... fetch(n, oracle_fetch_approximate=True)
s = select(t).fetch(5)
s_before = sql(s, oracle.dialect())
s.fetch(5, oracle_fetch_approximate=True)
s_after = sql(s, oracle.dialect())
print("s before:", s_before)
print("s after :", s_after)
if s_before != s_after:
    bad.append("fetch(**dialect_kw) changed the parent SELECT")

if bad:
    print("FINDING CONFIRMED:", "; ".join(bad))
    sys.exit(1)
print("not reproduced")
