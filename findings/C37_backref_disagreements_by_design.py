"""C37 -- three pre-existing disagreements between the two sides of a bidirectional relationship (NO rule fires; for the record)

Observations (b), (c), (d) of the round-2 seed agent for C37 (notes/seed_agent_observations.md, "C37 (round 2)"); (a) is the
known finding C37-R6.  All three reproduce on the unchanged library; triage in notes/str2-p.md section 4:

(b) one-to-one scalar pair, child moved from the parent's side: `a1.b = b1; a2.b = b1` -> `b1.a is a2` but `a1.b is b1` still.
    The set handler of B.a (fired by the mirror append) finds the old parent a1, but its pop from a1.b is guarded by
    `initiator is not <A.b impl>._replace_token` -- the initiator of the whole chain IS that token (it was created by `a2.b = ..`
    on the same attribute of ANOTHER object), so the recursion guard mistakes "same attribute, other object" for "coming back".
    Pinned by upstream tests: test/orm/test_backref_mutations.py::O2OScalarBackrefMoveTest::test_collection_move_preloaded
    ("doesn't extend to the previous attribute tho. flushing at this point means its anyone's guess.") and siblings.
(c) a transient child that is not in the session gets `child.parent = p` while `p.children` is not loaded: the backref queues a
    pending append; the first access of `p.children` autoflushes p, the flush drops p's pending mutations
    (InstanceState._commit_all_states) although the child was not flushed (SAWarning "Object of type <C> not in session, add
    operation along 'P.cs' will not proceed"), then the collection loads without the child: `c.p is p` but `c not in p.cs`.
    With autoflush off, or the child added to the session first, both sides agree.
(d) a child whose attributes are all expired (foreign key included) is re-parented while the old parent's collection is loaded:
    the old value is fetched without SQL (PASSIVE_NO_FETCH unless active_history=True), is unknown, so nothing is removed from
    the old parent's collection: `c.p is p2`, `c in p2.cs` and `c in p1.cs` until p1.cs is expired (commit).

Exit code 1 when all three still reproduce (they are expected to).

Run:  cd /tmp && /venv/bin/python /verif/findings/C37_backref_disagreements_by_design.py
"""
import sys
import warnings

from sqlalchemy import Column, ForeignKey, Integer, create_engine
from sqlalchemy.orm import Session, declarative_base, relationship

Base = declarative_base()


class A(Base):
    __tablename__ = "a"
    id = Column(Integer, primary_key=True)
    b = relationship("B", back_populates="a", uselist=False)


class B(Base):
    __tablename__ = "b"
    id = Column(Integer, primary_key=True)
    aid = Column(ForeignKey("a.id"))
    a = relationship("A", back_populates="b")


class P(Base):
    __tablename__ = "p"
    id = Column(Integer, primary_key=True)
    cs = relationship("C", back_populates="p")


class C(Base):
    __tablename__ = "c"
    id = Column(Integer, primary_key=True)
    pid = Column(ForeignKey("p.id"))
    p = relationship("P", back_populates="cs")


e = create_engine("sqlite://")
Base.metadata.create_all(e)
seen = []

# (b)
a1, a2, b1 = A(id=1), A(id=2), B(id=1)
a1.b = b1
a2.b = b1
print("(b) b1.a is a2: %s | a2.b is b1: %s | a1.b is b1 (stale): %s" % (b1.a is a2, a2.b is b1, a1.b is b1))
if b1.a is a2 and a1.b is b1:
    seen.append("b")
# the same move made from the many-to-one side is mirrored correctly
a1, a2, b1 = A(id=1), A(id=2), B(id=1)
b1.a = a1
b1.a = a2
assert a1.b is None and a2.b is b1

with Session(e) as s:
    s.add_all([P(id=1), P(id=2), C(id=7, pid=1)])
    s.commit()

# (c)
with Session(e) as s:
    p = s.get(P, 1)
    c = C(id=50)
    c.p = p
    with warnings.catch_warnings(record=True) as w:
        warnings.simplefilter("always")
        members = list(p.cs)
    print("(c) c in session: %s | c.p is p: %s | c in p.cs: %s | warning: %s" % (c in s, c.p is p, c in members, [str(x.message)[:68] for x in w]))
    if c.p is p and c not in members:
        seen.append("c")
    s.rollback()

# (d)
with Session(e) as s:
    p1, p2, c = s.get(P, 1), s.get(P, 2), s.get(C, 7)
    assert c in p1.cs
    s.expire(c)
    with s.no_autoflush:
        c.p = p2
    s.flush()
    print("(d) after flush: c.p is p2: %s | c in p2.cs: %s | c in p1.cs (stale): %s" % (c.p is p2, c in p2.cs, c in p1.cs))
    if c.p is p2 and c in p1.cs:
        seen.append("d")
    s.rollback()

print("reproduced:", seen)
sys.exit(1 if seen else 0)
