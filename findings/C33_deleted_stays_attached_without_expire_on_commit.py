"""C33-R4  orm/session.py::SessionTransaction._remove_snapshot:detach-deleted-on-root-commit

Documented lifecycle: "Deleted -> Detached: the deleted object becomes detached when the session's transaction
is committed."  SessionTransaction._remove_snapshot() detaches `self._deleted` only inside the arm
`if not self.nested and self.session.expire_on_commit:`.  With Session(expire_on_commit=False) an object
deleted and flushed in a transaction that is then COMMITTED stays in the 'deleted' state: still attached to the
session (inspect(obj).session is the session, .deleted is True, .detached is False), the `deleted_to_detached`
event never fires, and the state no longer agrees with the database scope that survived (the row is gone for
good, yet the object still claims it could be restored by a rollback).

Run:  cd /tmp && /venv/bin/python /verif/findings/C33_deleted_stays_attached_without_expire_on_commit.py
"""
import inspect as _inspect
import textwrap

from sqlalchemy import Integer, create_engine, event, inspect
from sqlalchemy.orm import DeclarativeBase, Session, mapped_column
from sqlalchemy.orm import session as session_mod


class Base(DeclarativeBase):
    pass


class A(Base):
    __tablename__ = "a"
    id = mapped_column(Integer, primary_key=True)


def lifecycle(st):
    return [k for k in ("transient", "pending", "persistent", "deleted", "detached") if getattr(st, k)]


def run():
    e = create_engine("sqlite://")
    Base.metadata.create_all(e)
    out = {}
    for eoc in (True, False):
        s = Session(e, expire_on_commit=eoc)
        evs = []
        event.listen(s, "deleted_to_detached", lambda sess, inst: evs.append("deleted_to_detached"))
        a = A(id=1 if eoc else 2)
        s.add(a)
        s.commit()
        s.delete(a)
        s.commit()                      # the DELETE is committed: nothing can bring the row back
        st = inspect(a)
        out[eoc] = (lifecycle(st), st.session is s, evs)
        print(f"  expire_on_commit={eoc}: state after commit {lifecycle(st)}; still attached: {st.session is s}; events {evs}")
    return out


print("== unchanged library ==")
r = run()
bad = r[True][0] == ["detached"] and r[False][0] == ["deleted"] and r[False][1] and not r[False][2]

# ---- proposed minimal fix: detach the deleted objects on every root commit (library file not modified)
src = textwrap.dedent(_inspect.getsource(session_mod.SessionTransaction._remove_snapshot))
old = (
    "    if not self.nested and self.session.expire_on_commit:\n"
    "        for s in self.session.identity_map.all_states():\n"
    "            s._expire(s.dict, self.session.identity_map._modified)\n"
    "\n"
)
new = (
    "    if not self.nested:\n"
    "        if self.session.expire_on_commit:\n"
    "            for s in self.session.identity_map.all_states():\n"
    "                s._expire(s.dict, self.session.identity_map._modified)\n"
    "\n"
)
assert src.count(old) == 1
src = src.replace(old, new)
ns = {}
exec(compile("from __future__ import annotations\n" + src, "<patched _remove_snapshot>", "exec"), session_mod.__dict__, ns)
session_mod.SessionTransaction._remove_snapshot = ns["_remove_snapshot"]
print("== with the proposed fix ==")
r2 = run()
good = r2[False][0] == ["detached"] and r2[False][2] == ["deleted_to_detached"]
print()
print("DEFECT REPRODUCED" if bad and good else "not reproduced")
