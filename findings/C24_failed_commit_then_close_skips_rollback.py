"""C24-R3 finding: after a failing DBAPI commit(), Connection.close() returns the connection to the
pool WITHOUT any rollback, although reset_on_return is the default ("rollback").

Mechanism (engine/base.py):
  * RootTransaction._do_commit: when _connection_commit_impl() raises, the `finally` deactivates the
    transaction (is_active = False) but deliberately leaves it attached as Connection._transaction
    ("it stays on so that a rollback needs to occur").
  * Connection.close(): `if self._transaction:` -> self._transaction.close() -> RootTransaction._close_impl()
    guards the rollback with `if self.is_active:` -> NO rollback is emitted; the finally detaches the
    transaction.  close() then sets skip_reset = True unconditionally and calls
    fairy._close_special(transaction_reset=True) -> _ConnectionFairy._reset() sees transaction_was_reset=True and
    skips pool._dialect.do_rollback() too.
  => nobody rolled back; the DBAPI connection is pooled with the failed transaction still open and the next
     checkout sees (and can commit) the previous user's uncommitted rows.

The same happens with `with engine.connect() as conn:` when the user catches the commit error inside the block,
and with `conn.begin()` objects whose commit() failed and were then abandoned (no explicit rollback()).

Failing input used here: a sqlite3.Connection subclass whose commit() raises once (a stand-in for a serialization
failure / deferred-constraint error / network error that is not classified as a disconnect), default QueuePool.

Run:  cd /tmp && /venv/bin/python /verif/findings/C24_failed_commit_then_close_skips_rollback.py
"""
import os
import shutil
import sqlite3
import sys
import tempfile

from sqlalchemy import create_engine, event, pool, text

CALLS = []


class FlakyConnection(sqlite3.Connection):
    fail_next_commit = False

    def commit(self):
        if self.fail_next_commit:
            self.fail_next_commit = False
            CALLS.append("commit->raise")
            raise sqlite3.OperationalError("could not serialize access (simulated)")
        CALLS.append("commit")
        return super().commit()

    def rollback(self):
        CALLS.append("rollback")
        return super().rollback()


def scenario(name, user):
    d = tempfile.mkdtemp(prefix="c24fc_")
    try:
        path = os.path.join(d, "t.db")
        e = create_engine(
            "sqlite:///" + path, poolclass=pool.QueuePool, pool_size=1, max_overflow=0,
            connect_args={"factory": FlakyConnection},
        )
        with e.begin() as c:
            c.execute(text("create table t (x integer)"))
        del CALLS[:]
        raw = user(e)
        after_close = list(CALLS)
        # next user of the pool
        c2 = e.connect()
        raw2 = c2.connection.dbapi_connection
        in_tx = raw2.in_transaction
        rows = [r[0] for r in raw2.execute("select x from t").fetchall()]
        c2.close()
        e.dispose()
        leaked = raw2 is raw and (in_tx or rows)
        print(f"{name}: DBAPI calls during user's checkout+close = {after_close}; next checkout: "
              f"same_dbapi_connection={raw2 is raw} in_transaction={in_tx} rows_visible={rows} LEAKED={bool(leaked)}")
        return bool(leaked)
    finally:
        shutil.rmtree(d, ignore_errors=True)


def user_connection_commit(e):
    c = e.connect()
    raw = c.connection.dbapi_connection
    c.execute(text("insert into t values (101)"))
    raw.fail_next_commit = True
    try:
        c.commit()
    except Exception as ex:
        print("   commit failed as arranged:", type(ex).__name__)
    c.close()   # "Any transactional state present on the DBAPI connection is also unconditionally released"
    return raw


def user_context_manager(e):
    with e.connect() as c:
        raw = c.connection.dbapi_connection
        c.execute(text("insert into t values (102)"))
        raw.fail_next_commit = True
        try:
            c.commit()
        except Exception as ex:
            print("   commit failed as arranged:", type(ex).__name__)
    return raw


def user_transaction_object(e):
    c = e.connect()
    raw = c.connection.dbapi_connection
    t = c.begin()
    c.execute(text("insert into t values (103)"))
    raw.fail_next_commit = True
    try:
        t.commit()
    except Exception as ex:
        print("   commit failed as arranged:", type(ex).__name__)
    c.close()
    return raw


def control_explicit_rollback(e):
    c = e.connect()
    raw = c.connection.dbapi_connection
    c.execute(text("insert into t values (104)"))
    raw.fail_next_commit = True
    try:
        c.commit()
    except Exception:
        c.rollback()
    c.close()
    return raw


def main():
    leaked = 0
    leaked += scenario("A  conn.commit() fails, conn.close()", user_connection_commit)
    leaked += scenario("B  commit fails inside `with engine.connect()`", user_context_manager)
    leaked += scenario("C  Transaction.commit() fails, conn.close()", user_transaction_object)
    ctl = scenario("control (explicit rollback before close)", control_explicit_rollback)
    print()
    if leaked:
        print(f"DEFECT REPRODUCED in {leaked} of 3 histories: no rollback() reached the DBAPI connection between the "
              "failed commit and the check-in (reset_on_return='rollback'), the next checkout inherits the open "
              "transaction and the uncommitted rows.")
    else:
        print("not reproduced")
    if ctl:
        print("UNEXPECTED: control history leaked too")
    return 1 if leaked else 0


if __name__ == "__main__":
    sys.exit(main())
