"""C05-R4 finding (unchanged tree), key
    sql/compiler.py::SQLCompiler.render_literal_bindparam:none-to-null

Three sites short-circuit a typed Python None to the SQL NULL keyword.  Two of them
(coercions.ExpressionElementImpl._literal_coercion, SQLCompiler.render_literal_value) do so only when
`not type_.should_evaluate_none`, because for an "evaluates None" type (JSON null, SomeType().evaluates_none(), a
TypeDecorator that maps None) the bound-parameter path hands None to the type's bind processor.  The third,
SQLCompiler.render_literal_bindparam, returns NULL for `bindparam.value is None` without looking at the type.

Consequence: the same statement stores / matches different rows with literal_binds than with bound parameters
(and than with literal_execute, which goes through render_literal_value).

Run:  cd /tmp && /venv/bin/python /verif/findings/C05_literal_binds_none_ignores_evaluates_none.py
"""
import sys

from sqlalchemy import JSON, Column, Integer, MetaData, String, Table, bindparam, create_engine, select
from sqlalchemy.types import TypeDecorator


class Marker(TypeDecorator):
    impl = String
    cache_ok = True

    def process_bind_param(self, value, dialect):
        return "<none>" if value is None else value

    def process_literal_param(self, value, dialect):
        return "<none>" if value is None else value


e = create_engine("sqlite://")
m = MetaData()
t = Table("t", m, Column("id", Integer, primary_key=True), Column("j", JSON), Column("s", Marker().evaluates_none()))
m.create_all(e)
bad = []
with e.begin() as c:
    c.execute(t.insert().values(id=1, j=None, s=None))                                   # bound
    lit = str(t.insert().values(id=2, j=None, s=None).compile(e, compile_kwargs={"literal_binds": True}))
    print("literal_binds INSERT:", " ".join(lit.split()))
    c.exec_driver_sql(lit)                                                                  # literal_binds
    c.execute(t.insert().values(id=3, s=bindparam("s", None, type_=Marker().evaluates_none(), literal_execute=True)))
    rows = c.exec_driver_sql("select id, j, s from t order by id").all()
    print("stored rows (id, j, s):", rows)
    if rows[0][1:] != rows[1][1:]:
        bad.append(f"INSERT of None: bound stored {rows[0][1:]}, literal_binds stored {rows[1][1:]}")
    crit = t.c.s == bindparam("p", None, type_=Marker().evaluates_none())
    bound_rows = c.execute(select(t.c.id).where(crit)).all()
    import warnings
    with warnings.catch_warnings():
        warnings.simplefilter("ignore")
        lit_sel = str(select(t.c.id).where(crit).compile(e, compile_kwargs={"literal_binds": True}))
    lit_rows = c.exec_driver_sql(lit_sel).all()
    print("SELECT bound rows:", bound_rows, "| literal_binds rows:", lit_rows, "|", " ".join(lit_sel.split()))
    if bound_rows != lit_rows:
        bad.append(f"SELECT ... WHERE s = None: bound {bound_rows} vs literal_binds {lit_rows}")

if bad:
    print("FINDING CONFIRMED:", "; ".join(bad))
    sys.exit(1)
print("not reproduced")
