"""C33-R4  orm/session.py::SessionTransaction._remove_snapshot:_key_switches:merge-keeps-original

`_key_switches[state] = (original key in this scope, current key)`.  Session._register_persistent is careful to keep the
first component when the same object switches keys twice in one scope (`if state in trans._key_switches: orig_key =
trans._key_switches[state][0]`).  Releasing a SAVEPOINT merges with a blind `parent._key_switches.update(self._key_switches)`:
if the object had already switched keys in the parent scope (1 -> 2) and switches again inside the savepoint (2 -> 3), the
parent's entry (1, 2) is overwritten with (2, 3).  Rolling the parent back then "restores" key 2 -- a row that never
existed outside the transaction: the object is persistent under a wrong identity, attribute access raises
ObjectDeletedError and Session.get(T, 1) loads a *second* object for the row (two Python objects / one row is excluded
only by luck of the key).

Proposed minimal fix (verified in a scratch worktree):

-            parent._key_switches.update(self._key_switches)
+            for s, (oldkey, newkey) in self._key_switches.items():
+                if s in parent._key_switches:
+                    oldkey = parent._key_switches[s][0]
+                parent._key_switches[s] = (oldkey, newkey)

Run:  cd /tmp && /venv/bin/python /verif/findings/C33_savepoint_release_overwrites_original_key.py
"""
from sqlalchemy import Column, Integer, String, create_engine, event, inspect, text
from sqlalchemy.orm import Session, declarative_base

Base = declarative_base()


class T(Base):
    __tablename__ = "t"
    id = Column(Integer, primary_key=True, autoincrement=False)
    name = Column(String)


e = create_engine("sqlite://")


@event.listens_for(e, "connect")
def _c(dbapi_connection, rec):  # pysqlite SAVEPOINT recipe
    dbapi_connection.isolation_level = None


@event.listens_for(e, "begin")
def _b(conn):
    conn.exec_driver_sql("BEGIN")


Base.metadata.create_all(e)


def run(release_savepoint):
    with e.begin() as c:
        c.execute(text("delete from t"))
    s = Session(e)
    o = T(id=1, name="a")
    s.add(o)
    s.commit()
    s.begin()
    o.id = 2
    s.flush()
    if release_savepoint:
        sp = s.begin_nested()
        o.id = 3
        s.flush()
        sp.commit()
    else:
        o.id = 3
        s.flush()
    s.rollback()
    with e.connect() as c:
        rows = [tuple(r) for r in c.execute(text("select id, name from t"))]
    key = inspect(o).key[1]
    try:
        val = (o.id, o.name)
    except Exception as ex:
        val = type(ex).__name__
    same = s.get(T, 1) is o
    print(f"  rows={rows} key after rollback={key} attributes={val} get(T, 1) is o: {same}")
    s.close()
    return key == (1,) and same


print("1 -> 2 -> 3 in one scope, rollback:")
a = run(False)
print("1 -> 2 in the transaction, 2 -> 3 in a released SAVEPOINT, rollback:")
b = run(True)
print()
print("DEFECT REPRODUCED" if a and not b else "not reproduced")
