"""C44 finding (unchanged tree): versioned DELETE of >= 2 objects on a dialect with reliable single-row counts
but no reliable executemany counts is never verified.

`_emit_delete_statements` runs such DELETEs one statement per row *so that versioned rows can be verified*
(the comment says so) and sums the per-statement rowcounts, but the final test is still conjoined with
`connection.dialect.supports_sane_multi_rowcount or len(del_objects) == 1` -- a condition that is about
executemany rowcounts and is false on exactly this path whenever 2+ objects are deleted.  A stale version then
neither raises StaleDataError nor warns; the flush "succeeds" and the other session's rows survive.
The two UPDATE emitters set `check_rowcount = assert_singlerow` on their one-statement-per-row path.

Dialects with supports_sane_rowcount=True and supports_sane_multi_rowcount=False: mssql+pyodbc, oracle
(cx_oracle/oracledb < some versions), mysql+mysqlconnector, ... ; simulated here on SQLite by switching the flag.

Run: cd /tmp && /venv/bin/python /verif/findings/C44_versioned_multi_delete_unverified_without_multi_rowcount.py
"""
import sys
import warnings

from sqlalchemy import Column, Integer, String, create_engine, text
from sqlalchemy.orm import Session, declarative_base
from sqlalchemy.orm.exc import StaleDataError
from sqlalchemy.pool import StaticPool

Base = declarative_base()


class Doc(Base):
    __tablename__ = "doc"
    id = Column(Integer, primary_key=True)
    version_id = Column(Integer, nullable=False)
    body = Column(String)
    __mapper_args__ = {"version_id_col": version_id}


def run(n_deleted, multi):
    e = create_engine("sqlite://", poolclass=StaticPool, connect_args={"check_same_thread": False})
    e.dialect.supports_sane_multi_rowcount = multi
    Base.metadata.create_all(e)
    with Session(e) as s:
        s.add_all([Doc(id=i, body="x") for i in (1, 2, 3)])
        s.commit()
    s1 = Session(e)
    docs = s1.query(Doc).order_by(Doc.id).all()
    # another transaction bumps every version
    with e.begin() as conn:
        conn.execute(text("update doc set version_id = version_id + 1, body = 'changed elsewhere'"))
    for d in docs[:n_deleted]:
        s1.delete(d)
    with warnings.catch_warnings(record=True) as w:
        warnings.simplefilter("always")
        try:
            s1.flush()
            out = "flush OK (no error)"
        except StaleDataError as err:
            out = "StaleDataError"
        finally:
            s1.rollback()
    with e.connect() as conn:
        left = conn.execute(text("select count(*) from doc")).scalar()
    return out, [str(x.message)[:60] for x in w], left


bad = False
for multi in (True, False):
    for n in (1, 2, 3):
        out, warns, left = run(n, multi)
        verdict = "ok" if out == "StaleDataError" else "LOST: stale versioned delete not detected"
        if out != "StaleDataError":
            bad = True
        print(f"supports_sane_multi_rowcount={multi!s:5} stale deletes={n}: {out:22} warnings={warns} rows left={left}  -> {verdict}")
print("FINDING REPRODUCED" if bad else "not reproduced")
sys.exit(1 if bad else 0)
