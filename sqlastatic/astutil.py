"""AST helpers shared by the rules."""

from __future__ import annotations

import ast
from typing import Callable, Dict, Iterable, Iterator, List, Optional, Sequence, Tuple

FuncNode = (ast.FunctionDef, ast.AsyncFunctionDef)
ScopeNode = (ast.FunctionDef, ast.AsyncFunctionDef, ast.Lambda, ast.ClassDef)


def dotted(node: ast.AST) -> Optional[str]:
    """`a.b.c` for Name/Attribute chains (calls in the chain are rendered `f()`), else None."""
    parts = []
    while True:
        if isinstance(node, ast.Attribute):
            parts.append(node.attr)
            node = node.value
        elif isinstance(node, ast.Name):
            parts.append(node.id)
            break
        elif isinstance(node, ast.Call):
            inner = dotted(node.func)
            if inner is None:
                return None
            parts.append(inner + "()")
            break
        else:
            return None
    return ".".join(reversed(parts))


def unparse(node) -> str:
    try:
        return ast.unparse(node)
    except Exception:
        return "<?>"


def norm(node) -> str:
    """Normalised statement/expression text (formatting independent)."""
    return unparse(node)


def walk_local(node: ast.AST, into_nested=False) -> Iterator[ast.AST]:
    """Walk `node` without descending into nested function/class/lambda scopes
    (the root itself may be a function)."""
    stack = list(ast.iter_child_nodes(node))
    while stack:
        n = stack.pop()
        yield n
        if not into_nested and isinstance(n, ScopeNode):
            continue
        stack.extend(ast.iter_child_nodes(n))


def walk_stmts(body: Sequence[ast.stmt]) -> Iterator[ast.stmt]:
    """All statements lexically inside `body` (same function scope), in source order."""
    for st in body:
        yield st
        if isinstance(st, ScopeNode):
            continue
        for fld in ("body", "orelse", "finalbody"):
            sub = getattr(st, fld, None)
            if sub and isinstance(sub, list) and sub and isinstance(sub[0], ast.stmt):
                yield from walk_stmts(sub)
        if isinstance(st, ast.Try):
            for h in st.handlers:
                yield from walk_stmts(h.body)
        if isinstance(st, ast.Match):
            for c in st.cases:
                yield from walk_stmts(c.body)


def calls_in(node: ast.AST, into_nested=False) -> List[ast.Call]:
    out = [n for n in walk_local(node, into_nested) if isinstance(n, ast.Call)]
    if isinstance(node, ast.Call):
        out.append(node)
    out.sort(key=lambda c: (c.lineno, c.col_offset))
    return out


def call_name(c: ast.Call) -> Optional[str]:
    return dotted(c.func)


def find_calls(node: ast.AST, pred: Callable[[str], bool], into_nested=False) -> List[ast.Call]:
    """Calls whose dotted callee name satisfies pred (e.g. lambda n: n.endswith('._reset'))."""
    out = []
    for c in calls_in(node, into_nested):
        n = call_name(c)
        if n is not None and pred(n):
            out.append(c)
    return out


def calls_named(node: ast.AST, *suffixes: str, into_nested=False) -> List[ast.Call]:
    """Calls whose callee is exactly one of `suffixes` or ends with '.'+suffix."""
    def pred(n):
        return any(n == s or n.endswith("." + s) for s in suffixes)
    return find_calls(node, pred, into_nested)


def stmt_calls(st: ast.stmt, *suffixes: str) -> bool:
    """Does the statement's *own* expression part (not nested block bodies) call one of the names?"""
    for part in own_exprs(st):
        if calls_named(part, *suffixes):
            return True
    return False


def own_exprs(st: ast.stmt) -> List[ast.AST]:
    """The expressions evaluated by the statement itself, excluding nested statement blocks."""
    if isinstance(st, (ast.If, ast.While)):
        return [st.test]
    if isinstance(st, (ast.For, ast.AsyncFor)):
        return [st.iter, st.target]
    if isinstance(st, (ast.With, ast.AsyncWith)):
        out = []
        for it in st.items:
            out.append(it.context_expr)
            if it.optional_vars is not None:
                out.append(it.optional_vars)
        return out
    if isinstance(st, ast.Try):
        return []
    if isinstance(st, ast.Match):
        return [st.subject]
    if isinstance(st, ScopeNode):
        return list(getattr(st, "decorator_list", []))
    return [st]


def attr_stores(node: ast.AST, into_nested=False) -> List[Tuple[str, ast.AST, ast.stmt]]:
    """(dotted target, target node, statement) for every attribute store `a.b = ...`,
    `a.b += ...`, `del a.b` lexically inside node."""
    out = []
    for n in ([node] if isinstance(node, ast.stmt) else []) + list(walk_local(node, into_nested)):
        targets = []
        if isinstance(n, ast.Assign):
            targets = n.targets
        elif isinstance(n, (ast.AugAssign, ast.AnnAssign)):
            if isinstance(n, ast.AnnAssign) and n.value is None:
                continue
            targets = [n.target]
        elif isinstance(n, ast.Delete):
            targets = n.targets
        elif isinstance(n, (ast.For, ast.AsyncFor)):
            targets = [n.target]
        elif isinstance(n, (ast.With, ast.AsyncWith)):
            targets = [i.optional_vars for i in n.items if i.optional_vars is not None]
        for t in targets:
            for e in _flatten_target(t):
                if isinstance(e, ast.Attribute):
                    d = dotted(e)
                    if d:
                        out.append((d, e, n))
    return out


def name_stores(node: ast.AST, into_nested=False) -> List[Tuple[str, ast.expr, ast.stmt]]:
    """(name, value-or-None, statement) for every simple-name binding inside node."""
    out = []
    for n in walk_local(node, into_nested):
        if isinstance(n, ast.Assign):
            for t in n.targets:
                for e in _flatten_target(t):
                    if isinstance(e, ast.Name):
                        out.append((e.id, n.value if isinstance(t, ast.Name) else None, n))
        elif isinstance(n, ast.AnnAssign) and n.value is not None and isinstance(n.target, ast.Name):
            out.append((n.target.id, n.value, n))
        elif isinstance(n, ast.AugAssign) and isinstance(n.target, ast.Name):
            out.append((n.target.id, None, n))
        elif isinstance(n, (ast.For, ast.AsyncFor)):
            for e in _flatten_target(n.target):
                if isinstance(e, ast.Name):
                    out.append((e.id, None, n))
        elif isinstance(n, (ast.With, ast.AsyncWith)):
            for i in n.items:
                if i.optional_vars is not None:
                    for e in _flatten_target(i.optional_vars):
                        if isinstance(e, ast.Name):
                            out.append((e.id, i.context_expr if isinstance(i.optional_vars, ast.Name) else None, n))
        elif isinstance(n, ast.NamedExpr) and isinstance(n.target, ast.Name):
            out.append((n.target.id, n.value, n))
    return out


def _flatten_target(t) -> List[ast.AST]:
    if isinstance(t, (ast.Tuple, ast.List)):
        out = []
        for e in t.elts:
            out.extend(_flatten_target(e))
        return out
    if isinstance(t, ast.Starred):
        return _flatten_target(t.value)
    return [t]


def subscript_stores(node: ast.AST, into_nested=False) -> List[Tuple[str, ast.Subscript, ast.stmt]]:
    """(dotted container, subscript node, statement) for `c[k] = v`, `c[k] += v`, `del c[k]`."""
    out = []
    for n in walk_local(node, into_nested):
        targets = []
        if isinstance(n, ast.Assign):
            targets = n.targets
        elif isinstance(n, ast.AugAssign):
            targets = [n.target]
        elif isinstance(n, ast.Delete):
            targets = n.targets
        for t in targets:
            for e in _flatten_target(t):
                if isinstance(e, ast.Subscript):
                    d = dotted(e.value)
                    if d:
                        out.append((d, e, n))
    return out


MUTATING_METHODS = {
    "append", "extend", "insert", "remove", "pop", "clear", "sort", "reverse",
    "add", "discard", "update", "difference_update", "intersection_update",
    "symmetric_difference_update", "setdefault", "popitem", "appendleft", "extendleft",
    "popleft", "__setitem__", "__delitem__",
}


def mutating_calls(node: ast.AST, into_nested=False) -> List[Tuple[str, str, ast.Call]]:
    """(dotted receiver, method, call) for calls of in-place mutating methods."""
    out = []
    for c in calls_in(node, into_nested):
        if isinstance(c.func, ast.Attribute) and c.func.attr in MUTATING_METHODS:
            d = dotted(c.func.value)
            if d:
                out.append((d, c.func.attr, c))
    return out


def parent_map(root: ast.AST) -> Dict[ast.AST, ast.AST]:
    p = {}
    for n in ast.walk(root):
        for c in ast.iter_child_nodes(n):
            p[c] = n
    return p


def enclosing_stmt(pm: Dict[ast.AST, ast.AST], node: ast.AST) -> Optional[ast.stmt]:
    cur = node
    while cur is not None and not isinstance(cur, ast.stmt):
        cur = pm.get(cur)
    return cur


def ancestors(pm: Dict[ast.AST, ast.AST], node: ast.AST) -> Iterator[ast.AST]:
    cur = pm.get(node)
    while cur is not None:
        yield cur
        cur = pm.get(cur)


def block_of(pm, st: ast.stmt) -> Tuple[Optional[ast.AST], Optional[str], Optional[List[ast.stmt]]]:
    """(parent node, field name, list) of the statement list that directly contains st."""
    par = pm.get(st)
    if par is None:
        return None, None, None
    for fld in ("body", "orelse", "finalbody"):
        lst = getattr(par, fld, None)
        if isinstance(lst, list) and any(x is st for x in lst):
            return par, fld, lst
    if isinstance(par, ast.ExceptHandler):
        return par, "body", par.body
    return par, None, None


def lexical_guards(pm, node: ast.AST, stop: Optional[ast.AST] = None) -> List[Tuple[ast.expr, bool]]:
    """Conditions under which `node` executes, read from enclosing if/elif/while/ternary
    structure: list of (test expr, polarity) from outermost to innermost.  An `elif`/`else`
    arm contributes (test, False) for each preceding test of its chain.
    Early-return guards are NOT included (use CFG.edge_guards for those)."""
    out = []
    child = node
    for anc in ancestors(pm, node):
        if anc is stop:
            break
        if isinstance(anc, (ast.If, ast.While)):
            if any(child is x for x in anc.body):
                out.append((anc.test, True))
            elif any(child is x for x in anc.orelse):
                out.append((anc.test, False))
        elif isinstance(anc, ast.IfExp):
            if child is anc.body:
                out.append((anc.test, True))
            elif child is anc.orelse:
                out.append((anc.test, False))
        elif isinstance(anc, ast.BoolOp) and isinstance(anc.op, ast.And):
            idx = [i for i, v in enumerate(anc.values) if v is child]
            if idx:
                for v in anc.values[: idx[0]]:
                    out.append((v, True))
        elif isinstance(anc, ast.BoolOp) and isinstance(anc.op, ast.Or):
            idx = [i for i, v in enumerate(anc.values) if v is child]
            if idx:
                for v in anc.values[: idx[0]]:
                    out.append((v, False))
        if isinstance(anc, FuncNode):
            break
        child = anc
    out.reverse()
    return out


def enclosing_withs(pm, node: ast.AST) -> List[ast.With]:
    out = []
    child = node
    for anc in ancestors(pm, node):
        if isinstance(anc, (ast.With, ast.AsyncWith)) and any(child is x for x in anc.body):
            out.append(anc)
        if isinstance(anc, FuncNode):
            break
        child = anc
    return out


def enclosing_try(pm, node: ast.AST) -> List[Tuple[ast.Try, str]]:
    """Enclosing try statements with the part ('body','handler','orelse','finalbody') containing node,
    innermost first."""
    out = []
    child = node
    for anc in ancestors(pm, node):
        if isinstance(anc, ast.Try):
            if any(child is x for x in anc.body):
                out.append((anc, "body"))
            elif any(child is x for x in anc.orelse):
                out.append((anc, "orelse"))
            elif any(child is x for x in anc.finalbody):
                out.append((anc, "finalbody"))
            else:
                out.append((anc, "handler"))
        if isinstance(anc, FuncNode):
            break
        child = anc
    return out


def contains_name(node: ast.AST, name: str) -> bool:
    return any(isinstance(n, ast.Name) and n.id == name for n in ast.walk(node))


def contains_dotted(node: ast.AST, d: str) -> bool:
    for n in ast.walk(node):
        if isinstance(n, (ast.Attribute, ast.Name)) and dotted(n) == d:
            return True
    return False


def names_in(node: ast.AST) -> set:
    return {n.id for n in ast.walk(node) if isinstance(n, ast.Name)}


def dotted_reads(node: ast.AST) -> set:
    """All maximal dotted Name/Attribute chains appearing in node."""
    out = set()
    skip = set()
    for n in ast.walk(node):
        if n in skip:
            continue
        if isinstance(n, (ast.Attribute, ast.Name)):
            d = dotted(n)
            if d and "()" not in d:
                out.add(d)
                cur = n
                while isinstance(cur, ast.Attribute):
                    cur = cur.value
                    skip.add(cur)
    return out


def const_str(node) -> Optional[str]:
    if isinstance(node, ast.Constant) and isinstance(node.value, str):
        return node.value
    return None


def is_none(node) -> bool:
    return isinstance(node, ast.Constant) and node.value is None


def test_atoms(test: ast.expr, polarity=True) -> List[Tuple[str, bool]]:
    """Flatten a condition into conjunctive atoms (text, polarity) when possible:
    `a and not b` (True) -> [(a,True),(b,False)]; `a or b` (False) -> [(a,False),(b,False)].
    Non-decomposable forms are returned as one atom."""
    if isinstance(test, ast.UnaryOp) and isinstance(test.op, ast.Not):
        return test_atoms(test.operand, not polarity)
    if isinstance(test, ast.BoolOp):
        if (isinstance(test.op, ast.And) and polarity) or (isinstance(test.op, ast.Or) and not polarity):
            out = []
            for v in test.values:
                out.extend(test_atoms(v, polarity))
            return out
    if isinstance(test, ast.Compare) and len(test.ops) == 1:
        op = test.ops[0]
        flip = {ast.IsNot: ast.Is, ast.NotEq: ast.Eq, ast.NotIn: ast.In}
        for neg, pos in flip.items():
            if isinstance(op, neg):
                t2 = ast.Compare(left=test.left, ops=[pos()], comparators=test.comparators)
                return [(unparse(t2), not polarity)]
    return [(unparse(test), polarity)]


def guard_atoms(guards: Iterable[Tuple[ast.expr, bool]]) -> List[Tuple[str, bool]]:
    out = []
    for t, pol in guards:
        out.extend(test_atoms(t, pol))
    return out


def func_defaults(fn) -> Dict[str, ast.expr]:
    a = fn.args
    out = {}
    pos = a.posonlyargs + a.args
    for arg, d in zip(pos[len(pos) - len(a.defaults):], a.defaults):
        out[arg.arg] = d
    for arg, d in zip(a.kwonlyargs, a.kw_defaults):
        if d is not None:
            out[arg.arg] = d
    return out


def nested_functions(fn) -> Dict[str, ast.FunctionDef]:
    out = {}
    for n in ast.walk(fn):
        if n is not fn and isinstance(n, FuncNode):
            out.setdefault(n.name, n)
    return out


def returns_of(fn, into_nested=False) -> List[ast.Return]:
    return [n for n in walk_local(fn, into_nested) if isinstance(n, ast.Return)]


def raises_of(fn, into_nested=False) -> List[ast.Raise]:
    return [n for n in walk_local(fn, into_nested) if isinstance(n, ast.Raise)]


def raised_name(r: ast.Raise) -> Optional[str]:
    e = r.exc
    if e is None:
        return None
    if isinstance(e, ast.Call):
        e = e.func
    return dotted(e)
