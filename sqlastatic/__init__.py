"""sqlastatic -- repository-specific static analysis of SQLAlchemy (see /verif/DESIGN.md).

Nothing in this package imports or executes SQLAlchemy; every verdict is computed
from the source text under $SQLASTATIC_ROOT (default /repo) with the stdlib `ast`.
"""

from .errors import AnalysisError, AnchorMissing  # noqa: F401
