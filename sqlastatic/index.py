"""E1 -- source index: modules, imports, classes (static C3 MRO), functions.

Keys used everywhere for reporting are `relpath::Qual.name`
(e.g. `pool/base.py::_ConnectionFairy._reset`), never line numbers.
"""

from __future__ import annotations

import ast
import hashlib
import os
from typing import Dict, Iterator, List, Optional, Tuple, Union

from .errors import AnalysisError, AnchorMissing

DEFAULT_ROOT = "/repo"
PKG = "sqlalchemy"


def repo_root() -> str:
    return os.environ.get("SQLASTATIC_ROOT", DEFAULT_ROOT)


def _is_type_checking_test(test: ast.expr) -> Optional[bool]:
    """True for `if TYPE_CHECKING`, False for `if not TYPE_CHECKING`, else None."""
    neg = False
    if isinstance(test, ast.UnaryOp) and isinstance(test.op, ast.Not):
        neg = True
        test = test.operand
    name = None
    if isinstance(test, ast.Name):
        name = test.id
    elif isinstance(test, ast.Attribute):
        name = test.attr
    if name == "TYPE_CHECKING":
        return not neg
    return None


class FuncInfo:
    def __init__(self, module, cls, node, qualname, type_only=False, parent=None):
        self.module: "Module" = module
        self.cls: Optional["ClassInfo"] = cls
        self.node: Union[ast.FunctionDef, ast.AsyncFunctionDef] = node
        self.name: str = node.name
        self.qualname: str = qualname
        self.type_only = type_only
        self.parent_func: Optional["FuncInfo"] = parent

    @property
    def key(self) -> str:
        return f"{self.module.relpath}::{self.qualname}"

    @property
    def loc(self) -> str:
        return f"{self.module.path}:{self.node.lineno}"

    @property
    def decorators(self) -> List[str]:
        out = []
        for d in self.node.decorator_list:
            if isinstance(d, ast.Call):
                d = d.func
            try:
                out.append(ast.unparse(d))
            except Exception:  # pragma: no cover
                pass
        return out

    @property
    def is_overload(self) -> bool:
        return any(d.split(".")[-1] == "overload" for d in self.decorators)

    @property
    def params(self) -> List[str]:
        a = self.node.args
        return [x.arg for x in a.posonlyargs + a.args] + (
            [a.vararg.arg] if a.vararg else []
        ) + [x.arg for x in a.kwonlyargs] + ([a.kwarg.arg] if a.kwarg else [])

    def __repr__(self):
        return f"<Func {self.key}>"


class ClassInfo:
    def __init__(self, module, node, qualname, type_only=False):
        self.module: "Module" = module
        self.node: ast.ClassDef = node
        self.name: str = node.name
        self.qualname: str = qualname
        self.type_only = type_only
        self.methods: Dict[str, FuncInfo] = {}
        self.all_defs: Dict[str, List[FuncInfo]] = {}
        self.assigns: Dict[str, List[ast.expr]] = {}
        self.assign_stmts: Dict[str, List[ast.stmt]] = {}
        self.nested: Dict[str, "ClassInfo"] = {}
        self.bases: List[Optional["ClassInfo"]] = []  # filled by Index
        self.base_exprs: List[str] = []
        self._mro: Optional[List["ClassInfo"]] = None

    @property
    def key(self) -> str:
        return f"{self.module.relpath}::{self.qualname}"

    @property
    def loc(self) -> str:
        return f"{self.module.path}:{self.node.lineno}"

    def __repr__(self):
        return f"<Class {self.key}>"


class Module:
    def __init__(self, name, path, relpath, source):
        self.name: str = name
        self.path: str = path
        self.relpath: str = relpath
        self.source: str = source
        self.tree: ast.Module = ast.parse(source, filename=path)
        self.is_package = relpath.endswith("__init__.py")
        self.functions: Dict[str, FuncInfo] = {}
        self.all_defs: Dict[str, List[FuncInfo]] = {}
        self.classes: Dict[str, ClassInfo] = {}
        self.assigns: Dict[str, List[ast.expr]] = {}
        self.assign_stmts: Dict[str, List[ast.stmt]] = {}
        # local name -> ("module", modname) | ("symbol", modname, name)
        self.imports: Dict[str, Tuple] = {}
        self.type_only_imports: set = set()
        self._parents: Optional[Dict[ast.AST, ast.AST]] = None

    @property
    def package(self) -> str:
        return self.name if self.is_package else self.name.rsplit(".", 1)[0]

    def parents(self) -> Dict[ast.AST, ast.AST]:
        if self._parents is None:
            p = {}
            for n in ast.walk(self.tree):
                for c in ast.iter_child_nodes(n):
                    p[c] = n
            self._parents = p
        return self._parents

    def __repr__(self):
        return f"<Module {self.name}>"


class Index:
    """Parsed view of lib/sqlalchemy under `root`.

    overlay: {relpath: source} replaces the on-disk text of single modules (used by the
    self-test battery to analyse mutated scratch copies without touching /repo).
    """

    def __init__(self, root: Optional[str] = None, overlay: Optional[Dict[str, str]] = None):
        self.root = root or repo_root()
        self.libdir = os.path.join(self.root, "lib", PKG)
        if not os.path.isdir(self.libdir):
            raise AnchorMissing(f"no package directory {self.libdir}")
        self.overlay = dict(overlay or {})
        self.modules: Dict[str, Module] = {}
        self.by_relpath: Dict[str, Module] = {}
        self.consulted: set = set()
        self._subclasses: Dict[ClassInfo, List[ClassInfo]] = {}
        self._load()

    # ------------------------------------------------------------------ loading
    def _load(self):
        for dirpath, dirnames, filenames in os.walk(self.libdir):
            dirnames.sort()
            for fn in sorted(filenames):
                if not fn.endswith(".py"):
                    continue
                path = os.path.join(dirpath, fn)
                rel = os.path.relpath(path, self.libdir)
                if rel in self.overlay:
                    src = self.overlay[rel]
                else:
                    with open(path, encoding="utf-8") as f:
                        src = f.read()
                parts = rel[:-3].split(os.sep)
                if parts[-1] == "__init__":
                    parts = parts[:-1]
                name = ".".join([PKG] + parts)
                try:
                    m = Module(name, path, rel, src)
                except SyntaxError as e:
                    raise AnalysisError(f"cannot parse {path}: {e}")
                self.modules[name] = m
                self.by_relpath[rel] = m
        for m in self.modules.values():
            self._scan_module(m)
        self._link()

    def _link(self):
        self._subclasses = {}
        for m in self.modules.values():
            for c in self._all_classes(m):
                c.bases = []
                c.base_exprs = []
                c._mro = None
        for m in self.modules.values():
            for c in self._all_classes(m):
                self._resolve_bases(c)
        # _resolve_bases() -> resolve() may have asked for the MRO of a class whose bases were not filled in
        # yet (and memoised a truncated one, e.g. sqltypes.String): drop every memo now that all bases are known
        for m in self.modules.values():
            for c in self._all_classes(m):
                c._mro = None
        for m in self.modules.values():
            for c in self._all_classes(m):
                for b in c.bases:
                    if b is not None:
                        self._subclasses.setdefault(b, []).append(c)

    def apply_overlay(self, overlay: Dict[str, str]):
        """Replace the source of single modules IN PLACE and re-link the class hierarchy.
        Only for throw-away indexes (forked self-test workers): avoids re-parsing 255 files."""
        for rel, src in overlay.items():
            old = self.by_relpath.get(rel)
            if old is None:
                raise AnchorMissing(f"overlay for unknown module {rel}")
            try:
                m = Module(old.name, old.path, rel, src)
            except SyntaxError as e:
                raise AnalysisError(f"cannot parse overlay {rel}: {e}")
            self.modules[old.name] = m
            self.by_relpath[rel] = m
            self.overlay[rel] = src
            self._scan_module(m)
        self.consulted = set()
        self._link()

    def _all_classes(self, m: Module) -> Iterator[ClassInfo]:
        stack = list(m.classes.values())
        while stack:
            c = stack.pop()
            yield c
            stack.extend(c.nested.values())

    def _scan_module(self, m: Module):
        self._scan_body(m, m.tree.body, None, None, False, "")

    def _abs_module(self, m: Module, level: int, modname: Optional[str]) -> str:
        if level == 0:
            return modname or ""
        base = m.package.split(".")
        if level > 1:
            base = base[: len(base) - (level - 1)]
        if modname:
            base = base + modname.split(".")
        return ".".join(base)

    def _scan_body(self, m, body, cls, func, type_only, prefix):
        for st in body:
            if isinstance(st, (ast.FunctionDef, ast.AsyncFunctionDef)):
                qn = prefix + st.name
                fi = FuncInfo(m, cls, st, qn, type_only, func)
                owner_all = cls.all_defs if cls is not None and func is None else (
                    m.all_defs if func is None else None
                )
                owner = cls.methods if cls is not None and func is None else (
                    m.functions if func is None else None
                )
                if owner_all is not None:
                    owner_all.setdefault(st.name, []).append(fi)
                    prev = owner.get(st.name)
                    # prefer real implementation over overloads / TYPE_CHECKING stubs
                    if (
                        prev is None
                        or prev.is_overload
                        or prev.type_only
                        or not (fi.is_overload or fi.type_only)
                    ):
                        owner[st.name] = fi
            elif isinstance(st, ast.ClassDef):
                if func is not None:
                    continue
                qn = prefix + st.name
                ci = ClassInfo(m, st, qn, type_only)
                if cls is None:
                    prev = m.classes.get(st.name)
                    if prev is None or prev.type_only or not type_only:
                        m.classes[st.name] = ci
                else:
                    cls.nested[st.name] = ci
                self._scan_body(m, st.body, ci, None, type_only, qn + ".")
            elif isinstance(st, (ast.Assign, ast.AnnAssign, ast.AugAssign)):
                if func is not None:
                    continue
                targets = st.targets if isinstance(st, ast.Assign) else [st.target]
                val = st.value
                if val is None:
                    continue
                store = cls if cls is not None else m
                for t in targets:
                    for nm in _target_names(t):
                        store.assigns.setdefault(nm, []).append(val)
                        store.assign_stmts.setdefault(nm, []).append(st)
            elif isinstance(st, ast.Import):
                if cls is None and func is None:
                    for a in st.names:
                        if a.asname:
                            m.imports[a.asname] = ("module", a.name)
                        else:
                            m.imports[a.name.split(".")[0]] = ("module", a.name.split(".")[0])
                        if type_only:
                            m.type_only_imports.add(a.asname or a.name.split(".")[0])
            elif isinstance(st, ast.ImportFrom):
                if cls is None and func is None:
                    absmod = self._abs_module(m, st.level, st.module)
                    for a in st.names:
                        local = a.asname or a.name
                        if a.name == "*":
                            m.imports.setdefault("*", ("star", []))[1].append(absmod)
                            continue
                        m.imports[local] = ("symbol", absmod, a.name)
                        if type_only:
                            m.type_only_imports.add(local)
            elif isinstance(st, ast.If):
                tc = _is_type_checking_test(st.test)
                if tc is None:
                    self._scan_body(m, st.body, cls, func, type_only, prefix)
                    self._scan_body(m, st.orelse, cls, func, type_only, prefix)
                else:
                    self._scan_body(m, st.body, cls, func, type_only or tc, prefix)
                    self._scan_body(m, st.orelse, cls, func, type_only or (not tc), prefix)
            elif isinstance(st, ast.Try):
                for b in (st.body, st.orelse, st.finalbody):
                    self._scan_body(m, b, cls, func, type_only, prefix)
                for h in st.handlers:
                    self._scan_body(m, h.body, cls, func, type_only, prefix)
            elif isinstance(st, (ast.With, ast.For, ast.While)):
                self._scan_body(m, st.body, cls, func, type_only, prefix)

    # ------------------------------------------------------------------ lookup
    def module(self, name: str) -> Module:
        """By dotted name (`sqlalchemy.sql.operators`) or relpath (`sql/operators.py`)."""
        m = self.modules.get(name) or self.by_relpath.get(name)
        if m is None and not name.startswith(PKG):
            m = self.modules.get(PKG + "." + name)
        if m is None:
            raise AnchorMissing(f"module {name} not found")
        self.consulted.add(m.relpath)
        return m

    def has_module(self, name: str) -> bool:
        try:
            self.module(name)
            return True
        except AnchorMissing:
            return False

    def cls(self, key: str) -> ClassInfo:
        """`relpath::Qual` -> ClassInfo (AnchorMissing if absent)."""
        rel, _, qual = key.partition("::")
        m = self.module(rel)
        parts = qual.split(".")
        c = m.classes.get(parts[0])
        for p in parts[1:]:
            if c is None:
                break
            c = c.nested.get(p)
        if c is None:
            raise AnchorMissing(f"class {key} not found")
        return c

    def func(self, key: str) -> FuncInfo:
        """`relpath::func` or `relpath::Class.method` (own definition only;
        use resolve_method for inherited)."""
        rel, _, qual = key.partition("::")
        m = self.module(rel)
        parts = qual.split(".")
        if len(parts) == 1:
            f = m.functions.get(parts[0])
            if f is None:
                raise AnchorMissing(f"function {key} not found")
            return f
        c = self.cls(rel + "::" + ".".join(parts[:-1]))
        f = c.methods.get(parts[-1])
        if f is None:
            raise AnchorMissing(f"method {key} not found")
        return f

    def has(self, key: str) -> bool:
        try:
            self.func(key)
            return True
        except AnchorMissing:
            try:
                self.cls(key)
                return True
            except AnchorMissing:
                return False

    def all_modules(self) -> List[Module]:
        for m in self.modules.values():
            self.consulted.add(m.relpath)
        return list(self.modules.values())

    def all_classes(self) -> Iterator[ClassInfo]:
        for m in self.all_modules():
            yield from self._all_classes(m)

    def all_functions(self, module: Optional[Module] = None) -> Iterator[FuncInfo]:
        mods = [module] if module else self.all_modules()
        for m in mods:
            yield from m.functions.values()
            for c in self._all_classes(m):
                yield from c.methods.values()

    # ------------------------------------------------------------------ name resolution
    def _preloaded(self, attr: str) -> Optional[Module]:
        # util.preloaded.orm_session -> sqlalchemy.orm.session ; sql_util -> sqlalchemy.sql.util
        parts = attr.split("_")
        # try every split of underscores into dotted path
        n = len(parts)
        for mask in range(1 << (n - 1)):
            segs, cur = [], parts[0]
            for i in range(1, n):
                if mask & (1 << (i - 1)):
                    segs.append(cur)
                    cur = parts[i]
                else:
                    cur += "_" + parts[i]
            segs.append(cur)
            nm = PKG + "." + ".".join(segs)
            if nm in self.modules:
                return self.modules[nm]
        return None

    def resolve(self, m: Module, dotted: str, _depth=0):
        """Resolve a dotted name used in module `m` to Module / ClassInfo / FuncInfo /
        ("value", Module, name) for a module-level assignment, or None (external/unknown)."""
        if _depth > 12:
            return None
        parts = dotted.split(".")
        head, rest = parts[0], parts[1:]
        cur = None
        if head in m.classes:
            cur = m.classes[head]
        elif head in m.functions:
            cur = m.functions[head]
        elif head in m.assigns and head not in m.imports:
            cur = ("value", m, head)
        elif head in m.imports:
            imp = m.imports[head]
            if imp[0] == "module":
                cur = self.modules.get(imp[1])
                if cur is None:
                    return None
            else:
                _, modname, sym = imp
                sub = self.modules.get(modname + "." + sym)
                src = self.modules.get(modname)
                if src is not None and (
                    sym in src.classes or sym in src.functions or sym in src.assigns
                    or sym in src.imports
                ):
                    cur = self.resolve(src, sym, _depth + 1)
                    if cur is None and sub is not None:
                        cur = sub
                elif sub is not None:
                    cur = sub
                else:
                    if src is not None:
                        cur = self._star(src, sym, _depth)
                    if cur is None:
                        return None
        else:
            cur = self._star(m, head, _depth)
            if cur is None:
                return None
        for i, p in enumerate(rest):
            if isinstance(cur, Module):
                self.consulted.add(cur.relpath)
                if cur.name == PKG + ".util.preloaded" or (
                    cur.name == PKG + ".util" and p == "preloaded"
                ):
                    if p == "preloaded":
                        cur = self.modules.get(PKG + ".util.preloaded")
                        continue
                    pm = self._preloaded(p)
                    if pm is None:
                        return None
                    cur = pm
                    continue
                sub = self.modules.get(cur.name + "." + p)
                nxt = self.resolve(cur, p, _depth + 1)
                if nxt is None and sub is not None:
                    nxt = sub
                if nxt is None:
                    return None
                cur = nxt
            elif isinstance(cur, ClassInfo):
                if p in cur.nested:
                    cur = cur.nested[p]
                else:
                    f = self.resolve_method(cur, p)
                    if f is not None:
                        cur = f
                    else:
                        owner = self.find_class_attr(cur, p)
                        if owner is None:
                            return None
                        cur = ("classvalue", owner, p)
            else:
                return None
        if isinstance(cur, Module):
            self.consulted.add(cur.relpath)
        return cur

    def _star(self, m: Module, name: str, depth: int):
        star = m.imports.get("*")
        if not star:
            return None
        for modname in star[1]:
            src = self.modules.get(modname)
            if src is None:
                continue
            r = self.resolve(src, name, depth + 1)
            if r is not None:
                return r
        return None

    def _resolve_bases(self, c: ClassInfo):
        for b in c.node.bases:
            expr = b
            while isinstance(expr, ast.Subscript):
                expr = expr.value
            try:
                s = ast.unparse(expr)
            except Exception:
                s = "?"
            c.base_exprs.append(s)
            tgt = None
            if isinstance(expr, (ast.Name, ast.Attribute)):
                # nested sibling classes / same class scope first
                r = self.resolve(c.module, s)
                if isinstance(r, ClassInfo):
                    tgt = r
            c.bases.append(tgt)

    # ------------------------------------------------------------------ class hierarchy
    def mro(self, c: ClassInfo) -> List[ClassInfo]:
        if c._mro is not None:
            return c._mro
        seqs = [self.mro(b)[:] for b in c.bases if b is not None]
        seqs.append([b for b in c.bases if b is not None])
        out = [c]
        seqs = [s for s in seqs if s]
        while seqs:
            for s in seqs:
                cand = s[0]
                if not any(cand in t[1:] for t in seqs):
                    break
            else:
                # inconsistent (due to unresolved externals): fall back to DFS order
                cand = seqs[0][0]
            out.append(cand)
            seqs = [[x for x in s if x is not cand] for s in seqs]
            seqs = [s for s in seqs if s]
        c._mro = out
        return out

    def subclasses(self, c: ClassInfo, transitive=True) -> List[ClassInfo]:
        out, seen, stack = [], set(), list(self._subclasses.get(c, []))
        while stack:
            s = stack.pop()
            if s in seen:
                continue
            seen.add(s)
            out.append(s)
            if transitive:
                stack.extend(self._subclasses.get(s, []))
        return sorted(out, key=lambda x: x.key)

    def is_subclass(self, c: ClassInfo, base: ClassInfo) -> bool:
        return base in self.mro(c)

    def resolve_method(self, c: ClassInfo, name: str, skip_type_only=True) -> Optional[FuncInfo]:
        for k in self.mro(c):
            f = k.methods.get(name)
            if f is not None and not (skip_type_only and f.type_only):
                self.consulted.add(k.module.relpath)
                return f
        return None

    def find_class_attr(self, c: ClassInfo, name: str) -> Optional[ClassInfo]:
        """Class in MRO(c) that assigns `name` at class level (or defines it as method)."""
        for k in self.mro(c):
            if name in k.assigns or name in k.methods:
                self.consulted.add(k.module.relpath)
                return k
        return None

    def class_attr_nodes(self, c: ClassInfo, name: str) -> Tuple[Optional[ClassInfo], List[ast.expr]]:
        for k in self.mro(c):
            if name in k.assigns:
                return k, k.assigns[name]
            if name in k.methods:
                return k, []
        return None, []

    # ------------------------------------------------------------------ misc
    def digest(self) -> str:
        h = hashlib.sha256()
        for rel in sorted(self.consulted):
            m = self.by_relpath.get(rel)
            if m is not None:
                h.update(rel.encode())
                h.update(m.source.encode())
        return h.hexdigest()[:16]

    def enclosing_function(self, m: Module, node: ast.AST):
        p = m.parents()
        cur = p.get(node)
        while cur is not None and not isinstance(cur, (ast.FunctionDef, ast.AsyncFunctionDef)):
            cur = p.get(cur)
        return cur

    def funcinfo_for_node(self, m: Module, fnode) -> Optional[FuncInfo]:
        for f in self.all_functions(m):
            if f.node is fnode:
                return f
        return None


def _target_names(t) -> List[str]:
    if isinstance(t, ast.Name):
        return [t.id]
    if isinstance(t, (ast.Tuple, ast.List)):
        out = []
        for e in t.elts:
            out.extend(_target_names(e))
        return out
    return []
