"""C21 -- Generated / truncated names: length arithmetic, determinism, counter/memo discipline, tokens."""

from __future__ import annotations

import ast
import re

from ..astutil import (
    call_name, calls_in, dotted, guard_atoms, lexical_guards, name_stores, raises_of, raised_name,
    returns_of, unparse, walk_local,
)
from ..report import Registry, chain, sub
from ._helpers_rules_a import Unsupported, self_attr
from ._helpers_rob_g1 import ast_atoms, resolve_callee
from ._helpers_rob_e2 import (
    canon_atom, canon_atoms, dominating_atoms, edge_ok_under, expand, expand_bool, expand_strings, inline_helpers, len_guard, local_defs,
    norm_fn,
    tri, value_arms,
)

R = Registry(
    "C21",
    title="Generated and truncated names are bounded, deterministic and unique",
    decides=(
        "static length bound of the truncation expressions in IdentifierPreparer._truncate_and_render_maxlen_name "
        "(<= max_) and SQLCompiler._truncated_identifier (<= label_length for counters below a printed power "
        "of 16), the over-long non-truncatable path raises IdentifierError, label_length <= max_identifier_length "
        "is enforced against the server-detected limit (the check follows every write of max_identifier_length in "
        "initialize(), subclass overrides included); digests/counters use no hash()/id()/random/time and md5 is taken of the name only; the "
        "per-class truncation counter is embedded and advanced on every path and results are memoised per "
        "(class, name); every documented naming-convention token dispatches to an existing ConventionDict "
        "method and conv() names bypass the convention through the explicit isinstance test; "
        "SQLCompiler.visit_bindparam raises for two distinct unrelated bind elements with the same rendered name "
        "whenever either is unique, in either compilation order, before registering the name (R5); "
        "IdentifierPreparer.format_constraint truncates every Index/Constraint class against the limit documented "
        "for that kind of DDL object (R6)."
    ),
    not_decided="uniqueness of 4-hex-digit md5 suffixes across distinct long names (probabilistic); collisions "
                "between a truncated name and an unrelated user-chosen name.",
)

COMP = "sql/compiler.py"
NAMING = "sql/naming.py"
PREP = f"{COMP}::IdentifierPreparer"
MIN_COUNTER_DIGITS = 4  # at least 16**4 truncated names per identifier class and statement must fit


# ------------------------------------------------------------------------------------------ linear bounds
class Lin(dict):
    """linear form: {symbol: coeff, 1: const}"""

    def __add__(self, o):
        r = Lin(self)
        for k, v in o.items():
            r[k] = r.get(k, 0) + v
        return Lin({k: v for k, v in r.items() if v != 0 or k == 1})

    def __sub__(self, o):
        return self + Lin({k: -v for k, v in o.items()})

    def const(self):
        return self.get(1, 0)

    def symbols(self):
        return {k for k, v in self.items() if k != 1 and v != 0}

    def __str__(self):
        parts = [(f"{v}*" if v != 1 else "") + str(k) for k, v in self.items() if k != 1 and v]
        c = self.const()
        return " + ".join(parts) + (f" {'+' if c >= 0 else '-'} {abs(c)}" if c or not parts else "")


def _lin(e, assumptions):
    """integer expression -> Lin."""
    if isinstance(e, ast.Constant) and isinstance(e.value, int):
        return Lin({1: e.value})
    if isinstance(e, (ast.Name, ast.Attribute)):
        return Lin({unparse(e): 1, 1: 0})
    if isinstance(e, ast.BinOp) and isinstance(e.op, (ast.Add, ast.Sub)):
        a, b = _lin(e.left, assumptions), _lin(e.right, assumptions)
        return a + b if isinstance(e.op, ast.Add) else a - b
    if isinstance(e, ast.Call) and call_name(e) == "max" and len(e.args) == 2:
        a, b = e.args
        if isinstance(b, ast.Constant) and b.value == 0:
            assumptions.append(f"{unparse(a)} >= 0")
            return _lin(a, assumptions)
    if isinstance(e, ast.UnaryOp) and isinstance(e.op, ast.USub) and isinstance(e.operand, ast.Constant):
        return Lin({1: -e.operand.value})
    raise Unsupported(f"length arithmetic: `{unparse(e)}`")


def _strlen_bound(e, assumptions):
    """upper bound of len(<string expression>) as Lin."""
    if isinstance(e, ast.Constant) and isinstance(e.value, str):
        return Lin({1: len(e.value)})
    if isinstance(e, ast.BinOp) and isinstance(e.op, ast.Add):
        return _strlen_bound(e.left, assumptions) + _strlen_bound(e.right, assumptions)
    if isinstance(e, ast.Call):
        nm = (call_name(e) or "").rsplit(".", 1)[-1]
        if nm == "md5_hex":
            return Lin({1: 32})
        if nm == "hex" and len(e.args) == 1:
            return Lin({f"hexdigits({unparse(e.args[0])})": 1, 1: 2})
    if isinstance(e, ast.Subscript) and isinstance(e.slice, ast.Slice) and e.slice.step is None:
        lo, hi = e.slice.lower, e.slice.upper
        lo_v = 0 if lo is None else (lo.value if isinstance(lo, ast.Constant) else
                                     (-lo.operand.value if isinstance(lo, ast.UnaryOp) and isinstance(lo.op, ast.USub)
                                      and isinstance(lo.operand, ast.Constant) else None))
        if lo_v is None:
            raise Unsupported(f"slice lower bound `{unparse(lo)}`")
        if hi is None:
            if lo_v < 0:
                return Lin({1: -lo_v})
            inner = _strlen_bound(e.value, assumptions)
            return inner - Lin({1: lo_v})
        if lo_v == 0:
            b = _lin(hi, assumptions)
            if not any(a.startswith(unparse(hi)) for a in assumptions) and not (isinstance(hi, ast.Call)):
                assumptions.append(f"{unparse(hi)} >= 0")
            return b
    if isinstance(e, (ast.Name, ast.Attribute)):
        return Lin({f"len({unparse(e)})": 1, 1: 0})
    raise Unsupported(f"string length of `{unparse(e)}`")


def _ti_normal(ctx):
    """SQLCompiler._truncated_identifier with helper methods of the compiler it calls at statement level inlined
    (the inverse of 'extract method') and pure local aliases resolved."""
    f = ctx.func(f"{COMP}::SQLCompiler._truncated_identifier")
    return norm_fn(ctx, inline_helpers(ctx, f, depth=2))


def _computed_names(t):
    """local name -> the statement that hands it out: what `_truncated_identifier` (aliases resolved) returns by name,
    or memoises by name (and returns through the memo table)."""
    out = {r_.value.id: r_ for r_ in returns_of(t.node) if isinstance(r_.value, ast.Name)}
    for n in walk_local(t.node):
        if isinstance(n, ast.Assign) and isinstance(n.targets[0], ast.Subscript) and dotted(n.targets[0].value) == "self.truncated_names" \
                and isinstance(n.value, ast.Name):
            out.setdefault(n.value.id, n)
    return out


def _single_name_assigns(fnode, names):
    return [n for n in walk_local(fnode) if isinstance(n, ast.Assign) and len(n.targets) == 1
            and isinstance(n.targets[0], ast.Name) and n.targets[0].id in names]


def _len_guards(atoms):
    """[(x text, L as Lin, polarity, canonical key)] of the `len(x) > L` atoms (any spelling) among (expr, pol) atoms."""
    out = []
    for e, pol in atoms:
        lg = len_guard(e)
        if lg is None:
            continue
        x, L, shift, p = lg
        try:
            lin = _lin(L, []) + Lin({1: shift})
        except Unsupported:
            continue
        out.append((x, lin, pol == p, canon_atom(e)[0]))
    return out


def _test_atoms_of(fnode):
    """atoms (expr, True) of every test of the function (if / while / conditional expression), boolean locals expanded."""
    defs = local_defs(fnode)
    out = []
    for n in walk_local(fnode):
        if isinstance(n, (ast.If, ast.While, ast.IfExp)):
            out.extend((e, True) for e, _pol in ast_atoms(expand_bool(n.test, defs), True))
            out.extend((e, True) for e, _pol in ast_atoms(expand_bool(n.test, defs), False))
    return out


def _le(lin, limit):
    """lin <= limit for all values of the symbols (same symbols, constant slack)."""
    d = lin - limit
    return not d.symbols() and d.const() <= 0


def _facts_when_longer(fnode, x, limit):
    """truth of the function's own length tests on `x` when len(x) > limit: a test `len(x) > L` with L <= limit holds."""
    facts = {}
    for gx, lin, _pol, key in _len_guards(_test_atoms_of(fnode)):
        if gx == x and _le(lin, limit):
            facts[key] = True
    return facts


def _arm_refuted(extra, facts):
    return any(tri(e, facts) is (not pol) for e, pol in extra)


# ---- which limit a truncation helper hands to _truncate_and_render_maxlen_name (symbolic evaluation, all paths)
SINK = "_truncate_and_render_maxlen_name"
_DIALECT_LIMIT = re.compile(r"^self\.dialect\.(max_\w+_length)$")


def _limit_paths(ctx, prep, m):
    """[(assignment of the opaque conditions, label of the limit)] for every returning path of IdentifierPreparer
    method `m` run on opaque arguments (helper methods of the class are interpreted, local aliases carry the label of
    what they stand for), or None when some path does not end in exactly one `self._truncate_and_render_maxlen_name(..)`
    whose limit is a plain value."""
    from ._helpers_rob_c1 import Opaque, Unsupported as U1
    from ._helpers_str2_k import call_arg, callee_of, explore_effects
    cache = ctx.__dict__.setdefault("_c21_limit_paths", {})
    if m.key in cache:
        return cache[m.key]
    sink = ctx.func(f"{PREP}.{SINK}")
    a = m.node.args
    pos = [x.arg for x in a.posonlyargs + a.args]
    n_req = len(pos) - len(a.defaults)
    try:
        paths = explore_effects(ctx, m, [Opaque(p) for p in pos[:n_req]], cls=prep, no_follow=(SINK, "quote"))
    except U1:
        cache[m.key] = None
        return None
    out = []
    for assign, (kind, _v), effects in paths:
        if kind != "return":
            continue
        sinks = [op for op in effects if callee_of(op) == "self." + SINK]
        lim = call_arg(sinks[0], 1, sink.params[2]) if len(sinks) == 1 else None
        if not isinstance(lim, Opaque) or lim.call is not None:
            cache[m.key] = None
            return None
        out.append((assign, lim.label))
    cache[m.key] = out or None
    return cache[m.key]


def _set(assign, attr):
    """is dialect.<attr> set (truthy / not None) on this path?  None: the path never asked."""
    lab = f"self.dialect.{attr}"
    if lab in assign:
        return assign[lab]
    if lab + " is None" in assign:
        return not assign[lab + " is None"]
    return None


def _limit_follows(lim, attr):
    """problems of the path table `lim` against the documented meaning `dialect.<attr> or dialect.max_identifier_length`."""
    problems = []
    for assign, label in lim:
        t = _set(assign, attr)
        if t is None:
            problems.append(f"a path hands on `{label.replace('self.', '', 1)}` without consulting dialect.{attr}")
        elif t and label != f"self.dialect.{attr}":
            problems.append(f"with dialect.{attr} set the limit is `{label.replace('self.', '', 1)}`")
        elif not t and label != "self.dialect.max_identifier_length":
            problems.append(f"with dialect.{attr} unset the limit is `{label.replace('self.', '', 1)}`")
    return sorted(set(problems))


def _limit_kind(lim):
    """the dialect sub-limit attribute a path table implements (`<attr> or max_identifier_length`), 'max_identifier_length'
    when no sub-limit is consulted at all, else None (not understood)."""
    attrs = set()
    for assign, label in lim:
        for txt in list(assign) + [label]:
            mm = _DIALECT_LIMIT.match(txt[:-len(" is None")] if txt.endswith(" is None") else txt)
            if mm and mm.group(1) != "max_identifier_length":
                attrs.add(mm.group(1))
    good = [a for a in sorted(attrs) if not _limit_follows(lim, a)]
    if len(good) == 1:
        return good[0]
    if not attrs and all(label == "self.dialect.max_identifier_length" for _a, label in lim):
        return "max_identifier_length"
    return None


@R.rule("C21-R1", floor=10, template="T-TABLE (linear length bound) / T-PATH (def-use order)",
        desc="truncation expressions are statically no longer than their limit; over-long plain names raise "
             "IdentifierError; the index/constraint helpers hand on `dialect.max_<kind>_name_length or "
             "dialect.max_identifier_length` on every path (evaluated symbolically); label_length <= max_identifier_length "
             "is enforced in initialize() against the value read after every write of max_identifier_length there")
def r1(ctx):
    f = inline_helpers(ctx, ctx.func(f"{PREP}._truncate_and_render_maxlen_name"), skip=("quote",))
    p_name, p_max = f.params[1], f.params[2]
    g = ctx.cfg(f)
    defs = local_defs(f.node)
    limit = Lin({p_max: 1, 1: 0})
    # every re-assignment of the name parameter: its arms (conditional expressions split) either leave the name alone
    # or build a new one, whose length is bounded statically
    arms = [(st, val, extra) for st in _single_name_assigns(f.node, {p_name}) for val, extra in value_arms(st.value)]
    trunc = [(st, val, extra) for st, val, extra in arms if not (isinstance(val, ast.Name) and val.id == p_name)]
    ctx.require(trunc, f"{f.key}: `{p_name}` is never re-assigned to a truncated form")
    problems, details, assumptions = [], [], []
    for st, val, _extra in trunc:
        v = expand_strings(f.node, val, keep={p_name})
        bound = _strlen_bound(v, assumptions)
        if not _le(bound, limit):
            problems.append(f"truncated name `{unparse(v)}` has length bound {bound}, which is not <= {p_max}")
        details.append(f"len <= {bound} <= {p_max}")
    # ... and a _truncated_label longer than the limit never leaves un-truncated: with len(name) > max_ (which decides
    # every `len(name) > L`, L <= max_, test of the function, however it is spelled) all paths pass a re-assignment
    tl_keys = {canon_atom(e)[0] for e, _ in _test_atoms_of(f.node)
               if isinstance(e, ast.Call) and dotted(e.func) == "isinstance" and len(e.args) == 2
               and isinstance(e.args[0], ast.Name) and e.args[0].id == p_name and "_truncated_label" in unparse(e.args[1])}
    ctx.require(tl_keys, f"{f.key}: no isinstance({p_name}, _truncated_label) test")
    facts = dict(_facts_when_longer(f.node, p_name, limit), **{k: True for k in tl_keys})
    covering = [st for st in {id(st): st for st, _v, _e in trunc}.values()
                if all(not (isinstance(val, ast.Name) and val.id == p_name) or _arm_refuted(extra, facts)
                       for st2, val, extra in arms if st2 is st)]
    w = g.must_pass([g.entry], [g.exit], [i for st in covering for i in g.nodes_for(st)], edge_ok=edge_ok_under(g, facts, defs))
    if w is not None:
        problems.append(f"a _truncated_label longer than {p_max} can be returned without being truncated")
    ctx.check(not problems, f.key + ":bound", "; ".join(problems),
              f"{'; '.join(details)} (assuming {', '.join(assumptions) or 'nothing'})", f.loc, w)
    # truncation applies to _truncated_label only; everything else is validated
    nfacts = {k: False for k in tl_keys}
    ok_plain = edge_ok_under(g, nfacts, defs)
    vnodes = [i for c in calls_in(f.node) if (dotted(expand(f.node, c.func)) or "").endswith("dialect.validate_identifier")
              and c.args and isinstance(c.args[0], ast.Name) and c.args[0].id == p_name
              for i in g.nodes_containing(c)]
    w = g.must_pass([g.entry], [g.exit], vnodes, edge_ok=ok_plain) if vnodes else ["no dialect.validate_identifier(name) call"]
    reach_plain = g.reachable([g.entry], edge_ok=ok_plain)
    truncates_plain = [st for st, _v, extra in trunc if not _arm_refuted(extra, nfacts) and set(g.nodes_for(st)) & reach_plain]
    ctx.check(w is None and not truncates_plain, f.key + ":validate",
              "names that are not _truncated_label are not passed to dialect.validate_identifier() (an over-long "
              "explicit name would be emitted as is)" if w is not None else
              "a name that is not a _truncated_label can be truncated", "non-truncatable names validated", f.loc,
              w if isinstance(w, list) else None)
    v = ctx.func("engine/default.py::DefaultDialect.validate_identifier")
    p_ident = v.params[1]
    gv = ctx.cfg(v)
    vfacts = _facts_when_longer(v.node, p_ident, Lin({"self.max_identifier_length": 1, 1: 0}))
    reach = gv.reachable([gv.entry], edge_ok=edge_ok_under(gv, vfacts, local_defs(v.node)))
    raised = [n for n in walk_local(v.node) if isinstance(n, ast.Raise) and set(gv.nodes_for(n)) & reach]
    ok = gv.exit not in reach and bool(raised) and all(raised_name(r_) in ("exc.IdentifierError", "IdentifierError") for r_ in raised)
    ctx.check(ok, v.key, "validate_identifier does not raise IdentifierError when len(ident) > self.max_identifier_length",
              "raises IdentifierError beyond max_identifier_length", v.loc)
    prep = ctx.index.cls(PREP)
    for meth, attr in (("truncate_and_render_index_name", "max_index_name_length"),
                       ("truncate_and_render_constraint_name", "max_constraint_name_length")):
        m = ctx.func(f"{PREP}.{meth}")
        lim = _limit_paths(ctx, prep, m)
        ctx.require(lim is not None, f"{m.key}: not every path ends in one _truncate_and_render_maxlen_name(name, <limit>) call")
        problems = _limit_follows(lim, attr)
        ctx.check(not problems, m.key, f"the truncation limit is not `dialect.{attr} or dialect.max_identifier_length`: "
                  + "; ".join(problems), f"limit = dialect.{attr} or dialect.max_identifier_length on {len(lim)} path(s)", m.loc)
    # SQLCompiler._truncated_identifier
    t = _ti_normal(ctx)
    gt = ctx.cfg(t.node)
    limit = Lin({"self.label_length": 1, 1: 0})
    # the computed names: what is returned by name, or memoised by name (and returned through the memo table)
    returned = _computed_names(t)
    ctx.require(returned, f"{t.key}: no computed name is returned")
    long_arms, short_arms = [], []   # (statement, value, guard (x, L, key))
    for st in _single_name_assigns(t.node, set(returned)):
        base = dominating_atoms(gt, st, t.node)
        for val, extra in value_arms(st.value):
            for x, lin, pol, key in _len_guards(base + extra):
                (long_arms if pol else short_arms).append((st, val, (x, lin, key)))
    # early-return shape: `if len(x) <= L: ...; return x`
    for nm, r_ in returned.items():
        for x, lin, pol, key in _len_guards(dominating_atoms(gt, r_, t.node)):
            if not pol and not any(st.targets[0].id == nm for st, _v, _g in short_arms if isinstance(st, ast.Assign) and isinstance(st.targets[0], ast.Name)):
                short_arms.append((r_, r_.value, (x, lin, key)))
    # default-then-override shape: `n = x` unconditionally, re-assigned under `len(x) > L`
    for st in _single_name_assigns(t.node, set(returned)):
        if not any(st is s2 for s2, _v, _g in long_arms + short_arms) and isinstance(st.value, ast.Name):
            for s2, _v, (x, lin, key) in long_arms:
                if x == st.value.id and s2.targets[0].id == st.targets[0].id and s2.lineno > st.lineno:
                    short_arms.append((st, st.value, (x, lin, key)))
    ctx.require(long_arms, f"{t.key}: expected a name construction under a `len(x) > limit` test")
    problems, details, assumptions = [], [], []
    for st, val, (x, lin, key) in long_arms:
        v = expand_strings(t.node, val, keep={x})
        bound = _strlen_bound(v, assumptions)
        slack = bound - limit
        digit_syms = [s_ for s_ in slack.symbols() if s_.startswith("hexdigits(")]
        other = slack.symbols() - set(digit_syms)
        if other or len(digit_syms) != 1 or slack[digit_syms[0]] != 1:
            problems.append(f"truncated label `{unparse(v)}` has length bound {bound}, not comparable with self.label_length")
            continue
        # hex(c)[2:] contributes hexdigits(c) + 2 - 2
        room = -slack.const()
        if room < MIN_COUNTER_DIGITS:
            problems.append(f"truncated label is `{unparse(v)}`: it fits label_length only while the counter has <= {room} "
                            f"hex digit(s) (need >= {MIN_COUNTER_DIGITS})")
        details.append(f"len <= label_length for counters < 16**{room}")
    ctx.check(not problems, t.key + ":bound", "; ".join(problems),
              f"{'; '.join(details)} (assuming {', '.join(assumptions) or 'nothing'})", t.loc)
    # the untruncated arm returns the mapped name itself, whose length the guard bounds by the same limit
    ok = bool(short_arms)
    detail = ""
    for st, val, (x, lin, key) in short_arms:
        same = unparse(expand_strings(t.node, val, keep={x})) == x
        ok = ok and same and _le(lin, limit)
        detail = f"len({x}) <= {lin} <= label_length"
    thr = "; ".join(sorted({str(lin) for _s, _v, (_x, lin, _k) in short_arms + long_arms}))
    ctx.check(ok, t.key + ":short-arm",
              f"names not longer than `{thr}` are not passed through unchanged / the threshold exceeds label_length",
              detail, t.loc)
    # label_length <= max_identifier_length enforced by the dialect ...
    from ._helpers_rob_a import normal_form
    d0 = ctx.func("engine/default.py::DefaultDialect.initialize")
    d = normal_form(ctx, d0, alias=None)         # extracted helpers inlined; locals are followed below (def-use matters here)
    gd = ctx.cfg(d)
    defs = local_defs(d.node)
    LL, MIL = "self.label_length", "self.max_identifier_length"

    def mil_load(e):
        """the `self.max_identifier_length` load an operand stands for: itself, or the one in the definition of the
        single-assignment local it names"""
        if isinstance(e, ast.Name) and e.id in defs:
            e = defs[e.id]
        return e if dotted(e) == MIL else None

    checks = []   # (raise, comparison atom, the max_identifier_length load it compares with)
    for n in walk_local(d.node):
        if isinstance(n, ast.Raise) and raised_name(n) in ("exc.ArgumentError", "ArgumentError"):
            for a_, b_, pol, atom in _attr_gt_operands(dominating_atoms(gd, n, d.node)):
                a_ = defs.get(a_.id, a_) if isinstance(a_, ast.Name) else a_
                if pol and dotted(a_) == LL and mil_load(b_) is not None:
                    checks.append((n, atom, mil_load(b_)))
    ctx.check(bool(checks), d0.key + ":label_length", "label_length > max_identifier_length is no longer rejected with ArgumentError",
              "label_length <= max_identifier_length enforced", d0.loc)
    # ... against the FINAL value: initialize() itself lowers max_identifier_length to what the server reports
    # (_check_max_identifier_length); the validation must read it after every such write, on every path, and nothing
    # may write it between that read and the comparison.  (T-PATH, def-use ordering)
    if checks:
        from ..astutil import attr_stores
        from ..cfg import no_exc
        ll_facts = {LL: True, LL + " is None": False}                              # paths of a configured label_length
        for nm_, v_ in defs.items():
            if dotted(v_) == LL:
                ll_facts.update({nm_: True, nm_ + " is None": False})
        set_ll = edge_ok_under(gd, ll_facts, defs)
        reads = sorted({i for _n, _a, ld in checks for i in gd.nodes_containing(ld)})
        tests = sorted({i for _n, atom, _ld in checks for i in gd.nodes_containing(atom)})
        writes = [(st, i) for tgt, _t, st in attr_stores(d.node) if tgt == MIL for i in gd.nodes_for(st)]
        ctx.require(reads and tests, f"{d0.key}: the label_length comparison is not found in the CFG")
        ctx.require(writes, f"{d0.key}: initialize() no longer assigns self.max_identifier_length (server-side detection moved?)")
        w, what = None, ""
        for st, i in writes:
            w = gd.must_pass([i], [gd.exit], reads, edge_ok=set_ll)
            if w is not None:
                what = (f"`{unparse(st)[:70]}` (the limit detected on the server) can be followed by a normal return without "
                        f"label_length being compared with the new value: the check reads max_identifier_length before "
                        f"this write, so a label_length between the detected and the class-level limit is accepted and "
                        f"generated labels exceed the dialect's limit")
                break
            stale = [r_ for r_ in reads if i in gd.reachable([r_], edge_ok=no_exc) and set(tests) & gd.reachable([i], edge_ok=no_exc)
                     and r_ not in tests]
            if stale:
                w = gd.witness(stale, [i], edge_ok=no_exc)
                what = f"`{unparse(st)[:70]}` lies between the read of max_identifier_length and its comparison with label_length"
                break
        if w is None:
            w = gd.must_pass([gd.entry], [gd.exit], reads, edge_ok=set_ll)
            if w is not None:
                what = "initialize() can return normally, with a label_length configured, without comparing it with max_identifier_length"
        if w is None:
            # ... and once it is read, a too large label_length never returns normally (whatever else the test asks)
            too_large = dict(ll_facts)
            for _n, atom, _ld in checks:
                k_, p_ = canon_atom(atom)
                too_large[k_] = (type(atom.ops[0]) in (ast.Gt, ast.Lt)) == p_
            ok_large = edge_ok_under(gd, too_large, defs)
            for r_ in reads:
                if gd.exit in gd.reachable([r_], edge_ok=ok_large):
                    w = gd.witness([r_], [gd.exit], edge_ok=ok_large)
                    what = ("a label_length greater than max_identifier_length can pass initialize() without ArgumentError "
                            "(the rejection depends on a further condition)")
                    break
        ctx.check(w is None, d0.key + ":label_length:after-last-write", what,
                  f"{len(writes)} write(s) of max_identifier_length, each followed by the label_length check on every path", d0.loc, w)
        # subclasses: an initialize() override that assigns max_identifier_length must do so before delegating to the
        # base implementation (which validates), not after it
        base = ctx.index.cls("engine/default.py::DefaultDialect")
        n_over, late = 0, []
        for k in ctx.index.subclasses(base):
            m = k.methods.get("initialize")
            if m is None or m.type_only:
                continue
            n_over += 1
            sw = [(st, i) for tgt, _t, st in attr_stores(m.node) if tgt == MIL for i in ctx.cfg(m).nodes_for(st)]
            if not sw:
                continue
            gm = ctx.cfg(m)
            ctx.functions_analysed.add(m.key)
            sup = [nd.id for nd in gm.nodes if nd.stmt is not None and isinstance(nd.stmt, ast.stmt)
                   and any((call_name(c) or "").endswith(".initialize") for c in calls_in(nd.stmt))]
            for st, i in sw:
                if gm.must_pass([i], [gm.exit], sup, edge_ok=no_exc) is not None:
                    late.append(f"{m.key}: `{unparse(st)[:60]}`")
        ctx.check(not late, d0.key + ":label_length:subclass-writes",
                  "max_identifier_length is assigned after the base initialize() validated label_length against it: " + "; ".join(late),
                  f"{n_over} initialize() override(s), none assigns max_identifier_length after the validation", d0.loc)


def _attr_gt_operands(atoms):
    """[(a, b, polarity, atom)] for atoms `a > b` / `b < a` / `not a <= b` (operand nodes, any spelling)."""
    out = []
    for e, pol in atoms:
        if isinstance(e, ast.Compare) and len(e.ops) == 1:
            l, r_, op = e.left, e.comparators[0], type(e.ops[0])
            if op is ast.Gt:
                out.append((l, r_, pol, e))
            elif op is ast.Lt:
                out.append((r_, l, pol, e))
            elif op is ast.LtE:
                out.append((l, r_, not pol, e))
            elif op is ast.GtE:
                out.append((r_, l, not pol, e))
    return out


# ------------------------------------------------------------------------------------------ R2
NONDETERMINISTIC = {"hash", "id", "random", "uuid4", "uuid1", "time", "urandom", "getrandbits", "randint",
                    "token_hex", "monotonic", "perf_counter", "now"}


@R.rule("C21-R2", floor=25, template="T-FLOW (determinism)",
        desc="name generation/truncation functions call no hash()/id()/random/time source; md5 digests are of the "
             "name being truncated only")
def r2(ctx):
    ix = ctx.index
    fns = [ctx.func(f"{PREP}._truncate_and_render_maxlen_name"),
           ctx.func(f"{PREP}.truncate_and_render_index_name"),
           ctx.func(f"{PREP}.truncate_and_render_constraint_name"),
           ctx.func(f"{PREP}.format_constraint"),
           ctx.func(f"{COMP}::SQLCompiler._truncated_identifier"),
           ctx.func(f"{COMP}::SQLCompiler._truncate_bindparam"),
           ctx.func(f"{COMP}::SQLCompiler._anonymize"),
           ctx.func("sql/elements.py::_anonymous_label.apply_map"),
           ctx.func("sql/elements.py::_truncated_label.apply_map")]
    fns += [f for f in ix.all_functions(ix.module(NAMING))]
    seen = set()
    for f in fns:
        if f.key in seen:
            continue
        seen.add(f.key)
        ctx.functions_analysed.add(f.key)
        bad = []
        scan = [f]
        for c in calls_in(f.node, into_nested=True):      # helpers split off the function (same module), one level
            callee = resolve_callee(ctx, f, c)
            if callee is not None and callee.module is f.module and callee.key not in {x.key for x in scan}:
                scan.append(callee)
        for fn in scan:
            for c in calls_in(fn.node, into_nested=True):
                nm = (call_name(c) or "").rsplit(".", 1)[-1]
                if nm in NONDETERMINISTIC:
                    bad.append(unparse(c)[:50] + ("" if fn is f else f" (in {fn.qualname})"))
        ctx.check(not bad, f.key + ":deterministic", f"calls a run-dependent source: {bad}", "", f.loc, nontrivial=False)
    f = inline_helpers(ctx, ctx.func(f"{PREP}._truncate_and_render_maxlen_name"), skip=("quote",))
    md5 = [c for c in calls_in(f.node) if (call_name(c) or "").endswith("md5_hex")]
    ctx.require(md5, f"{f.key}: no md5_hex digest")
    p_name = f.params[1]
    ok = all(len(c.args) == 1 and isinstance(c.args[0], ast.Name) and c.args[0].id == p_name for c in md5)
    ctx.check(ok, f.key + ":digest-input", f"digest is taken of `{unparse(md5[0].args[0]) if md5[0].args else ''}`, not of the name alone",
              f"md5_hex({p_name})", f.loc)
    h = ctx.func("util/langhelpers.py::md5_hex")
    calls = {(call_name(c) or "").rsplit(".", 1)[-1] for c in calls_in(h.node)}
    ctx.check("md5_not_for_security" in calls and "hexdigest" in calls and not (calls & NONDETERMINISTIC), h.key,
              f"md5_hex no longer is a plain md5 hexdigest (calls {sorted(calls)})", "md5(x.encode()).hexdigest()", h.loc)


# ------------------------------------------------------------------------------------------ R3
@R.rule("C21-R3", floor=6, template="T-PATH",
        desc="_truncated_identifier: counter read per ident_class, embedded in the name, stored back incremented on "
             "every path after the read; result memoised under (ident_class, name) on every path and looked up first; "
             "_truncate_bindparam memoises per bind parameter")
def r3(ctx):
    from ..cfg import no_exc
    # pure local aliases (`names = self.truncated_names`, `key = (ident_class, name)`) are resolved first
    t = _ti_normal(ctx)
    p_class, p_name = t.params[1], t.params[2]
    g = ctx.cfg(t.node)
    TABLE = "self._truncated_counters"
    # the counter variable: a local assigned from the per-class table -- `T.get(cls, n)`, or the same thing spelled
    # `T[cls] if cls in T else n` / as an if-else statement
    def from_table(v):
        return (isinstance(v, ast.Call) and dotted(v.func) in (TABLE + ".get", TABLE + ".setdefault")) \
            or (isinstance(v, ast.Subscript) and dotted(v.value) == TABLE)
    cvars = {n.targets[0].id for n in walk_local(t.node) if isinstance(n, ast.Assign) and len(n.targets) == 1
             and isinstance(n.targets[0], ast.Name) and any(from_table(v) for v, _x in value_arms(n.value))}
    ctx.require(len(cvars) == 1, f"{t.key}: counter read not found")
    cvar = cvars.pop()
    reads = _single_name_assigns(t.node, {cvar})
    rd_nodes = [i for rd in reads for i in g.nodes_for(rd)]
    problems = []
    for rd in reads:
        base = dominating_atoms(g, rd, t.node)
        for v, extra in value_arms(rd.value):
            known = {k for k, pol in canon_atoms(base + extra) if pol} | {"not " + k for k, pol in canon_atoms(base + extra) if not pol}
            in_table = f"{p_class} in {TABLE}"
            if isinstance(v, ast.Call) and dotted(v.func) in (TABLE + ".get", TABLE + ".setdefault"):
                a = v.args
                if not (len(a) == 2 and isinstance(a[0], ast.Name) and a[0].id == p_class and isinstance(a[1], ast.Constant)
                        and isinstance(a[1].value, int) and not isinstance(a[1].value, bool)):
                    problems.append(f"`{unparse(v)}`")
            elif isinstance(v, ast.Subscript) and dotted(v.value) == TABLE:
                if not (isinstance(v.slice, ast.Name) and v.slice.id == p_class and in_table in known):
                    problems.append(f"`{unparse(v)}` (not under `{in_table}`)")
            elif isinstance(v, ast.Constant) and isinstance(v.value, int) and not isinstance(v.value, bool):
                if "not " + in_table not in known:
                    problems.append(f"start value `{unparse(v)}` (not under `{p_class} not in {TABLE}`)")
            else:
                problems.append(f"`{unparse(v)}`")
    shown = "; ".join(unparse(rd.value) for rd in reads)
    ctx.check(not problems, t.key + ":counter-read",
              f"counter is read as {', '.join(problems)}, not per `{p_class}` with an integer start", shown, t.loc)
    # embedded: the counter flows (through string-building locals) into a returned name
    ret_names = set(_computed_names(t))
    name_asg = [n for n in _single_name_assigns(t.node, ret_names) if n not in reads
                and any(isinstance(x, ast.Name) and x.id == cvar for x in ast.walk(expand_strings(t.node, n.value)))]
    ctx.check(bool(name_asg), t.key + ":counter-embedded", "the counter value is not part of the truncated name",
              unparse(name_asg[0].value)[:70] if name_asg else "", t.loc)
    # stored back incremented on every path after the read
    stores = [n for n in walk_local(t.node) if isinstance(n, ast.Assign) and isinstance(n.targets[0], ast.Subscript)
              and dotted(n.targets[0].value) == "self._truncated_counters"]
    good_store = [n for n in stores if isinstance(n.targets[0].slice, ast.Name) and n.targets[0].slice.id == p_class
                  and isinstance(n.value, ast.BinOp) and isinstance(n.value.op, ast.Add)
                  and {unparse(n.value.left), unparse(n.value.right)} == {cvar, "1"}]
    w = None
    if good_store:
        w = g.must_pass(rd_nodes, [g.exit], [i for s in good_store for i in g.nodes_for(s)], edge_ok=no_exc)
    ctx.check(bool(good_store) and w is None, t.key + ":counter-advance",
              "the counter is not stored back as counter + 1 on every path after it was used "
              "(two elements would receive the same truncated name)", f"{len(good_store)} store(s), all paths", t.loc, w)
    # memo
    key_ok = lambda s: isinstance(s, ast.Tuple) and [unparse(e) for e in s.elts] == [p_class, p_name]
    hit_starts, miss_starts, test_nodes = _memo_test(g, t.node, "self.truncated_names", key_ok)
    memo_ret = [i for r_ in returns_of(t.node) if isinstance(r_.value, ast.Subscript) and dotted(r_.value.value) == "self.truncated_names"
                and key_ok(r_.value.slice) for i in g.nodes_for(r_)]
    # consulted first: a hit returns the memoised name, and nothing is computed (counter read) before the lookup
    early = bool(test_nodes) and bool(memo_ret) \
        and g.must_pass([i for i in hit_starts if i not in memo_ret], [g.exit], memo_ret, edge_ok=no_exc) is None \
        and not (set(rd_nodes) & g.reachable(hit_starts, edge_ok=no_exc)) \
        and all(g.always_preceded(i, test_nodes) is None for i in rd_nodes)
    ctx.check(early, t.key + ":memo-lookup", "the memo table is not consulted first under the key (ident_class, name)",
              "memo lookup first", t.loc)
    memo_store = [n for n in walk_local(t.node) if isinstance(n, ast.Assign) and isinstance(n.targets[0], ast.Subscript)
                  and dotted(n.targets[0].value) == "self.truncated_names"]
    ms_ok = [n for n in memo_store if key_ok(n.targets[0].slice)]
    w = None
    if ms_ok and test_nodes:
        through = [i for s in ms_ok for i in g.nodes_for(s)]
        w = g.must_pass([i for i in miss_starts if i not in through], [g.exit], through, edge_ok=no_exc)
        # and what is stored is what is returned
        stored = {unparse(n.value) for n in ms_ok}
        rets = {unparse(r_.value) for r_ in returns_of(t.node) if not isinstance(r_.value, ast.Subscript)}
        if rets - stored:
            w = [f"returns {sorted(rets)} but memoises {sorted(stored)}"]
    ctx.check(bool(ms_ok) and bool(test_nodes) and w is None, t.key + ":memo-store",
              "a computed name can be returned without being memoised under (ident_class, name): the same element "
              "would get a new counter value on its next rendering", "memoised on every computing path", t.loc, w)
    b = norm_fn(ctx, ctx.func(f"{COMP}::SQLCompiler._truncate_bindparam"))
    p_b = b.params[1]
    gb = ctx.cfg(b.node)
    _hit, miss, tn = _memo_test(gb, b.node, "self.bind_names", lambda s_: unparse(s_) == p_b)
    st = [n for n in walk_local(b.node) if isinstance(n, ast.Assign) and isinstance(n.targets[0], ast.Subscript)
          and dotted(n.targets[0].value) == "self.bind_names" and unparse(n.targets[0].slice) == p_b]
    w = None
    if tn and st:
        through = [i for s_ in st for i in gb.nodes_for(s_)]
        w = gb.must_pass([i for i in miss if i not in through], [gb.exit], through, edge_ok=no_exc)
    ctx.check(bool(tn) and bool(st) and w is None, b.key,
              "bind names are not memoised per bind parameter on every path", "memoised in bind_names", b.loc, w)


def _memo_test(g, fnode, table, key_ok):
    """(successors on a memo hit, successors on a miss, test nodes) of the branch `<key> in <table>` -- spelled
    `in` / `not in` / `not (.. in ..)`, as `if` or `while`; compound tests are not taken for a lookup."""
    hit, miss, tests = [], [], []
    for n in g.nodes:
        if n.kind != "test" or not hasattr(n.stmt, "test"):
            continue
        e, pol = n.stmt.test, True
        while isinstance(e, ast.UnaryOp) and isinstance(e.op, ast.Not):
            e, pol = e.operand, not pol
        if not (isinstance(e, ast.Compare) and len(e.ops) == 1 and isinstance(e.ops[0], (ast.In, ast.NotIn))
                and dotted(e.comparators[0]) == table and key_ok(e.left)):
            continue
        if isinstance(e.ops[0], ast.NotIn):
            pol = not pol
        tests.append(n.id)
        for b_, lab in g.succ[n.id]:
            if lab in ("true", "false"):
                (hit if (lab == "true") == pol else miss).append(b_)
    return hit, miss, tests


# ------------------------------------------------------------------------------------------ R4
# documented naming-convention tokens (MetaData.naming_convention documentation)
DOCUMENTED_TOKENS = [
    "table_name", "referred_table_name", "constraint_name",
    "column_0_name", "column_0N_name", "column_0_N_name",
    "column_0_label", "column_0N_label", "column_0_N_label",
    "column_0_key", "column_0N_key", "column_0_N_key",
    "referred_column_0_name", "referred_column_0N_name", "referred_column_0_N_name",
    "column_1_name",
]


@R.rule("C21-R4", floor=18, template="T-TABLE / T-EXHAUST",
        desc="every documented naming-convention token resolves, through ConventionDict.__getitem__'s own "
             "prefix + regex + replace scheme, to an existing _key_* method; conv() names skip the convention "
             "through the explicit isinstance test and are the only thing the convention branch produces")
def r4(ctx):
    cd = ctx.index.cls(f"{NAMING}::ConventionDict")
    gi = cd.methods.get("__getitem__")
    ctx.require(gi is not None, "ConventionDict.__getitem__ vanished")
    ctx.functions_analysed.add(gi.key)
    consts = [n.value for n in ast.walk(gi.node) if isinstance(n, ast.Constant) and isinstance(n.value, str)]
    prefixes = {c.replace("%s", "") for c in consts if c.startswith("_key_")}
    ctx.require(prefixes == {"_key_"}, f"__getitem__ dispatch prefix not understood: {prefixes}")
    rx = [c for c in calls_in(gi.node) if call_name(c) == "re.match" and c.args and isinstance(c.args[0], ast.Constant)]
    ctx.require(len(rx) == 1, "__getitem__: column-token regex not found")
    try:
        pat = re.compile(rx[0].args[0].value)
    except re.error as e:
        ctx.error(f"column-token regex does not compile: {e}")
    ctx.require(pat.groups == 2, "column-token regex no longer has (index, multiples) groups")
    # the two replace schemes, read from the source
    repl = [c for c in calls_in(gi.node) if isinstance(c.func, ast.Attribute) and c.func.attr == "replace"
            and isinstance(c.func.value, ast.Name) and c.func.value.id == gi.params[1]]
    ctx.require(len(repl) == 2 and all(isinstance(c.args[1], ast.Constant) for c in repl), "__getitem__: replace scheme not understood")
    placeholder = {c.args[1].value for c in repl}
    ctx.require(len(placeholder) == 1, "replace placeholders differ")
    ph = placeholder.pop()
    multi_first = [unparse(c.args[0]) for c in repl]
    ctx.require(any("multiples" in m for m in multi_first) and any(m == "idx" for m in multi_first),
                "__getitem__: expected key.replace('0' + multiples, X) and key.replace(idx, X)")
    methods = set(cd.methods)
    for tok in DOCUMENTED_TOKENS:
        key = f"{cd.key}:token:{tok}"
        if "_key_" + tok in methods:
            ctx.ok(key, f"_key_{tok}")
            continue
        m = pat.match(tok)
        if not m:
            ctx.violation(key, f"documented token %({tok})s matches neither a _key_ method nor the column-token regex", gi.loc)
            continue
        idx, mult = m.group(1), m.group(2)
        attr = "_key_" + (tok.replace("0" + mult, ph) if mult else tok.replace(idx, ph))
        ctx.check(attr in methods, key, f"documented token %({tok})s dispatches to {attr}, which ConventionDict does not define "
                                        f"(KeyError at constraint creation)", attr, gi.loc)
    # conv bypass
    f = ctx.func(f"{NAMING}::_constraint_name_for_table")
    g = ctx.cfg(f)
    rets = returns_of(f.node)

    def conv_atom(e):
        e2 = expand(f.node, e)
        return isinstance(e2, ast.Call) and dotted(e2.func) == "isinstance" and len(e2.args) == 2 \
            and unparse(e2.args[0]) == "const.name" and dotted(e2.args[1]) == "conv"

    def atoms_at(r_):
        """branch outcomes that dominate the return (early returns, nested / compound / inverted tests alike)"""
        return [(e, pol) for e, pol in dominating_atoms(g, r_, f.node)]

    # a name already wrapped in conv() is returned as it is: with isinstance(const.name, conv) true, every path
    # to the exit ends in `return const.name`
    conv_keys = {canon_atom(e)[0] for e, _ in _test_atoms_of(f.node) if conv_atom(e)}
    ctx.require(conv_keys, f"{f.key}: no isinstance(const.name, conv) test")
    as_is = [r_ for r_ in rets if r_.value is not None and unparse(expand(f.node, r_.value)) == "const.name"]
    reach = g.reachable([g.entry], edge_ok=edge_ok_under(g, {k: True for k in conv_keys}, local_defs(f.node)))
    other = [r_ for r_ in rets if r_ not in as_is and set(g.nodes_for(r_)) & reach]
    ctx.check(bool(as_is) and not other and g.exit in reach, f.key + ":conv-bypass",
              "a name already wrapped in conv() is not returned unchanged", "isinstance(const.name, conv) -> const.name", f.loc)
    conv_rets = [r_ for r_ in rets if r_.value is not None and isinstance(expand(f.node, r_.value), ast.Call)
                 and call_name(expand(f.node, r_.value)) == "conv"]
    ok = bool(conv_rets)
    for r_ in conv_rets:
        ok = ok and any(conv_atom(e) and not pol for e, pol in atoms_at(r_))
        val = expand(f.node, r_.value)
        v = val.args[0] if val.args else None
        ok = ok and isinstance(v, ast.BinOp) and isinstance(v.op, ast.Mod) and isinstance(v.right, ast.Call) \
            and call_name(v.right) == "ConventionDict"
    ctx.check(ok, f.key + ":convention-result",
              "the convention branch does not return conv(convention % ConventionDict(...)) under `not isinstance(name, conv)`",
              "conv(convention % ConventionDict(..))", f.loc)


# ------------------------------------------------------------------------------------------ R5
class _NeedAtom(Exception):
    def __init__(self, atom):
        self.atom = atom


class _ClashEval:
    """Three-valued walk of the name-clash region of visit_bindparam for the scenario "another, unrelated bind
    element is already registered under this rendered name".  `roles` maps the two local names to 'existing'/'new';
    `unique` gives the scenario's value of <role>.unique.  Attributes other than `unique` are free (independent of
    the scenario): every assignment of them is explored."""

    def __init__(self, ctx, fn, roles, unique, name_var):
        self.ctx, self.fn, self.roles, self.unique, self.name_var = ctx, fn, roles, unique, name_var
        self.free = {}

    # -- expressions
    def _role(self, n):
        if isinstance(n, ast.Subscript) and dotted(n.value) == "self.binds" and isinstance(n.slice, ast.Name) \
                and n.slice.id == self.name_var:
            return "existing"
        return self.roles.get(n.id) if isinstance(n, ast.Name) else None

    def ev(self, t):
        if isinstance(t, ast.BoolOp):
            if isinstance(t.op, ast.And):
                for v in t.values:
                    if not self.ev(v):
                        return False
                return True
            for v in t.values:
                if self.ev(v):
                    return True
            return False
        if isinstance(t, ast.UnaryOp) and isinstance(t.op, ast.Not):
            return not self.ev(t.operand)
        if isinstance(t, ast.Constant):
            return bool(t.value)
        if isinstance(t, ast.Compare) and len(t.ops) == 1:
            l, r_, op = t.left, t.comparators[0], t.ops[0]
            if self._role(l) and self._role(r_) and self._role(l) != self._role(r_):
                if isinstance(op, (ast.IsNot, ast.NotEq)):
                    return True
                if isinstance(op, (ast.Is, ast.Eq)):
                    return False
            if isinstance(op, (ast.In, ast.NotIn)) and isinstance(l, ast.Name) and l.id == self.name_var \
                    and dotted(r_) == "self.binds":
                return isinstance(op, ast.In)
        if isinstance(t, ast.Attribute) and self._role(t.value):
            if t.attr == "unique":
                return self.unique[self._role(t.value)]
            return self._free(t)
        if isinstance(t, ast.Call) and isinstance(t.func, ast.Attribute) and len(t.args) == 1 and not t.keywords:
            a, b = t.func.value, t.args[0]
            if isinstance(a, ast.Attribute) and isinstance(b, ast.Attribute) and self._role(a.value) and self._role(b.value) \
                    and self._role(a.value) != self._role(b.value) and a.attr == b.attr:
                # <x>.<set attr>.intersection(<y>.<same attr>): the two elements are unrelated -> no common member
                if t.func.attr in ("intersection", "__and__"):
                    return False
                if t.func.attr == "isdisjoint":
                    return True
        if isinstance(t, ast.BinOp) and isinstance(t.op, ast.BitAnd) and isinstance(t.left, ast.Attribute) \
                and isinstance(t.right, ast.Attribute) and self._role(t.left.value) and self._role(t.right.value) \
                and self._role(t.left.value) != self._role(t.right.value) and t.left.attr == t.right.attr:
            return False
        if isinstance(t, ast.Call):
            pred = self._follow_predicate(t)
            if pred is not None:
                return pred
        if isinstance(t, ast.Call) and any(self._role(n) for n in ast.walk(t)):
            self.ctx.error(f"{self.fn.key}: name-clash test `{unparse(t)}` is not understood")
        return self._free(t)

    def _free(self, t):
        k = unparse(t)
        for r_name, role in self.roles.items():
            k = re.sub(rf"\b{re.escape(r_name)}\b", f"<{role}>", k)
        if k not in self.free:
            raise _NeedAtom(k)
        return self.free[k]

    def _callee(self, call):
        nm = dotted(call.func) or ""
        if nm.startswith("self.") and nm.count(".") == 1 and self.fn.cls is not None:
            return self.ctx.index.resolve_method(self.fn.cls, nm.split(".")[1])
        return None

    def _sub_eval(self, call, target):
        params = [p_ for p_ in target.params if p_ != "self"]
        bound = dict(zip(params, call.args))
        bound.update({k.arg: k.value for k in call.keywords if k.arg})
        roles = {p_: self._role(a) for p_, a in bound.items() if self._role(a)}
        nv = next((p_ for p_, a in bound.items() if isinstance(a, ast.Name) and a.id == self.name_var), self.name_var)
        if set(roles.values()) != {"existing", "new"}:
            return None
        e = _ClashEval(self.ctx, target, roles, self.unique, nv)
        e.free = self.free
        self.ctx.functions_analysed.add(target.key)
        return e

    def _follow_predicate(self, call):
        target = self._callee(call)
        if target is None:
            return None
        e = self._sub_eval(call, target)
        if e is None:
            return None
        body = [st for st in target.node.body if not (isinstance(st, ast.Expr) and isinstance(st.value, ast.Constant))]
        if len(body) == 1 and isinstance(body[0], ast.Return) and body[0].value is not None:
            return e.ev(body[0].value)
        self.ctx.error(f"{target.key}: predicate helper of the name-clash guard is not a single `return <test>`")

    # -- statements: 'raise' | 'fall'
    def run(self, body, trace):
        for st in body:
            if isinstance(st, ast.Raise):
                trace.append(f"raise {raised_name(st) or ''}".strip())
                return "raise"
            if isinstance(st, ast.Return):
                trace.append("return")
                return "return"
            if isinstance(st, ast.If):
                v = self.ev(st.test)
                trace.append(f"`{unparse(st.test)[:70]}` is {v}")
                out = self.run(st.body if v else st.orelse, trace)
                if out != "fall":
                    return out
            elif isinstance(st, ast.Expr) and isinstance(st.value, ast.Call):
                target = self._callee(st.value)
                e = self._sub_eval(st.value, target) if target is not None else None
                if e is not None:
                    trace.append(f"-> {target.qualname}()")
                    if e.run(target.node.body, trace) == "raise":
                        return "raise"
        return "fall"


def _explore(make_eval, body):
    """run the region under every assignment of the free atoms; -> list of (assignment, trace) that do not raise."""
    bad, work = [], [{}]
    while work:
        assign = work.pop()
        e = make_eval()
        e.free = dict(assign)
        trace = []
        try:
            out = e.run(body, trace)
        except _NeedAtom as na:
            work.append({**assign, na.atom: True})
            work.append({**assign, na.atom: False})
            if len(work) > 256:
                raise Unsupported("name-clash region: too many independent conditions")
            continue
        if out != "raise":
            bad.append((assign, trace))
    return bad


@R.rule("C21-R5", floor=4, template="T-BOOL (scenario truth table)",
        desc="SQLCompiler.visit_bindparam: when a distinct, unrelated bind element is already registered under the "
             "rendered name and either of the two is `unique` (anonymous/generated), every path of the clash region "
             "raises, whichever of the two was compiled first; the registration is dominated by that check")
def r5(ctx):
    f = ctx.func(f"{COMP}::SQLCompiler.visit_bindparam")
    p_bind = f.params[1]
    names = [n for n in walk_local(f.node) if isinstance(n, ast.Assign) and isinstance(n.value, ast.Call)
             and dotted(n.value.func) == "self._truncate_bindparam" and isinstance(n.targets[0], ast.Name)]
    ctx.require(len(names) == 1, f"{f.key}: expected one `<name> = self._truncate_bindparam(...)`")
    nvar = names[0].targets[0].id

    def is_binds_sub(t, idx_name):
        return isinstance(t, ast.Subscript) and dotted(t.value) == "self.binds" and isinstance(t.slice, ast.Name) \
            and t.slice.id == idx_name
    stores = [n for n in walk_local(f.node) if isinstance(n, ast.Assign) and any(is_binds_sub(t, nvar) for t in n.targets)
              and isinstance(n.value, ast.Name) and n.value.id == p_bind]
    ctx.require(len(stores) == 1, f"{f.key}: expected one registration `self.binds[{nvar}] = {p_bind}`")
    def is_lookup(t):
        return isinstance(t, ast.Compare) and len(t.ops) == 1 and isinstance(t.ops[0], ast.In) and isinstance(t.left, ast.Name) \
            and t.left.id == nvar and dotted(t.comparators[0]) == "self.binds"
    lookups = [n for n in walk_local(f.node) if isinstance(n, ast.If) and any(is_lookup(t) for t in ast.walk(n.test))]
    ctx.require(len(lookups) == 1, f"{f.key}: expected one `if {nvar} in self.binds:` region")
    region = lookups[0]
    ex = [n for n in walk_local(region) if isinstance(n, ast.Assign) and is_binds_sub(n.value, nvar)
          and isinstance(n.targets[0], ast.Name)]
    ctx.require(len(ex) <= 1, f"{f.key}: the registered element is bound to more than one local")
    evar = ex[0].targets[0].id if ex else f"self.binds[{nvar}]"
    roles = {evar: "existing", p_bind: "new"}
    scenarios = [("new-unique", {"existing": False, "new": True},
                  "the element being compiled is unique (anonymous / generated name) and the registered one is an "
                  "explicitly named bindparam()"),
                 ("existing-unique", {"existing": True, "new": False},
                  "the registered element is unique (anonymous / generated name) and the one being compiled is an "
                  "explicitly named bindparam()"),
                 ("both-unique", {"existing": True, "new": True}, "both elements are unique")]
    for tag, uniq, words in scenarios:
        bad = _explore(lambda: _ClashEval(ctx, f, roles, uniq, nvar), [region])
        key = f"{f.key}:name-clash:{tag}"
        if bad:
            assign, trace = bad[0]
            extra = ", ".join(f"{k}={v}" for k, v in assign.items())
            ctx.violation(key,
                          f"two distinct, unrelated bind elements render to the same parameter name, {words}"
                          f"{' (with ' + extra + ')' if extra else ''}: the clash region does not raise, "
                          f"`{unparse(stores[0])[:60]}` replaces the registered element and both expressions share one "
                          f"parameter. The guard must hold for either order of compilation ({evar}.unique or {p_bind}.unique)",
                          f.loc, trace)
        else:
            ctx.ok(key, "CompileError on every path")
    g = ctx.cfg(f)
    w = g.always_preceded(g.nodes_for(stores[0])[0], [i for i in g.nodes_for(region)])
    ctx.check(w is None, f"{f.key}:name-clash:dominates-registration",
              f"`{unparse(stores[0])[:60]}` can be reached without passing the `{nvar} in self.binds` clash check", 
              "registration dominated by the clash check", f.loc, w)


# ------------------------------------------------------------------------------------------ R6
# Documented meaning of the Dialect attributes (engine.interfaces.Dialect): max_index_name_length is "the max length
# of index names", max_constraint_name_length "the max length of constraint names"; both fall back to
# max_identifier_length.  So the limit is decided by the class of DDL object the name is emitted for.
DDL_NAME_LIMIT = {"sql/schema.py::Index": "max_index_name_length", "sql/schema.py::Constraint": "max_constraint_name_length"}


def _limit_helpers(ctx, prep, fc):
    """name of an IdentifierPreparer method format_constraint returns through -> the dialect limit that method truncates
    against: 'max_index_name_length' / 'max_constraint_name_length' (each falling back to max_identifier_length) or
    plain 'max_identifier_length'.  Decided by evaluating the method on every path, so the limit may be computed in
    place, through locals, or in a shared helper method."""
    out = {}
    for r_ in returns_of(fc.node):
        v = r_.value
        nm = dotted(v.func) if isinstance(v, ast.Call) else None
        if not nm or not nm.startswith("self.") or nm.count(".") != 1:
            continue
        m = ctx.index.resolve_method(prep, nm.split(".")[1])
        if m is None or m.name in out or m.name == SINK:
            continue
        lim = _limit_paths(ctx, prep, m)
        if lim is None:
            continue
        kind = _limit_kind(lim)
        ctx.require(kind is not None, f"{m.key}: the truncation limit is not understood: "
                    + "; ".join(sorted({f"{lab} when {a}" for a, lab in lim}))[:300])
        out[m.name] = kind
    return out


def _dispatch_value(ctx, test, p_c, k, vn, mod):
    """value of a test for a DDL object of class k (visit name vn); None if the test does not discriminate by class."""
    if isinstance(test, ast.BoolOp):
        vals = [_dispatch_value(ctx, v, p_c, k, vn, mod) for v in test.values]
        known = [v for v in vals if v is not None]
        if isinstance(test.op, ast.And):
            return False if any(v is False for v in known) else (True if len(known) == len(vals) else None)
        return True if any(v is True for v in known) else (False if len(known) == len(vals) else None)
    if isinstance(test, ast.UnaryOp) and isinstance(test.op, ast.Not):
        v = _dispatch_value(ctx, test.operand, p_c, k, vn, mod)
        return None if v is None else not v
    if isinstance(test, ast.Compare) and len(test.ops) == 1:
        sides = [test.left, test.comparators[0]]
        vis = [s_ for s_ in sides if dotted(s_) in (f"{p_c}.__visit_name__", f"type({p_c}).__visit_name__")]
        if vis:
            other = sides[1] if vis[0] is sides[0] else sides[0]
            op = test.ops[0]
            if isinstance(other, ast.Constant) and isinstance(op, (ast.Eq, ast.NotEq)):
                return (vn == other.value) == isinstance(op, ast.Eq)
            if isinstance(other, (ast.Tuple, ast.List, ast.Set)) and all(isinstance(e, ast.Constant) for e in other.elts) \
                    and isinstance(op, (ast.In, ast.NotIn)) and vis[0] is sides[0]:
                return (vn in {e.value for e in other.elts}) == isinstance(op, ast.In)
            ctx.error(f"format_constraint: dispatch test `{unparse(test)}` is not understood")
    if isinstance(test, ast.Call) and dotted(test.func) == "isinstance" and len(test.args) == 2 \
            and isinstance(test.args[0], ast.Name) and test.args[0].id == p_c:
        classes = test.args[1].elts if isinstance(test.args[1], ast.Tuple) else [test.args[1]]
        res = False
        for c in classes:
            target = ctx.index.resolve(mod, dotted(c) or "")
            ctx.require(hasattr(target, "methods") and hasattr(target, "bases"),
                        f"format_constraint: class `{unparse(c)}` in `{unparse(test)}` cannot be resolved")
            res = res or ctx.index.is_subclass(k, target)
        return res
    if any(dotted(n) in (f"{p_c}.__visit_name__", f"{p_c}.__class__") for n in ast.walk(test) if isinstance(n, ast.Attribute)) \
            or any(isinstance(n, ast.Call) and dotted(n.func) in ("type", "isinstance")
                   and any(isinstance(a, ast.Name) and a.id == p_c for a in n.args) for n in ast.walk(test)):
        ctx.error(f"format_constraint: dispatch test `{unparse(test)}` is not understood")
    return None


@R.rule("C21-R6", floor=7, template="T-TABLE / T-EXHAUST",
        desc="IdentifierPreparer.format_constraint truncates the name of every DDL object class (Index, Constraint and "
             "all their subclasses) against the limit documented for that kind of object: max_index_name_length for "
             "Index only, max_constraint_name_length for every Constraint")
def r6(ctx):
    ix = ctx.index
    prep = ix.cls(PREP)
    fc = ctx.func(f"{PREP}.format_constraint")
    p_c = fc.params[1]
    helpers = _limit_helpers(ctx, prep, fc)
    ctx.require(helpers, f"{fc.key}: no return through a method that ends in _truncate_and_render_maxlen_name()")
    g = ctx.cfg(fc)
    exits = []  # (return stmt, limit attr)
    for r_ in returns_of(fc.node):
        v = r_.value
        if isinstance(v, ast.Call) and (dotted(v.func) or "").startswith("self.") and (dotted(v.func) or "").split(".")[-1] in helpers:
            exits.append((r_, helpers[dotted(v.func).split(".")[-1]]))
    ctx.require(exits, f"{fc.key}: no return through a truncation helper")
    base_index = ix.cls("sql/schema.py::Index")
    base_const = ix.cls("sql/schema.py::Constraint")
    family = [k for k in ix.all_classes() if ix.is_subclass(k, base_index) or ix.is_subclass(k, base_const)]
    for k in sorted(family, key=lambda c: c.key):
        owner, nodes = ix.class_attr_nodes(k, "__visit_name__")
        ctx.require(owner is not None and len(nodes) == 1 and isinstance(nodes[0], ast.Constant),
                    f"{k.key}: __visit_name__ is not a single string constant")
        vn = nodes[0].value
        expected = DDL_NAME_LIMIT["sql/schema.py::Index"] if ix.is_subclass(k, base_index) else DDL_NAME_LIMIT["sql/schema.py::Constraint"]
        chosen = []
        for r_, attr in exits:
            node = g.nodes_for(r_)[0]
            ok = True
            for test, pol in g.edge_guards(node):
                v = _dispatch_value(ctx, test, p_c, k, vn, fc.module)
                if v is not None and v != pol:
                    ok = False
            if ok:
                chosen.append((r_, attr))
        key = f"{fc.key}:limit-for:{k.name}"
        if len(chosen) != 1:
            ctx.violation(key, f"a {k.name} (visit name '{vn}') selects {len(chosen)} truncating return(s) of format_constraint, "
                               f"expected exactly one", fc.loc)
            continue
        r_, attr = chosen[0]
        ctx.check(attr == expected, key,
                  f"the name of a {k.name} (visit name '{vn}') is truncated by `{unparse(r_.value.func)}()` against "
                  f"dialect.{attr}{' only' if attr == 'max_identifier_length' else ''}, but "
                  f"{'an index' if expected.startswith('max_index') else 'a constraint'} name is limited by "
                  f"dialect.{expected}: with {expected} < {attr} the rendered name exceeds the dialect's limit",
                  f"'{vn}' -> dialect.{attr}", fc.loc)


# ------------------------------------------------------------------------------------------ self test
R.mutant("r1-maxlen-slice-too-long", COMP,
         sub('name = name[0 : max_ - 8] + "_" + util.md5_hex(name)[-4:]', 'name = name[0 : max_ - 4] + "_" + util.md5_hex(name)[-4:]'), "C21-R1")
R.mutant("r1-maxlen-suffix-head-slice", COMP,
         sub('name = name[0 : max_ - 8] + "_" + util.md5_hex(name)[-4:]', 'name = name[0 : max_ - 8] + "_" + util.md5_hex(name)[4:]'), "C21-R1")
R.mutant("r1-label-slice-too-long", COMP,
         sub("                anonname[0 : max(self.label_length - 6, 0)]\n", "                anonname[0 : max(self.label_length - 2, 0)]\n"), "C21-R1")
R.mutant("r1-validate-dropped", COMP,
         sub("        else:\n            self.dialect.validate_identifier(name)\n\n        if not _alembic_quote:", "        if not _alembic_quote:"), "C21-R1")
R.mutant("r1-validate-wrong-comparison", "engine/default.py",
         sub("        if len(ident) > self.max_identifier_length:\n            raise exc.IdentifierError(",
             "        if len(ident) < self.max_identifier_length:\n            raise exc.IdentifierError("), "C21-R1")
R.mutant("r2-digest-uses-id", COMP,
         sub('name = name[0 : max_ - 8] + "_" + util.md5_hex(name)[-4:]', 'name = name[0 : max_ - 8] + "_" + util.md5_hex(str(id(name)))[-4:]'), "C21-R2")
R.mutant("r2-counter-from-hash", COMP,
         sub("            counter = self._truncated_counters.get(ident_class, 1)\n",
             "            counter = self._truncated_counters.get(ident_class, 1)\n            _salt = hash(name)\n"), "C21-R2")
R.mutant("r3-counter-not-advanced", COMP, sub("            self._truncated_counters[ident_class] = counter + 1\n", "            pass\n"), "C21-R3")
R.mutant("r3-memo-not-stored", COMP, sub("        self.truncated_names[(ident_class, name)] = truncname\n        return truncname\n", "        return truncname\n"), "C21-R3")
R.mutant("r3-memo-key-without-class", COMP,
         sub("        self.truncated_names[(ident_class, name)] = truncname\n", "        self.truncated_names[(name, name)] = truncname\n"), "C21-R3")
R.mutant("r4-key-method-renamed", NAMING, sub("    def _key_column_X_label(self, idx):", "    def _key_column_X_ddl_label(self, idx):"), "C21-R4")
R.mutant("r4-referred-table-removed", NAMING, sub("    def _key_referred_table_name(self):", "    def _referred_table_name(self):"), "C21-R4")
R.mutant("r4-conv-bypass-removed", NAMING,
         sub("    if isinstance(const.name, conv):\n        return const.name\n    elif (", "    if (", ), "C21-R4")
# benign
R.mutant("benign-rename-local", COMP,
         sub("            counter = self._truncated_counters.get(ident_class, 1)\n            truncname = (\n                anonname[0 : max(self.label_length - 6, 0)]\n                + \"_\"\n                + hex(counter)[2:]\n            )\n            self._truncated_counters[ident_class] = counter + 1\n",
             "            seq = self._truncated_counters.get(ident_class, 1)\n            self._truncated_counters[ident_class] = seq + 1\n            truncname = (\n                anonname[0 : max(self.label_length - 6, 0)]\n                + \"_\"\n                + hex(seq)[2:]\n            )\n"), None)
R.mutant("benign-shorter-prefix", COMP,
         sub('name = name[0 : max_ - 8] + "_" + util.md5_hex(name)[-4:]', 'name = name[0 : max_ - 9] + "_" + util.md5_hex(name)[-4:]'), None)
R.mutant("benign-new-token-method", NAMING,
         sub("    def _key_column_X_label(self, idx):", "    def _key_schema_name(self):\n        return self.table.schema\n\n    def _key_column_X_label(self, idx):"), None)

# ---- seeds / strengthen round (str-h) ----------------------------------------------------------
_UNIQ = "                    (existing.unique or bindparam.unique)\n"
# seed C21/1: the clash guard only looks at the already-registered parameter
R.mutant("r5-seed1-guard-ignores-new-unique", COMP, sub(_UNIQ, "                    existing.unique\n"), "C21-R5")
R.mutant("r5-guard-ignores-existing-unique", COMP, sub(_UNIQ, "                    bindparam.unique\n"), "C21-R5")
R.mutant("r5-guard-needs-both-unique", COMP, sub(_UNIQ, "                    (existing.unique and bindparam.unique)\n"), "C21-R5")
R.mutant("r5-conflict-only-warns", COMP,
         sub("                    raise exc.CompileError(\n                        \"Bind parameter '%s' conflicts with \"\n"
             "                        \"unique bind parameter of the same name\" % name\n                    )\n",
             "                    util.warn(\n                        \"Bind parameter '%s' conflicts with \"\n"
             "                        \"unique bind parameter of the same name\" % name\n                    )\n"), "C21-R5")
R.mutant("r5-clash-check-skipped-for-postcompile", COMP,
         sub("        if name in self.binds:\n            existing = self.binds[name]\n",
             "        if name in self.binds and not post_compile:\n            existing = self.binds[name]\n"), "C21-R5")
R.mutant("benign-guard-operands-swapped", COMP, sub(_UNIQ, "                    (bindparam.unique or existing.unique)\n"), None)
R.mutant("benign-guard-through-predicate-helper", COMP,
         chain(sub(_UNIQ, "                    self._either_unique(existing, bindparam)\n"),
               sub("    def render_bind_cast(self, type_, dbapi_type, sqltext):\n",
                   "    def _either_unique(self, registered, incoming):\n        return incoming.unique or registered.unique\n\n"
                   "    def render_bind_cast(self, type_, dbapi_type, sqltext):\n")), None)
R.mutant("benign-identity-test-merged-into-lookup", COMP,
         sub("        if name in self.binds:\n            existing = self.binds[name]\n            if existing is not bindparam:\n",
             "        if name in self.binds and self.binds[name] is not bindparam:\n            existing = self.binds[name]\n            if True:\n"), None)
# seed C21/2: UNIQUE constraint names truncated against the index-name limit
_DISPATCH = '        if constraint.__visit_name__ == "index":\n'
R.mutant("r6-seed2-unique-constraint-uses-index-limit", COMP,
         sub(_DISPATCH, '        if constraint.__visit_name__ in ("index", "unique_constraint"):\n'), "C21-R6")
R.mutant("r6-dispatch-inverted", COMP, sub(_DISPATCH, '        if constraint.__visit_name__ != "index":\n'), "C21-R6")
R.mutant("r6-primary-key-uses-index-limit", COMP,
         sub(_DISPATCH, '        if isinstance(constraint, (schema.Index, schema.PrimaryKeyConstraint)):\n'), "C21-R6")
R.mutant("benign-dispatch-by-isinstance", COMP, sub(_DISPATCH, '        if isinstance(constraint, schema.Index):\n'), None)
R.mutant("benign-dispatch-constraint-arm-first", COMP,
         sub('        if constraint.__visit_name__ == "index":\n            return self.truncate_and_render_index_name(\n'
             '                name, _alembic_quote=_alembic_quote\n            )\n        else:\n'
             '            return self.truncate_and_render_constraint_name(\n                name, _alembic_quote=_alembic_quote\n            )\n',
             '        if constraint.__visit_name__ != "index":\n            return self.truncate_and_render_constraint_name(\n'
             '                name, _alembic_quote=_alembic_quote\n            )\n'
             '        return self.truncate_and_render_index_name(\n            name, _alembic_quote=_alembic_quote\n        )\n'), None)

# ---- robustify round (rob-E2): stored benign refactors rfE_16/rfE_17 as families + variants of my own -------------
_CNT = ('    if isinstance(const.name, conv):\n        return const.name\n    elif (\n        convention is not None\n'
        '        and not isinstance(const.name, conv)\n        and (\n            const.name is None\n'
        '            or "constraint_name" in convention\n            or const.name is _NONE_NAME\n        )\n    ):\n'
        '        return conv(\n            convention\n            % ConventionDict(const, table, metadata.naming_convention)\n        )\n'
        '    elif convention is _NONE_NAME:\n        return None\n')


def _cnt_sequential(guard, result):
    return sub(_CNT, '    if isinstance(const.name, conv):\n        return const.name\n\n    if ' + guard + ':\n        if (\n'
                     '            const.name is None\n            or "constraint_name" in convention\n            or const.name is _NONE_NAME\n'
                     '        ):\n            tokens = ConventionDict(const, table, metadata.naming_convention)\n'
                     '            return ' + result + '\n\n    if convention is _NONE_NAME:\n        return None\n\n    return None\n')


R.mutant("benign-rfE16-convention-sequential-ifs", NAMING,
         chain(_cnt_sequential("convention is not None and not isinstance(const.name, conv)", "conv(convention % tokens)"),
               sub("            return dict_[super_]\n    else:\n        return None\n", "            return dict_[super_]\n\n    return None\n")), None)
R.mutant("benign-convention-redundant-conv-test-dropped", NAMING,
         _cnt_sequential("convention is not None", "conv(convention % tokens)"), None)
R.mutant("r4-sequential-ifs-result-not-wrapped-in-conv", NAMING,
         _cnt_sequential("convention is not None and not isinstance(const.name, conv)", "convention % tokens"), "C21-R4")
R.mutant("r4-sequential-ifs-conv-name-gets-convention", NAMING,
         chain(_cnt_sequential("convention is not None", "conv(convention % tokens)"),
               sub("    if isinstance(const.name, conv):\n        return const.name\n\n    if convention is not None:\n",
                   "    if isinstance(const.name, conv) and convention is None:\n        return const.name\n\n    if convention is not None:\n")),
         "C21-R4")

_TI = ('        if (ident_class, name) in self.truncated_names:\n            return self.truncated_names[(ident_class, name)]\n\n'
       '        anonname = name.apply_map(self.anon_map)\n\n        if len(anonname) > self.label_length - 6:\n'
       '            counter = self._truncated_counters.get(ident_class, 1)\n            truncname = (\n'
       '                anonname[0 : max(self.label_length - 6, 0)]\n                + "_"\n                + hex(counter)[2:]\n            )\n'
       '            self._truncated_counters[ident_class] = counter + 1\n        else:\n            truncname = anonname\n'
       '        self.truncated_names[(ident_class, name)] = truncname\n        return truncname\n')


def _ti_aliased(key="(ident_class, name)", short_test="len(anonname) <= self.label_length - 6", cut="self.label_length - 6",
                store="        truncated_names[memo_key] = truncname\n"):
    return sub(_TI, '        memo_key = ' + key + '\n        truncated_names = self.truncated_names\n'
                    '        if memo_key in truncated_names:\n            return truncated_names[memo_key]\n\n'
                    '        anonname = name.apply_map(self.anon_map)\n\n        if ' + short_test + ':\n'
                    '            truncname = anonname\n        else:\n'
                    '            counter = self._truncated_counters.get(ident_class, 1)\n'
                    '            prefix = anonname[0 : max(' + cut + ', 0)]\n'
                    '            truncname = prefix + "_" + hex(counter)[2:]\n'
                    '            self._truncated_counters[ident_class] = counter + 1\n' + store + '        return truncname\n')


R.mutant("benign-rfE17-truncated-identifier-aliases-inverted", COMP, _ti_aliased(), None)
R.mutant("r3-aliased-memo-store-dropped", COMP, _ti_aliased(store=""), "C21-R3")
R.mutant("r3-aliased-memo-key-without-class", COMP, _ti_aliased(key="(name, name)"), "C21-R3")
R.mutant("r1-aliased-prefix-too-long", COMP, _ti_aliased(cut="self.label_length - 3"), "C21-R1")
R.mutant("r1-inverted-test-threshold-above-label-length", COMP,
         _ti_aliased(short_test="len(anonname) <= self.label_length + 2"), "C21-R1")
R.mutant("benign-length-test-operands-flipped", COMP,
         sub("        if len(anonname) > self.label_length - 6:\n", "        if self.label_length - 6 < len(anonname):\n"), None)


def _ti_early(short_store="            self.truncated_names[(ident_class, name)] = anonname\n"):
    return sub(_TI, '        if (ident_class, name) in self.truncated_names:\n            return self.truncated_names[(ident_class, name)]\n\n'
                    '        anonname = name.apply_map(self.anon_map)\n\n        if len(anonname) <= self.label_length - 6:\n'
                    + short_store + '            return anonname\n\n'
                    '        counter = self._truncated_counters.get(ident_class, 1)\n'
                    '        truncname = anonname[0 : max(self.label_length - 6, 0)] + "_" + hex(counter)[2:]\n'
                    '        self._truncated_counters[ident_class] = counter + 1\n'
                    '        self.truncated_names[(ident_class, name)] = truncname\n        return truncname\n')


R.mutant("benign-short-name-early-return", COMP, _ti_early(), None)
R.mutant("r3-early-return-short-name-not-memoised", COMP, _ti_early(short_store=""), "C21-R3")
R.mutant("benign-memo-lookup-not-in-single-return", COMP,
         sub(_TI, '        if (ident_class, name) not in self.truncated_names:\n            anonname = name.apply_map(self.anon_map)\n'
                  '            if len(anonname) > self.label_length - 6:\n'
                  '                counter = self._truncated_counters.get(ident_class, 1)\n'
                  '                truncname = anonname[0 : max(self.label_length - 6, 0)] + "_" + hex(counter)[2:]\n'
                  '                self._truncated_counters[ident_class] = counter + 1\n            else:\n                truncname = anonname\n'
                  '            self.truncated_names[(ident_class, name)] = truncname\n'
                  '        return self.truncated_names[(ident_class, name)]\n'), None)
R.mutant("r3-memo-lookup-not-in-counter-read-before-lookup", COMP,
         sub(_TI, '        counter = self._truncated_counters.get(ident_class, 1)\n'
                  '        self._truncated_counters[ident_class] = counter + 1\n'
                  '        if (ident_class, name) not in self.truncated_names:\n            anonname = name.apply_map(self.anon_map)\n'
                  '            if len(anonname) > self.label_length - 6:\n'
                  '                truncname = anonname[0 : max(self.label_length - 6, 0)] + "_" + hex(counter)[2:]\n'
                  '            else:\n                truncname = anonname\n'
                  '            self.truncated_names[(ident_class, name)] = truncname\n'
                  '        return self.truncated_names[(ident_class, name)]\n'), "C21-R3")

_ML = ('        if isinstance(name, elements._truncated_label):\n            if len(name) > max_:\n'
       '                name = name[0 : max_ - 8] + "_" + util.md5_hex(name)[-4:]\n        else:\n'
       '            self.dialect.validate_identifier(name)\n\n        if not _alembic_quote:\n            return name\n'
       '        else:\n            return self.quote(name)\n')


def _ml_inverted(suffix="util.md5_hex(name)[-4:]", test="len(name) > max_"):
    return sub(_ML, '        if not isinstance(name, elements._truncated_label):\n            self.dialect.validate_identifier(name)\n'
                    '        elif ' + test + ':\n            hash_suffix = ' + suffix + '\n'
                    '            name = name[0 : max_ - 8] + "_" + hash_suffix\n\n'
                    '        if _alembic_quote:\n            return self.quote(name)\n        else:\n            return name\n')


R.mutant("benign-rfE17-maxlen-name-inverted-hash-suffix", COMP, _ml_inverted(), None)
R.mutant("r1-inverted-hash-suffix-too-long", COMP, _ml_inverted(suffix="util.md5_hex(name)[-8:]"), "C21-R1")
R.mutant("r1-inverted-truncation-threshold-above-limit", COMP, _ml_inverted(test="len(name) > max_ + 4"), "C21-R1")
R.mutant("r2-inverted-hash-suffix-of-object-id", COMP, _ml_inverted(suffix="util.md5_hex(str(id(name)))[-4:]"), "C21-R2")


def _ml_bool_local(second="        elif not is_label:\n            self.dialect.validate_identifier(name)\n"):
    return sub(_ML, '        is_label = isinstance(name, elements._truncated_label)\n        too_long = len(name) > max_\n'
                    '        if is_label and too_long:\n            name = name[0 : max_ - 8] + "_" + util.md5_hex(name)[-4:]\n'
                    + second + '\n        return name if not _alembic_quote else self.quote(name)\n')


R.mutant("benign-maxlen-name-boolean-locals", COMP, _ml_bool_local(), None)
R.mutant("r1-boolean-locals-validation-only-when-too-long", COMP,
         _ml_bool_local('        elif not is_label and too_long and max_ > 64:\n            self.dialect.validate_identifier(name)\n'), "C21-R1")
R.mutant("benign-maxlen-name-conditional-expression", COMP,
         sub(_ML, '        if isinstance(name, elements._truncated_label):\n'
                  '            name = name[0 : max_ - 8] + "_" + util.md5_hex(name)[-4:] if len(name) > max_ else name\n'
                  '        else:\n            self.dialect.validate_identifier(name)\n\n        if not _alembic_quote:\n            return name\n'
                  '        else:\n            return self.quote(name)\n'), None)
R.mutant("r1-validate-identifier-early-return-wrong-limit", "engine/default.py",
         sub("        if len(ident) > self.max_identifier_length:\n            raise exc.IdentifierError(",
             "        if len(ident) <= self.max_identifier_length + 8:\n            return\n        if True:\n            raise exc.IdentifierError("), "C21-R1")
R.mutant("benign-validate-identifier-early-return", "engine/default.py",
         sub("        if len(ident) > self.max_identifier_length:\n            raise exc.IdentifierError(",
             "        if len(ident) <= self.max_identifier_length:\n            return\n        if True:\n            raise exc.IdentifierError("), None)


def _ti_helper(advance="        self._truncated_counters[ident_class] = counter + 1\n", counter="self._truncated_counters.get(ident_class, 1)"):
    return sub(_TI, '        if (ident_class, name) in self.truncated_names:\n            return self.truncated_names[(ident_class, name)]\n\n'
                    '        anonname = name.apply_map(self.anon_map)\n\n        if len(anonname) > self.label_length - 6:\n'
                    '            truncname = self._numbered_prefix(ident_class, anonname)\n        else:\n            truncname = anonname\n'
                    '        self.truncated_names[(ident_class, name)] = truncname\n        return truncname\n\n'
                    '    def _numbered_prefix(self, ident_class, anonname):\n        counter = ' + counter + '\n'
                    '        truncname = anonname[0 : max(self.label_length - 6, 0)] + "_" + hex(counter)[2:]\n'
                    + advance + '        return truncname\n')


R.mutant("benign-counter-logic-in-helper-method", COMP, _ti_helper(), None)
R.mutant("r3-helper-method-does-not-advance-counter", COMP, _ti_helper(advance=""), "C21-R3")
R.mutant("r2-helper-method-counter-from-id", COMP, _ti_helper(counter="id(anonname) % 4096"), ("C21-R2", "C21-R3"))


def _ml_suffix_helper(digest_of="name", keep="[-4:]"):
    return chain(sub('                name = name[0 : max_ - 8] + "_" + util.md5_hex(name)[-4:]\n',
                     '                name = name[0 : max_ - 8] + "_" + self._name_digest(name)\n'),
                 sub('    def format_index(self, index: Index) -> str:\n',
                     '    def _name_digest(self, name):\n        return util.md5_hex(' + digest_of + ')' + keep + '\n\n'
                     '    def format_index(self, index: Index) -> str:\n'))


R.mutant("benign-digest-suffix-in-helper-method", COMP, _ml_suffix_helper(), None)
R.mutant("r1-digest-helper-keeps-eight-characters", COMP, _ml_suffix_helper(keep="[-8:]"), "C21-R1")
R.mutant("r2-digest-helper-of-type-and-name", COMP, _ml_suffix_helper(digest_of="str(id(name))"), "C21-R2")


def _ti_rfi3(max_len="self.label_length - 6", miss_arm="                counter = 1\n",
             advance="            counters[ident_class] = counter + 1\n"):
    return sub(_TI, '        cache_key = (ident_class, name)\n        truncated_names = self.truncated_names\n'
                    '        if cache_key in truncated_names:\n            return truncated_names[cache_key]\n\n'
                    '        anonname = name.apply_map(self.anon_map)\n\n        max_len = ' + max_len + '\n'
                    '        if len(anonname) <= max_len:\n            truncname = anonname\n        else:\n'
                    '            counters = self._truncated_counters\n            if ident_class in counters:\n'
                    '                counter = counters[ident_class]\n            else:\n' + miss_arm +
                    '            truncname = anonname[0 : max(max_len, 0)] + "_" + hex(counter)[2:]\n' + advance +
                    '        truncated_names[cache_key] = truncname\n        return truncname\n')


R.mutant("benign-rfI3-counter-read-if-else-max-len-local", COMP, _ti_rfi3(), None)
R.mutant("r1-max-len-local-too-large", COMP, _ti_rfi3(max_len="self.label_length - 2"), "C21-R1")
R.mutant("r3-if-else-counter-advanced-only-for-new-class", COMP,
         _ti_rfi3(miss_arm="                counter = 1\n                counters[ident_class] = counter + 1\n", advance=""), "C21-R3")
R.mutant("r3-if-else-counter-read-of-other-class", COMP,
         sub("            counter = self._truncated_counters.get(ident_class, 1)\n",
             "            counter = self._truncated_counters.get(name, 1)\n"), "C21-R3")

# ---- str2-k: round-2 seeds C21_3 (label_length validated before the server-side limit is detected) and C21_4
#      (constraint names no longer truncated against max_constraint_name_length after a de-duplication) -------------
_LL_CHECK = ('        if (\n            self.label_length\n            and self.label_length > self.max_identifier_length\n        ):\n'
             '            raise exc.ArgumentError(\n                "Label length of %d is greater than this dialect\'s"\n'
             '                " maximum identifier length of %d"\n'
             '                % (self.label_length, self.max_identifier_length)\n            )\n')
_LL_DETECT = ('        if not self._user_defined_max_identifier_length:\n'
              '            max_ident_length = self._check_max_identifier_length(connection)\n'
              '            if max_ident_length:\n                self.max_identifier_length = max_ident_length\n')
_INIT_HEAD = '    def initialize(self, connection: Connection) -> None:\n        try:\n            self.server_version_info = self._get_server_version_info(\n'
_DEFAULT = "engine/default.py"


def _init_edit(head="", check=_LL_CHECK, detect=_LL_DETECT, extra_method=""):
    """DefaultDialect.initialize with `head` inserted at its top, the detection block and the label_length check replaced."""
    return chain(sub(_LL_DETECT + "\n" + _LL_CHECK, detect + ("\n" if detect and check else "") + check),
                 sub(_INIT_HEAD, extra_method + _INIT_HEAD.replace("        try:\n", head + "        try:\n", 1)))


_LL_HELPER = ('    def _validate_label_length(self) -> None:\n' + _LL_CHECK + '\n')
R.mutant("r1-seed3-label-length-validated-before-detection", _DEFAULT, _init_edit(head=_LL_CHECK + "\n", check=""), "C21-R1")
R.mutant("r1-label-length-helper-called-before-detection", _DEFAULT,
         _init_edit(head="        self._validate_label_length()\n", check="", extra_method=_LL_HELPER), "C21-R1")
R.mutant("r1-label-length-compared-with-limit-read-before-detection", _DEFAULT,
         _init_edit(head="        ident_limit = self.max_identifier_length\n",
                    check='        if self.label_length and self.label_length > ident_limit:\n'
                          '            raise exc.ArgumentError("Label length %d exceeds %d" % (self.label_length, ident_limit))\n'), "C21-R1")
R.mutant("r1-label-length-checked-only-without-user-defined-limit", _DEFAULT,
         _init_edit(check=_LL_CHECK.replace("        if (\n", "        if not self._user_defined_max_identifier_length and (\n", 1)), "C21-R1")
R.mutant("r1-detection-moved-behind-label-length-check", _DEFAULT,
         sub(_LL_DETECT + "\n" + _LL_CHECK, _LL_CHECK + "\n" + _LL_DETECT), "C21-R1")
R.mutant("benign-label-length-check-in-helper-after-detection", _DEFAULT,
         _init_edit(check="        self._validate_label_length()\n", extra_method=_LL_HELPER), None)
R.mutant("benign-detection-in-helper-before-label-length-check", _DEFAULT,
         _init_edit(detect="        self._detect_max_identifier_length(connection)\n",
                    extra_method='    def _detect_max_identifier_length(self, connection) -> None:\n'
                                 '        if self._user_defined_max_identifier_length:\n            return\n'
                                 '        detected = self._check_max_identifier_length(connection)\n'
                                 '        if detected:\n            self.max_identifier_length = detected\n\n'), None)
R.mutant("benign-label-length-compared-with-limit-local-read-after-detection", _DEFAULT,
         _init_edit(check='        ident_limit = self.max_identifier_length\n        label_length = self.label_length\n'
                          '        if label_length and label_length > ident_limit:\n'
                          '            raise exc.ArgumentError("Label length %d exceeds %d" % (label_length, ident_limit))\n'), None)
R.mutant("benign-label-length-check-inverted-early-return", _DEFAULT,
         _init_edit(check='        if not self.label_length:\n            return\n'
                          '        if self.label_length <= self.max_identifier_length:\n            return\n'
                          '        raise exc.ArgumentError("Label length %d exceeds %d" % (self.label_length, self.max_identifier_length))\n'), None)
R.mutant("benign-label-length-checked-before-and-after-detection", _DEFAULT, _init_edit(head=_LL_CHECK + "\n"), None)

_IDX_LIMIT = ('        max_ = (\n            self.dialect.max_index_name_length\n            or self.dialect.max_identifier_length\n        )\n')
_CON_LIMIT = ('        max_ = (\n            self.dialect.max_constraint_name_length\n            or self.dialect.max_identifier_length\n        )\n')
_SINK_DEF = "    def _truncate_and_render_maxlen_name(\n"


def _limit_dedup(helper_body):
    return chain(sub(_IDX_LIMIT, "        max_ = self._effective_max_length(is_index=True)\n"),
                 sub(_CON_LIMIT, "        max_ = self._effective_max_length(is_index=False)\n"),
                 sub(_SINK_DEF, "    def _effective_max_length(self, is_index: bool) -> int:\n" + helper_body + "\n" + _SINK_DEF))


R.mutant("r6-seed4-dedup-helper-drops-constraint-limit", COMP,
         _limit_dedup("        dialect = self.dialect\n        if is_index and dialect.max_index_name_length:\n"
                      "            return dialect.max_index_name_length\n        return dialect.max_identifier_length\n"), ("C21-R6", "C21-R1"))
R.mutant("r6-constraint-names-against-identifier-limit", COMP,
         sub(_CON_LIMIT, "        max_ = self.dialect.max_identifier_length\n"), ("C21-R6", "C21-R1"))
R.mutant("r6-dedup-helper-sublimits-swapped", COMP,
         _limit_dedup("        dialect = self.dialect\n        if is_index:\n            sub_limit = dialect.max_constraint_name_length\n"
                      "        else:\n            sub_limit = dialect.max_index_name_length\n"
                      "        return sub_limit or dialect.max_identifier_length\n"), ("C21-R6", "C21-R1"))
R.mutant("r1-constraint-limit-identifier-length-wins", COMP,
         sub(_CON_LIMIT, "        max_ = (\n            self.dialect.max_identifier_length\n            or self.dialect.max_constraint_name_length\n        )\n"),
         ("C21-R6", "C21-R1"))
R.mutant("benign-limit-dedup-helper-keeps-both-sublimits", COMP,
         _limit_dedup("        dialect = self.dialect\n        if is_index:\n            sub_limit = dialect.max_index_name_length\n"
                      "        else:\n            sub_limit = dialect.max_constraint_name_length\n"
                      "        return sub_limit or dialect.max_identifier_length\n"), None)
R.mutant("benign-limit-dedup-helper-early-returns", COMP,
         _limit_dedup("        dialect = self.dialect\n        if is_index and dialect.max_index_name_length:\n"
                      "            return dialect.max_index_name_length\n"
                      "        if not is_index and dialect.max_constraint_name_length:\n"
                      "            return dialect.max_constraint_name_length\n        return dialect.max_identifier_length\n"), None)
R.mutant("benign-constraint-limit-through-locals-reassigned", COMP,
         sub(_CON_LIMIT, "        dialect = self.dialect\n        max_ = dialect.max_constraint_name_length\n"
                         "        if not max_:\n            max_ = dialect.max_identifier_length\n"), None)
R.mutant("benign-constraint-limit-conditional-expression-keyword-argument", COMP,
         sub(_CON_LIMIT + "        return self._truncate_and_render_maxlen_name(\n            name, max_, _alembic_quote\n        )\n",
             "        d = self.dialect\n        return self._truncate_and_render_maxlen_name(\n            name,\n"
             "            max_=d.max_identifier_length if d.max_constraint_name_length is None else d.max_constraint_name_length,\n"
             "            _alembic_quote=_alembic_quote,\n        )\n"), None)
