"""Helpers of sub-agent na-c (C15 / C40).

`Lite` -- a concrete interpreter for the Python subset used by the DDL writers and the catalog-text
readers of /repo.  It works on the *source text* (ast) through the static Index: nothing of /repo is
imported or executed by the analysing interpreter.  Classes of /repo are `ClassVal`s, their instances
`Inst`s (attribute dictionaries; methods resolved through the static MRO and interpreted), stdlib `re`
is the analysing interpreter's own module.  Whatever is outside the subset raises `Unsupported`
(the rule turns that into ANALYSIS-ERROR, never into a verdict).

The interpreter is used to *judge a function by running it on a model*: the verdict does not depend on
local names, statement order, helper extraction or the shape of conditionals.
"""

from __future__ import annotations

import ast
import collections
import re
from typing import Any, Callable, Dict, List, Optional, Tuple

from ..index import ClassInfo, FuncInfo, Module
from ..astutil import unparse


class Unsupported(Exception):
    pass


class UnknownName(Unsupported):
    pass


class MissingModelAttr(Unsupported):
    """a hand-made model object lacks an attribute the interpreted code reads: the model is incomplete"""


class ModelRaise(Exception):
    """the interpreted code raised (raise statement, failed container operation, ...)"""

    def __init__(self, cls_name: str, message: str = "", cls: Optional[ClassInfo] = None, value=None):
        super().__init__(f"{cls_name}: {message}")
        self.cls_name, self.message, self.cls, self.value = cls_name, message, cls, value


class _Return(Exception):
    def __init__(self, value):
        self.value = value


class _Break(Exception):
    pass


class _Continue(Exception):
    pass


# --------------------------------------------------------------------------------------------- values

class ClassVal:
    def __init__(self, cls: ClassInfo):
        self.cls = cls

    def __repr__(self):
        return f"<class {self.cls.qualname}>"

    def __eq__(self, o):
        return isinstance(o, ClassVal) and o.cls is self.cls

    def __hash__(self):
        return hash(("ClassVal", id(self.cls)))


class Inst:
    """model instance of a /repo class"""

    def __init__(self, cls: Optional[ClassInfo], attrs: Optional[dict] = None, args=(), kwargs=None, label=""):
        self.cls = cls
        self.attrs: Dict[str, Any] = dict(attrs or {})
        self.args, self.kwargs = tuple(args), dict(kwargs or {})
        self.stubs: Dict[str, Callable] = {}
        self.default_attr: Optional[Callable[[str], Any]] = None
        self.label = label
        # hand-made model object (always so for an object without a /repo class): a missing attribute is a hole
        # in the model (MissingModelAttr -> ANALYSIS-ERROR), never an AttributeError of the interpreted program
        self.model = cls is None

    def __repr__(self):
        return f"<{self.label or (self.cls.qualname if self.cls else 'object')}>"


class FuncVal:
    def __init__(self, node, module: Module, cls: Optional[ClassInfo], env: Optional["Env"], info: Optional[FuncInfo] = None):
        self.node, self.module, self.cls, self.env, self.info = node, module, cls, env, info

    @property
    def name(self):
        return getattr(self.node, "name", "<lambda>")

    def __repr__(self):
        return f"<function {self.name}>"


class Bound:
    def __init__(self, self_val, fn: FuncVal):
        self.self_val, self.fn = self_val, fn


class ModVal:
    def __init__(self, module: Module):
        self.module = module

    def __repr__(self):
        return f"<module {self.module.name}>"


class SuperVal:
    def __init__(self, inst, after: ClassInfo):
        self.inst, self.after = inst, after


class Opaque:
    """value of a computation the model does not look into (a SQL statement object built for the
    connection); it may be stored, passed on, called and dereferenced -- never inspected"""

    def __init__(self, origin: str):
        self.origin = origin

    def __repr__(self):
        return f"<opaque {self.origin}>"


class PyStub:
    """python callable offered to the interpreted code"""

    def __init__(self, fn, name=""):
        self.fn, self.name = fn, name


class Env:
    def __init__(self, parent: Optional["Env"] = None):
        self.vars: Dict[str, Any] = {}
        self.parent = parent
        self.nonlocals: set = set()

    def lookup(self, name):
        if name in self.vars:
            return True, self.vars[name]
        if self.parent is not None:
            return self.parent.lookup(name)
        return False, None

    def store(self, name, value):
        if name in self.nonlocals:
            e = self.parent
            while e is not None:
                if name in e.vars:
                    e.vars[name] = value
                    return
                e = e.parent
        self.vars[name] = value


_PROPERTY_DECOS = ("property", "memoized_property", "memoized_attribute", "ro_memoized_property",
                   "ro_non_memoized_property", "non_memoized_property", "hybridproperty",
                   "rw_hybridproperty", "cached_property")

_SAFE_RE = {"compile", "match", "search", "fullmatch", "finditer", "findall", "sub", "subn", "split", "escape"}
_RE_FLAGS = {"I", "IGNORECASE", "M", "MULTILINE", "S", "DOTALL", "X", "VERBOSE", "U", "UNICODE", "A", "ASCII"}

_PY_EXC = {
    "KeyError": KeyError, "IndexError": IndexError, "ValueError": ValueError, "TypeError": TypeError,
    "AttributeError": AttributeError, "StopIteration": StopIteration, "Exception": Exception,
    "LookupError": LookupError, "AssertionError": AssertionError, "NotImplementedError": NotImplementedError,
    "BaseException": BaseException, "RuntimeError": RuntimeError,
}

_PURE_TYPES = (str, bytes, int, float, bool, type(None), list, tuple, dict, set, frozenset, range,
               re.Pattern, re.Match, collections.defaultdict, collections.OrderedDict, collections.deque)


class Lite:
    def __init__(self, ix, budget: int = 400000, max_depth: int = 60):
        self.ix = ix
        self.budget = budget
        self.max_depth = max_depth
        self.depth = 0
        self.stack: List[str] = []
        self._mro: Dict[int, List[ClassInfo]] = {}
        self.func_stubs: Dict[str, Callable] = {}      # FuncInfo.key -> python callable(interp, args, kwargs)
        self.warnings: List[str] = []
        self._modcache: Dict[Tuple[str, str], Any] = {}
        self._clscache: Dict[Tuple[str, str], Any] = {}
        self.functions_run: set = set()
        self.construct: Callable[[ClassInfo, tuple, dict], Any] = self._construct_plain
        self.opaque_pred: Optional[Callable[[FuncInfo], bool]] = None
        self.install_default_stubs()

    # ------------------------------------------------------------------ configuration
    def install_default_stubs(self):
        def warn(interp, args, kwargs):
            interp.warnings.append(str(args[0]) if args else "")
            return None

        for k in ("util/langhelpers.py::warn", "util/langhelpers.py::warn_limited",
                  "util/deprecations.py::warn_deprecated", "util/deprecations.py::_warn_with_version",
                  "util/deprecations.py::warn_deprecated_limited"):
            self.func_stubs[k] = warn

    def _construct_plain(self, cls: ClassInfo, args, kwargs):
        return Inst(cls, {}, args, kwargs)

    def construct_by_init(self, cls: ClassInfo, args, kwargs):
        """run the class's own constructor; a constructor outside the subset yields a bare instance (the object
        is fresh, so nothing else has been touched)"""
        budget = self.budget
        try:
            return self.run_init(cls, args, kwargs)
        except Unsupported:
            self.budget = budget
            return Inst(cls, {}, args, kwargs)

    def _tick(self):
        self.budget -= 1
        if self.budget < 0:
            raise Unsupported("step budget exhausted")

    # ------------------------------------------------------------------ name resolution
    def wrap_resolved(self, r):
        if r is None:
            raise Unsupported("unresolved name")
        if isinstance(r, Module):
            return ModVal(r)
        if isinstance(r, ClassInfo):
            return ClassVal(r)
        if isinstance(r, FuncInfo):
            return FuncVal(r.node, r.module, r.cls, None, r)
        if isinstance(r, tuple) and r[0] == "value":
            return self.module_value(r[1], r[2])
        if isinstance(r, tuple) and r[0] == "classvalue":
            return self.class_value(r[1], r[2])
        raise Unsupported(f"resolved object {r!r}")

    def module_value(self, m: Module, name: str):
        k = (m.relpath, name)
        if k in self._modcache:
            v = self._modcache[k]
            if v is _PENDING:
                raise Unsupported(f"recursive module constant {name}")
            return v
        nodes = m.assigns.get(name)
        if not nodes:
            raise Unsupported(f"module constant {m.relpath}::{name}")
        self._modcache[k] = _PENDING
        try:
            stmts = m.assign_stmts.get(name) or []
            st = stmts[-1] if stmts else None
            if isinstance(st, ast.Assign) and len(st.targets) == 1 and isinstance(st.targets[0], ast.Name):
                v = self.ev(nodes[-1], self.module_env(m), _Frame(m, None, None))
            elif isinstance(st, ast.AnnAssign):
                v = self.ev(nodes[-1], self.module_env(m), _Frame(m, None, None))
            else:
                # tuple target / augmented: run the statement(s) in a scratch env
                env = Env(self.module_env(m))
                for s in stmts:
                    self.exec_stmt(s, env, _Frame(m, None, None))
                ok, v = env.lookup(name)
                if not ok:
                    raise Unsupported(f"module constant {name}")
        except BaseException:
            del self._modcache[k]
            raise
        self._modcache[k] = v
        return v

    def class_value(self, c: ClassInfo, name: str):
        k = (c.key, name)
        if k in self._clscache:
            v = self._clscache[k]
            if v is _PENDING:
                raise Unsupported(f"recursive class constant {name}")
            return v
        nodes = c.assigns.get(name)
        if not nodes:
            raise Unsupported(f"class constant {c.key}.{name}")
        self._clscache[k] = _PENDING
        try:
            v = self.ev(nodes[-1], _ClassEnv(self, c, exclude=(name,)), _Frame(c.module, c, None))
        except BaseException:
            del self._clscache[k]
            raise
        self._clscache[k] = v
        return v

    def module_env(self, m: Module) -> "Env":
        return _ModuleEnv(self, m)

    def global_name(self, m: Module, name: str):
        if name in m.classes or name in m.functions or name in m.assigns or name in m.imports:
            imp = m.imports.get(name)
            if imp is not None and name not in m.classes and name not in m.functions and (name not in m.assigns):
                if imp[0] == "module" and imp[1] in ("re",):
                    return re
                if imp[0] == "module" and imp[1] == "collections":
                    return collections
                if imp[0] == "symbol" and imp[1] == "collections" and imp[2] in ("defaultdict", "OrderedDict", "deque"):
                    return getattr(collections, imp[2])
                if imp[0] == "symbol" and imp[1] in ("typing", "typing_extensions") and imp[2] == "cast":
                    return PyStub(lambda t, v: v, "typing.cast")
                if imp[0] == "symbol" and imp[1] in ("typing", "typing_extensions"):
                    return PyStub(lambda *a, **k: None, "typing." + imp[2])
            if (imp is not None and name not in m.classes and name not in m.functions and name not in m.assigns):
                via = self._follow_import(m, imp, 0)
                if via is not None:
                    return via
            r = self.ix.resolve(m, name)
            if r is None:
                raise Unsupported(f"external name `{name}` in {m.relpath}")
            return self.wrap_resolved(r)
        r = self.ix.resolve(m, name)   # star imports
        if r is not None:
            return self.wrap_resolved(r)
        if name in _BUILTINS:
            return _BUILTINS[name]
        if name in _PY_EXC:
            return _PY_EXC[name]
        raise UnknownName(f"name `{name}` in {m.relpath}")

    def _follow_import(self, m: Module, imp, depth: int):
        """follow `from X import y [as z]` chains; `from . import x` written inside package code names the sibling
        module x even when the package's __init__ later re-exports an object called x"""
        if depth > 8 or imp[0] != "symbol":
            return None
        _, modname, sym = imp
        subm = self.ix.modules.get(modname + "." + sym)
        if subm is not None and modname == m.package:
            return ModVal(subm)
        src = self.ix.modules.get(modname)
        if src is None:
            return None
        if sym in src.classes or sym in src.functions or sym in src.assigns:
            return None          # plain definition: the index resolves it
        nxt = src.imports.get(sym)
        if nxt is not None:
            return self._follow_import(src, nxt, depth + 1)
        if subm is not None:
            return ModVal(subm)
        return None

    # ------------------------------------------------------------------ class helpers
    def mro(self, c: ClassInfo) -> List[ClassInfo]:
        """C3 linearisation from ClassInfo.bases with a cache of its own.  (Index.mro memoizes two classes --
        sql/sqltypes.py::String and ::_AbstractInterval -- while their bases are still unresolved, see
        notes/na-c.md; the interpreter therefore never uses the index's memo.)"""
        k = id(c)
        hit = self._mro.get(k)
        if hit is not None:
            return hit
        bases = [b for b in c.bases if b is not None]
        seqs = [list(self.mro(b)) for b in bases] + [list(bases)]
        out = [c]
        seqs = [s for s in seqs if s]
        while seqs:
            for s in seqs:
                cand = s[0]
                if not any(any(x is cand for x in t[1:]) for t in seqs):
                    break
            else:
                cand = seqs[0][0]
            out.append(cand)
            seqs = [[x for x in s if x is not cand] for s in seqs]
            seqs = [s for s in seqs if s]
        self._mro[k] = out
        return out

    def is_subclass(self, c: ClassInfo, base: ClassInfo) -> bool:
        return any(x is base for x in self.mro(c))

    def find_method(self, c: ClassInfo, name: str, after: Optional[ClassInfo] = None) -> Optional[FuncInfo]:
        seen_after = after is None
        for k in self.mro(c):
            if not seen_after:
                if k is after:
                    seen_after = True
                continue
            f = k.methods.get(name)
            if f is not None and not f.type_only:
                return f
            if f is not None and f.type_only:
                continue
        return None

    def find_class_assign(self, c: ClassInfo, name: str, after: Optional[ClassInfo] = None):
        seen_after = after is None
        for k in self.mro(c):
            if not seen_after:
                if k is after:
                    seen_after = True
                continue
            if name in k.assigns:
                return k
        return None

    @staticmethod
    def deco_names(f: FuncInfo) -> List[str]:
        return [d.split(".")[-1] for d in f.decorators]

    def is_property(self, f: FuncInfo) -> bool:
        return any(d in _PROPERTY_DECOS or d.endswith("property") for d in self.deco_names(f))

    # ------------------------------------------------------------------ attribute access
    def getattr(self, base, attr: str, node=None, frame=None):
        if isinstance(base, Inst):
            return self.inst_getattr(base, attr)
        if isinstance(base, Opaque):
            return Opaque(base.origin)
        if isinstance(base, SuperVal):
            inst = base.inst
            cls = inst.cls if isinstance(inst, Inst) else inst.cls
            f = self.find_method(cls, attr, after=base.after)
            if f is None:
                raise Unsupported(f"super().{attr}")
            fv = FuncVal(f.node, f.module, f.cls, None, f)
            if self.is_property(f):
                return self.call_function(fv, [inst], {})
            return Bound(inst, fv)
        if isinstance(base, ClassVal):
            return self.class_getattr(base.cls, attr)
        if isinstance(base, ModVal):
            m = base.module
            sub = self.ix.modules.get(m.name + "." + attr) if hasattr(self.ix, "modules") else None
            try:
                return self.global_name(m, attr)
            except Unsupported:
                if sub is not None:
                    return ModVal(sub)
                if m.name.endswith(".util.preloaded") or m.name.endswith(".util"):
                    pm = self.ix._preloaded(attr) if attr != "preloaded" else self.ix.modules.get("sqlalchemy.util.preloaded")
                    if pm is not None:
                        return ModVal(pm)
                raise
        if base is re:
            if attr in _SAFE_RE or attr in _RE_FLAGS:
                return getattr(re, attr)
            raise Unsupported(f"re.{attr}")
        if base is collections:
            if attr in ("defaultdict", "OrderedDict", "deque"):
                return getattr(collections, attr)
            raise Unsupported(f"collections.{attr}")
        if isinstance(base, _PURE_TYPES) and not isinstance(base, type):
            if attr.startswith("__") and attr not in ("__class__", "__name__"):
                raise Unsupported(f"dunder attribute {attr}")
            if attr == "__class__":
                return type(base)
            try:
                return getattr(base, attr)
            except AttributeError:
                raise ModelRaise("AttributeError", f"{type(base).__name__}.{attr}")
        if base in (str, dict, list, tuple, set, frozenset, int) and isinstance(base, type):
            if attr in ("join", "fromkeys", "lower", "upper", "strip", "maketrans", "__name__"):
                return getattr(base, attr)
        if isinstance(base, FuncVal):
            if attr == "__name__":
                return base.name
        raise Unsupported(f"attribute `{attr}` of {base!r}" + (f" in `{unparse(node)[:60]}`" if node is not None else ""))

    def inst_getattr(self, inst: Inst, attr: str):
        if attr in inst.stubs:
            return PyStub(inst.stubs[attr], attr)
        if attr in inst.attrs:
            return inst.attrs[attr]
        if attr == "__class__":
            return ClassVal(inst.cls)
        if inst.cls is not None:
            for k in self.mro(inst.cls):
                f = k.methods.get(attr)
                if f is not None and not f.type_only:
                    fv = FuncVal(f.node, f.module, f.cls, None, f)
                    decos = self.deco_names(f)
                    if self.is_property(f):
                        v = self.call_function(fv, [inst], {})
                        if any("memoized" in d for d in decos):
                            inst.attrs[attr] = v
                        return v
                    if "staticmethod" in decos:
                        return fv
                    if "classmethod" in decos:
                        return Bound(ClassVal(inst.cls), fv)
                    return Bound(inst, fv)
                if attr in k.assigns:
                    return self.class_value(k, attr)
                if attr in k.nested:
                    return ClassVal(k.nested[attr])
        if inst.default_attr is not None:
            return inst.default_attr(attr)
        if inst.model:
            raise MissingModelAttr(f"model object {inst!r} has no attribute `{attr}`")
        raise ModelRaise("AttributeError", f"{inst!r} has no attribute {attr}")

    def class_getattr(self, cls: ClassInfo, attr: str):
        if attr == "__name__":
            return cls.name
        if attr == "__mro__":
            return tuple(ClassVal(k) for k in self.mro(cls))
        if attr == "__bases__":
            return tuple(ClassVal(k) for k in cls.bases if k is not None)
        for k in self.mro(cls):
            f = k.methods.get(attr)
            if f is not None and not f.type_only:
                fv = FuncVal(f.node, f.module, f.cls, None, f)
                decos = self.deco_names(f)
                if "classmethod" in decos:
                    return Bound(ClassVal(cls), fv)
                return fv
            if attr in k.assigns:
                return self.class_value(k, attr)
            if attr in k.nested:
                return ClassVal(k.nested[attr])
        raise ModelRaise("AttributeError", f"class {cls.qualname} has no attribute {attr}")

    # ------------------------------------------------------------------ calls
    def call(self, fn, args: list, kwargs: dict, node=None):
        self._tick()
        if isinstance(fn, PyStub):
            return fn.fn(*args, **kwargs)
        if isinstance(fn, Opaque):
            return Opaque(fn.origin)
        if isinstance(fn, Bound):
            return self.call_function(fn.fn, [fn.self_val] + list(args), kwargs)
        if isinstance(fn, FuncVal):
            return self.call_function(fn, list(args), kwargs)
        if isinstance(fn, ClassVal):
            return self.instantiate(fn.cls, args, kwargs)
        if fn is _SUPER:
            raise Unsupported("super() with arguments")
        if fn in _CALLABLE_BUILTINS:
            return self.call_builtin(fn, args, kwargs, node)
        if isinstance(fn, type) and fn in _PY_EXC.values():
            return ModelRaise(fn.__name__, str(args[0]) if args else "")
        # bound methods of pure python values
        owner = getattr(fn, "__self__", None)
        if owner is not None and (isinstance(owner, _PURE_TYPES) or owner is re or owner in (str, dict)):
            return self.call_pure(fn, args, kwargs, node)
        if fn in (collections.defaultdict, collections.OrderedDict, collections.deque):
            if fn is collections.defaultdict and args and not isinstance(args[0], type) and args[0] is not None:
                factory = self.as_callable(args[0])
                return collections.defaultdict(factory, *args[1:], **kwargs)
            return fn(*args, **kwargs)
        if getattr(fn, "__module__", None) == "re" or fn in (re.compile, re.match, re.search, re.sub, re.split,
                                                             re.finditer, re.findall, re.escape, re.fullmatch):
            return self.call_pure(fn, args, kwargs, node)
        if isinstance(fn, type) and fn in (str.join,):
            return fn(*args)
        if callable(fn) and getattr(fn, "__objclass__", None) in (str, dict, list, tuple, set):
            return self.call_pure(fn, args, kwargs, node)
        raise Unsupported(f"call of {fn!r}" + (f" in `{unparse(node)[:60]}`" if node is not None else ""))

    def as_callable(self, fn):
        """python callable for an interpreted function value (sort keys, re.sub callbacks, defaultdict)"""
        if isinstance(fn, (FuncVal, Bound, ClassVal, PyStub)):
            return lambda *a, **k: self.call(fn, list(a), k)
        if fn in _CALLABLE_BUILTINS or isinstance(fn, type):
            return lambda *a, **k: self.call(fn, list(a), k)
        if callable(fn):
            return fn
        raise Unsupported(f"callable {fn!r}")

    def call_pure(self, fn, args, kwargs, node=None):
        args = list(args)
        name = getattr(fn, "__name__", "")
        # callbacks
        if name in ("sub", "subn"):
            owner = getattr(fn, "__self__", None)
            idx = 0 if isinstance(owner, re.Pattern) else 1
            if len(args) > idx and isinstance(args[idx], (FuncVal, Bound, PyStub)):
                args[idx] = self.as_callable(args[idx])
        if name == "sort" and "key" in kwargs and kwargs["key"] is not None:
            kwargs = dict(kwargs, key=self.as_callable(kwargs["key"]))
        for a in list(args) + list(kwargs.values()):
            if isinstance(a, (FuncVal, Bound)):
                raise Unsupported(f"interpreted callable passed to {name}()")
        try:
            return fn(*args, **kwargs)
        except (KeyError, IndexError, ValueError, TypeError, AttributeError, StopIteration) as e:
            raise ModelRaise(type(e).__name__, str(e))

    def instantiate(self, cls: ClassInfo, args, kwargs):
        if any(k.name in ("Exception", "BaseException") or k.qualname.endswith("Error") and k.module.relpath == "exc.py"
               for k in self.mro(cls)) or self._is_exception_class(cls):
            return ModelRaise(cls.name, str(args[0]) if args else "", cls=cls)
        return self.construct(cls, tuple(args), dict(kwargs))

    def _is_exception_class(self, cls: ClassInfo) -> bool:
        for k in self.mro(cls):
            for b in k.base_exprs:
                if b.split(".")[-1] in _PY_EXC:
                    return True
        return False

    def run_init(self, cls: ClassInfo, args, kwargs) -> Inst:
        """construct by interpreting the class's own __init__ chain"""
        inst = Inst(cls, {}, args, kwargs)
        f = self.find_method(cls, "__init__")
        if f is not None:
            self.call_function(FuncVal(f.node, f.module, f.cls, None, f), [inst] + list(args), dict(kwargs))
        return inst

    def bind(self, fv: FuncVal, args: list, kwargs: dict, env: Env, frame):
        a = fv.node.args
        pos = list(a.posonlyargs) + list(a.args)
        defaults = list(a.defaults)
        ndef = len(defaults)
        args = list(args)
        kwargs = dict(kwargs)
        for i, p in enumerate(pos):
            if i < len(args):
                env.vars[p.arg] = args[i]
            elif p.arg in kwargs:
                env.vars[p.arg] = kwargs.pop(p.arg)
            else:
                di = i - (len(pos) - ndef)
                if di >= 0:
                    env.vars[p.arg] = self.ev(defaults[di], fv.env or self.module_env(fv.module), frame)
                else:
                    raise ModelRaise("TypeError", f"{fv.name}() missing argument {p.arg}")
        extra = args[len(pos):]
        if a.vararg is not None:
            env.vars[a.vararg.arg] = tuple(extra)
        elif extra:
            raise ModelRaise("TypeError", f"{fv.name}() takes {len(pos)} positional arguments")
        for p, d in zip(a.kwonlyargs, a.kw_defaults):
            if p.arg in kwargs:
                env.vars[p.arg] = kwargs.pop(p.arg)
            elif d is not None:
                env.vars[p.arg] = self.ev(d, fv.env or self.module_env(fv.module), frame)
            else:
                raise ModelRaise("TypeError", f"{fv.name}() missing keyword argument {p.arg}")
        if a.kwarg is not None:
            env.vars[a.kwarg.arg] = kwargs
        elif kwargs:
            raise ModelRaise("TypeError", f"{fv.name}() got unexpected keyword argument(s) {sorted(kwargs)}")

    def call_function(self, fv: FuncVal, args: list, kwargs: dict):
        self._tick()
        if fv.info is not None:
            stub = self.func_stubs.get(fv.info.key)
            if stub is not None:
                return stub(self, args, kwargs)
            if self.opaque_pred is not None and self.opaque_pred(fv.info):
                return Opaque(fv.info.key)
            self.functions_run.add(fv.info.key)
        self.depth += 1
        if self.depth > self.max_depth:
            self.depth -= 1
            raise Unsupported("call depth exceeded")
        self.stack.append(fv.info.qualname if fv.info is not None else fv.name)
        try:
            return self._call_function(fv, args, kwargs)
        except Unsupported as e:
            if not getattr(e, "_located", False):
                e._located = True
                e.args = (f"{e.args[0] if e.args else ''} [while interpreting {' > '.join(self.stack[-4:])}]",)
            raise
        except ModelRaise as e:
            if not hasattr(e, "where"):
                e.where = " > ".join(self.stack[-5:])
            raise
        finally:
            self.stack.pop()
            self.depth -= 1

    def _call_function(self, fv: FuncVal, args: list, kwargs: dict):
        if True:
            env = Env(fv.env or self.module_env(fv.module))
            frame = _Frame(fv.module, fv.cls, fv)
            self.bind(fv, args, kwargs, env, frame)
            if isinstance(fv.node, ast.Lambda):
                return self.ev(fv.node.body, env, frame)
            is_gen = _is_generator(fv.node)
            if is_gen:
                frame.yielded = []
            try:
                self.exec_block(fv.node.body, env, frame)
            except _Return as r:
                if is_gen:
                    return frame.yielded
                return r.value
            return frame.yielded if is_gen else None

    def call_builtin(self, fn, args, kwargs, node=None):
        if fn is isinstance:
            return self.isinstance(args[0], args[1])
        if fn is issubclass:
            return self.issubclass(args[0], args[1])
        if fn is getattr:
            try:
                return self.getattr(args[0], args[1])
            except MissingModelAttr:
                if len(args) > 2:
                    return args[2]
                raise
            except ModelRaise as e:
                if e.cls_name == "AttributeError" and len(args) > 2:
                    return args[2]
                raise
        if fn is hasattr:
            try:
                self.getattr(args[0], args[1])
                return True
            except MissingModelAttr:
                return False
            except ModelRaise as e:
                if e.cls_name == "AttributeError":
                    return False
                raise
        if fn is setattr:
            self.setattr(args[0], args[1], args[2])
            return None
        if fn in (sorted, min, max) and kwargs.get("key") is not None:
            kwargs = dict(kwargs, key=self.as_callable(kwargs["key"]))
        if fn is map:
            f = self.as_callable(args[0])
            return [f(*xs) for xs in zip(*[self.iterate(a) for a in args[1:]])]
        if fn is filter:
            f = self.as_callable(args[0]) if args[0] is not None else bool
            return [x for x in self.iterate(args[1]) if self.truth(f(x))]
        if fn is type:
            if len(args) == 1:
                v = args[0]
                if isinstance(v, Inst):
                    return ClassVal(v.cls)
                return type(v)
            raise Unsupported("type() with 3 arguments")
        if fn is str and args and isinstance(args[0], (Inst, ClassVal, FuncVal)):
            raise Unsupported(f"str() of model object {args[0]!r}")
        if fn is repr and args and isinstance(args[0], (Inst, ClassVal, FuncVal)):
            return repr(args[0])
        if fn is len and args and isinstance(args[0], Inst) and args[0].cls is not None:
            f = self.find_method(args[0].cls, "__len__")
            if f is None:
                raise ModelRaise("TypeError", f"{args[0]!r} has no len()")
            return self.call_function(FuncVal(f.node, f.module, f.cls, None, f), [args[0]], {})
        if fn in (list, tuple, set, frozenset, sorted, enumerate, zip, any, all, sum, min, max, reversed, dict, iter, len, next):
            args = [self.iterate(a) if isinstance(a, _GEN_TYPES) or (isinstance(a, Inst) and fn is not next) else a
                    for a in args]
            if fn in (any, all):
                return fn(self.truth(x) for x in args[0])
            if fn in (enumerate, zip, reversed):
                return list(fn(*args, **kwargs))
            if fn is iter:
                return iter(list(args[0]))
            if fn is next:
                try:
                    return next(*args)
                except StopIteration:
                    raise ModelRaise("StopIteration", "")
        try:
            return fn(*args, **kwargs)
        except (KeyError, IndexError, ValueError, TypeError, StopIteration) as e:
            raise ModelRaise(type(e).__name__, str(e))

    def isinstance(self, v, spec) -> bool:
        if isinstance(spec, tuple):
            return any(self.isinstance(v, s) for s in spec)
        if isinstance(spec, ClassVal):
            if isinstance(v, Inst) and v.cls is not None:
                return self.is_subclass(v.cls, spec.cls)
            if isinstance(v, ModelRaise) and v.cls is not None:
                return self.is_subclass(v.cls, spec.cls)
            return False
        if isinstance(spec, type):
            if isinstance(v, (Inst, ClassVal, FuncVal, Bound, ModVal)):
                return False
            return isinstance(v, spec)
        raise Unsupported(f"isinstance(.., {spec!r})")

    def issubclass(self, c, spec) -> bool:
        if isinstance(spec, tuple):
            return any(self.issubclass(c, s) for s in spec)
        if isinstance(c, ClassVal) and isinstance(spec, ClassVal):
            return self.is_subclass(c.cls, spec.cls)
        if isinstance(c, type) and isinstance(spec, type):
            return issubclass(c, spec)
        if isinstance(c, (ClassVal, type)) and isinstance(spec, (ClassVal, type)):
            return False
        raise Unsupported(f"issubclass({c!r}, {spec!r})")

    def setattr(self, base, attr, value):
        if isinstance(base, Inst):
            base.attrs[attr] = value
            return
        raise Unsupported(f"attribute store on {base!r}")

    def truth(self, v) -> bool:
        if isinstance(v, (Inst, ClassVal, FuncVal, Bound, ModVal, PyStub)):
            if isinstance(v, Inst) and v.cls is not None:
                f = self.find_method(v.cls, "__bool__") or self.find_method(v.cls, "__len__")
                if f is not None:
                    r = self.call_function(FuncVal(f.node, f.module, f.cls, None, f), [v], {})
                    return bool(r)
            return True
        if isinstance(v, _PURE_TYPES) or isinstance(v, type) or callable(v):
            return bool(v)
        if isinstance(v, ModelRaise):
            return True
        raise Unsupported(f"truth value of {v!r}")

    def iterate(self, v, node=None) -> list:
        if isinstance(v, (list, tuple, set, frozenset, range, str, dict, collections.deque)):
            return list(v)
        if isinstance(v, _GEN_TYPES):
            return list(v)
        if isinstance(v, Inst) and "__iter__" in v.stubs:
            return list(v.stubs["__iter__"]())
        if isinstance(v, Inst) and v.cls is not None:
            f = self.find_method(v.cls, "__iter__")
            if f is not None:
                return self.iterate(self.call_function(FuncVal(f.node, f.module, f.cls, None, f), [v], {}))
        raise Unsupported(f"iteration over {v!r}" + (f" in `{unparse(node)[:50]}`" if node is not None else ""))

    # ------------------------------------------------------------------ expressions
    def ev(self, e, env: Env, frame):
        self._tick()
        t = type(e)
        if t is ast.Constant:
            return e.value
        if t is ast.Name:
            if e.id == "super":
                return _SUPER
            ok, v = env.lookup(e.id)
            if ok:
                return v
            raise Unsupported(f"name `{e.id}`")
        if t is ast.Attribute:
            base = self.ev(e.value, env, frame)
            return self.getattr(base, e.attr, e, frame)
        if t is ast.Call:
            return self.ev_call(e, env, frame)
        if t is ast.JoinedStr:
            out = []
            for v in e.values:
                if isinstance(v, ast.Constant):
                    out.append(str(v.value))
                else:
                    val = self.ev(v.value, env, frame)
                    val = self.to_str(val, v.conversion)
                    if v.format_spec is not None:
                        spec = self.ev(v.format_spec, env, frame)
                        val = format(val, spec)
                    out.append(val)
            return "".join(out)
        if t is ast.BoolOp:
            v = None
            for x in e.values:
                v = self.ev(x, env, frame)
                tr = self.truth(v)
                if isinstance(e.op, ast.And) and not tr:
                    return v
                if isinstance(e.op, ast.Or) and tr:
                    return v
            return v
        if t is ast.UnaryOp:
            v = self.ev(e.operand, env, frame)
            if isinstance(e.op, ast.Not):
                return not self.truth(v)
            if isinstance(v, (int, float)):
                if isinstance(e.op, ast.USub):
                    return -v
                if isinstance(e.op, ast.UAdd):
                    return +v
                if isinstance(e.op, ast.Invert) and isinstance(v, int):
                    return ~v
            raise Unsupported(f"unary `{unparse(e)[:40]}`")
        if t is ast.IfExp:
            return self.ev(e.body if self.truth(self.ev(e.test, env, frame)) else e.orelse, env, frame)
        if t is ast.Compare:
            left = self.ev(e.left, env, frame)
            for op, rn in zip(e.ops, e.comparators):
                right = self.ev(rn, env, frame)
                if not self.compare(op, left, right, e):
                    return False
                left = right
            return True
        if t is ast.BinOp:
            return self.binop(e.op, self.ev(e.left, env, frame), self.ev(e.right, env, frame), e)
        if t is ast.Subscript:
            box = self.ev(e.value, env, frame)
            idx = self.ev_index(e.slice, env, frame)
            return self.getitem(box, idx, e)
        if t in (ast.Tuple, ast.List, ast.Set):
            vals = []
            for x in e.elts:
                if isinstance(x, ast.Starred):
                    vals.extend(self.iterate(self.ev(x.value, env, frame), x))
                else:
                    vals.append(self.ev(x, env, frame))
            return tuple(vals) if t is ast.Tuple else (set(vals) if t is ast.Set else vals)
        if t is ast.Dict:
            out = {}
            for k, v in zip(e.keys, e.values):
                if k is None:
                    d = self.ev(v, env, frame)
                    if not isinstance(d, dict):
                        raise Unsupported("`**` of a non-dict")
                    out.update(d)
                else:
                    out[self.ev(k, env, frame)] = self.ev(v, env, frame)
            return out
        if t in (ast.ListComp, ast.SetComp, ast.GeneratorExp, ast.DictComp):
            return self.comp(e, env, frame)
        if t is ast.Lambda:
            return FuncVal(e, frame.module, frame.cls, env)
        if t is ast.NamedExpr:
            v = self.ev(e.value, env, frame)
            env.store(e.target.id, v)
            return v
        if t is ast.Slice:
            return self.ev_index(e, env, frame)
        if t is ast.Yield:
            v = self.ev(e.value, env, frame) if e.value is not None else None
            frame.yielded.append(v)
            return None
        if t is ast.YieldFrom:
            frame.yielded.extend(self.iterate(self.ev(e.value, env, frame)))
            return None
        if t is ast.Starred:
            raise Unsupported("starred expression")
        raise Unsupported(f"expression `{unparse(e)[:60]}`")

    def to_str(self, v, conversion=-1):
        if isinstance(v, (Inst, ClassVal, FuncVal, Bound, ModVal)):
            if isinstance(v, Inst) and v.cls is not None:
                f = self.find_method(v.cls, "__str__")
                if f is not None and f.cls is not None and f.cls.name != "object":
                    return self.call_function(FuncVal(f.node, f.module, f.cls, None, f), [v], {})
            raise Unsupported(f"string conversion of model object {v!r}")
        if conversion == 114:
            return repr(v)
        return str(v)

    def ev_index(self, s, env, frame):
        if isinstance(s, ast.Slice):
            def b(x):
                return None if x is None else self.ev(x, env, frame)
            return slice(b(s.lower), b(s.upper), b(s.step))
        return self.ev(s, env, frame)

    def getitem(self, box, k, node=None):
        if isinstance(box, (list, tuple, str, range, dict, re.Match, collections.deque, bytes)):
            try:
                return box[k]
            except (KeyError, IndexError, TypeError) as ex:
                raise ModelRaise(type(ex).__name__, str(ex))
        if isinstance(box, Inst) and "__getitem__" in box.stubs:
            return box.stubs["__getitem__"](k)
        if isinstance(box, Inst) and box.cls is not None:
            f = self.find_method(box.cls, "__getitem__")
            if f is not None:
                return self.call_function(FuncVal(f.node, f.module, f.cls, None, f), [box, k], {})
        if isinstance(box, (PyStub,)) or box in (list, dict, tuple, set):
            return box  # typing subscripts: list[str]
        raise Unsupported(f"subscript of {box!r}" + (f" in `{unparse(node)[:50]}`" if node is not None else ""))

    def compare(self, op, a, b, node=None) -> bool:
        if isinstance(op, ast.Is):
            return self.same(a, b)
        if isinstance(op, ast.IsNot):
            return not self.same(a, b)
        if isinstance(op, (ast.In, ast.NotIn)):
            if isinstance(b, (dict, set, frozenset, list, tuple, str, range, collections.deque)) or isinstance(b, _GEN_TYPES):
                try:
                    r = a in b
                except TypeError as ex:
                    raise ModelRaise("TypeError", str(ex))
            elif isinstance(b, Inst) and b.cls is not None and self.find_method(b.cls, "__contains__"):
                f = self.find_method(b.cls, "__contains__")
                r = self.truth(self.call_function(FuncVal(f.node, f.module, f.cls, None, f), [b, a], {}))
            else:
                raise Unsupported(f"membership in {b!r}")
            return r == isinstance(op, ast.In)
        if isinstance(op, ast.Eq):
            return self.equal(a, b)
        if isinstance(op, ast.NotEq):
            return not self.equal(a, b)
        if isinstance(a, (Inst, ClassVal)) or isinstance(b, (Inst, ClassVal)):
            raise Unsupported(f"ordering comparison of model objects `{unparse(node)[:50]}`")
        try:
            if isinstance(op, ast.Lt):
                return a < b
            if isinstance(op, ast.LtE):
                return a <= b
            if isinstance(op, ast.Gt):
                return a > b
            if isinstance(op, ast.GtE):
                return a >= b
        except TypeError as ex:
            raise ModelRaise("TypeError", str(ex))
        raise Unsupported("comparison")

    def same(self, a, b) -> bool:
        if isinstance(a, ClassVal) and isinstance(b, ClassVal):
            return a.cls is b.cls
        if isinstance(a, (int, str, bool, float)) and isinstance(b, (int, str, bool, float)):
            return type(a) is type(b) and a == b
        return a is b

    def equal(self, a, b) -> bool:
        if isinstance(a, Inst) or isinstance(b, Inst):
            if isinstance(a, Inst) and a.cls is not None and self.find_method(a.cls, "__eq__"):
                f = self.find_method(a.cls, "__eq__")
                return self.truth(self.call_function(FuncVal(f.node, f.module, f.cls, None, f), [a, b], {}))
            return a is b
        return a == b

    def binop(self, op, a, b, node=None):
        if isinstance(a, (Inst, ClassVal, FuncVal, ModVal)) or isinstance(b, (Inst, ClassVal, FuncVal, ModVal)):
            if isinstance(op, ast.Mod) and isinstance(a, str):
                # "%s" % model object
                b2 = b if isinstance(b, tuple) else (b,)
                b2 = tuple(self.to_str(x) if isinstance(x, (Inst, ClassVal, FuncVal, ModVal)) else x for x in b2)
                return a % b2
            raise Unsupported(f"operator on model object in `{unparse(node)[:50]}`")
        if isinstance(op, ast.Mod) and isinstance(a, str) and isinstance(b, tuple):
            b = tuple(self.to_str(x) if isinstance(x, (Inst, ClassVal, FuncVal, ModVal)) else x for x in b)
        try:
            if isinstance(op, ast.Add):
                return a + b
            if isinstance(op, ast.Sub):
                return a - b
            if isinstance(op, ast.Mult):
                return a * b
            if isinstance(op, ast.Mod):
                return a % b
            if isinstance(op, ast.FloorDiv):
                return a // b
            if isinstance(op, ast.Div):
                return a / b
            if isinstance(op, ast.BitOr):
                return a | b
            if isinstance(op, ast.BitAnd):
                return a & b
            if isinstance(op, ast.BitXor):
                return a ^ b
            if isinstance(op, ast.LShift):
                return a << b
            if isinstance(op, ast.RShift):
                return a >> b
            if isinstance(op, ast.Pow):
                return a ** b
        except (TypeError, ValueError, KeyError, ZeroDivisionError) as ex:
            raise ModelRaise(type(ex).__name__, str(ex))
        raise Unsupported(f"operator `{unparse(node)[:40]}`")

    def comp(self, e, env, frame):
        out: Any = {} if isinstance(e, ast.DictComp) else []
        cenv = Env(env)

        def rec(i):
            if i == len(e.generators):
                if isinstance(e, ast.DictComp):
                    out[self.ev(e.key, cenv, frame)] = self.ev(e.value, cenv, frame)
                else:
                    out.append(self.ev(e.elt, cenv, frame))
                return
            g = e.generators[i]
            for item in self.iterate(self.ev(g.iter, cenv, frame), g.iter):
                self._tick()
                self.assign(g.target, item, cenv, frame)
                if all(self.truth(self.ev(c, cenv, frame)) for c in g.ifs):
                    rec(i + 1)

        rec(0)
        if isinstance(e, ast.SetComp):
            return set(out)
        return out

    def ev_call(self, e: ast.Call, env, frame):
        # super()
        if isinstance(e.func, ast.Name) and e.func.id == "super" and not env.lookup("super")[0]:
            if not e.args:
                fn = frame.func
                # walk out of nested functions / comprehensions to the method
                selfv = None
                fr_env = env
                if fn is not None and fn.node.args.args:
                    ok, selfv = fr_env.lookup(fn.node.args.args[0].arg)
                if selfv is None or frame.cls is None:
                    raise Unsupported("super() outside a method")
                return SuperVal(selfv, frame.cls)
            raise Unsupported("super() with arguments")
        fn = self.ev(e.func, env, frame)
        args = []
        for a in e.args:
            if isinstance(a, ast.Starred):
                args.extend(self.iterate(self.ev(a.value, env, frame), a))
            else:
                args.append(self.ev(a, env, frame))
        kwargs = {}
        for k in e.keywords:
            if k.arg is None:
                d = self.ev(k.value, env, frame)
                if not isinstance(d, dict):
                    raise Unsupported("`**` of a non-dict in a call")
                kwargs.update(d)
            else:
                kwargs[k.arg] = self.ev(k.value, env, frame)
        if isinstance(fn, SuperVal):
            raise Unsupported("call of super object")
        return self.call(fn, args, kwargs, e)

    # ------------------------------------------------------------------ statements
    def exec_block(self, body, env, frame):
        for st in body:
            self.exec_stmt(st, env, frame)

    def assign(self, target, value, env, frame):
        if isinstance(target, ast.Name):
            env.store(target.id, value)
        elif isinstance(target, (ast.Tuple, ast.List)):
            vals = self.iterate(value, target) if not isinstance(value, (list, tuple)) else list(value)
            star = [i for i, t in enumerate(target.elts) if isinstance(t, ast.Starred)]
            if star:
                i = star[0]
                after = len(target.elts) - i - 1
                if len(vals) < len(target.elts) - 1:
                    raise ModelRaise("ValueError", "not enough values to unpack")
                for t, v in zip(target.elts[:i], vals[:i]):
                    self.assign(t, v, env, frame)
                self.assign(target.elts[i].value, list(vals[i:len(vals) - after]), env, frame)
                for t, v in zip(target.elts[i + 1:], vals[len(vals) - after:]):
                    self.assign(t, v, env, frame)
            else:
                if len(vals) != len(target.elts):
                    raise ModelRaise("ValueError", f"unpack {len(vals)} values into {len(target.elts)} targets")
                for t, v in zip(target.elts, vals):
                    self.assign(t, v, env, frame)
        elif isinstance(target, ast.Attribute):
            self.setattr(self.ev(target.value, env, frame), target.attr, value)
        elif isinstance(target, ast.Subscript):
            box = self.ev(target.value, env, frame)
            k = self.ev_index(target.slice, env, frame)
            if isinstance(box, (list, dict, collections.deque)):
                try:
                    box[k] = value
                except (IndexError, TypeError, KeyError) as ex:
                    raise ModelRaise(type(ex).__name__, str(ex))
            elif isinstance(box, Inst) and box.cls is not None and self.find_method(box.cls, "__setitem__"):
                f = self.find_method(box.cls, "__setitem__")
                self.call_function(FuncVal(f.node, f.module, f.cls, None, f), [box, k, value], {})
            else:
                raise Unsupported(f"item store on {box!r}")
        else:
            raise Unsupported(f"assignment target `{unparse(target)[:40]}`")

    def exec_stmt(self, st, env, frame):
        self._tick()
        t = type(st)
        if t is ast.Expr:
            if isinstance(st.value, ast.Constant):
                return
            self.ev(st.value, env, frame)
        elif t is ast.Assign:
            v = self.ev(st.value, env, frame)
            for tg in st.targets:
                self.assign(tg, v, env, frame)
        elif t is ast.AnnAssign:
            if st.value is not None:
                self.assign(st.target, self.ev(st.value, env, frame), env, frame)
        elif t is ast.AugAssign:
            if isinstance(st.target, ast.Name):
                cur = self.ev(ast.Name(id=st.target.id, ctx=ast.Load()), env, frame)
            elif isinstance(st.target, ast.Attribute):
                cur = self.getattr(self.ev(st.target.value, env, frame), st.target.attr, st.target, frame)
            elif isinstance(st.target, ast.Subscript):
                cur = self.getitem(self.ev(st.target.value, env, frame), self.ev_index(st.target.slice, env, frame), st.target)
            else:
                raise Unsupported("augmented assignment target")
            new = self.binop(st.op, cur, self.ev(st.value, env, frame), st)
            if isinstance(cur, list) and isinstance(st.op, ast.Add):
                cur.extend(new[len(cur):])
                new = cur
            self.assign(st.target, new, env, frame)
        elif t is ast.Return:
            raise _Return(self.ev(st.value, env, frame) if st.value is not None else None)
        elif t is ast.If:
            if self.truth(self.ev(st.test, env, frame)):
                self.exec_block(st.body, env, frame)
            else:
                self.exec_block(st.orelse, env, frame)
        elif t is ast.For:
            broke = False
            for item in self.iterate(self.ev(st.iter, env, frame), st.iter):
                self._tick()
                self.assign(st.target, item, env, frame)
                try:
                    self.exec_block(st.body, env, frame)
                except _Break:
                    broke = True
                    break
                except _Continue:
                    continue
            if not broke:
                self.exec_block(st.orelse, env, frame)
        elif t is ast.While:
            broke = False
            while self.truth(self.ev(st.test, env, frame)):
                self._tick()
                try:
                    self.exec_block(st.body, env, frame)
                except _Break:
                    broke = True
                    break
                except _Continue:
                    continue
            if not broke:
                self.exec_block(st.orelse, env, frame)
        elif t is ast.Break:
            raise _Break()
        elif t is ast.Continue:
            raise _Continue()
        elif t is ast.Pass:
            return
        elif t in (ast.FunctionDef,):
            env.store(st.name, FuncVal(st, frame.module, frame.cls, env))
        elif t is ast.Raise:
            if st.exc is None:
                if frame.current_exc is not None:
                    raise frame.current_exc
                raise Unsupported("bare raise outside handler")
            v = self.ev(st.exc, env, frame)
            if isinstance(v, ModelRaise):
                raise v
            if isinstance(v, ClassVal):
                raise ModelRaise(v.cls.name, "", cls=v.cls)
            if isinstance(v, type) and issubclass(v, BaseException):
                raise ModelRaise(v.__name__, "")
            raise Unsupported(f"raise of {v!r}")
        elif t is ast.Try:
            self.exec_try(st, env, frame)
        elif t is ast.Assert:
            if not self.truth(self.ev(st.test, env, frame)):
                msg = self.ev(st.msg, env, frame) if st.msg is not None else ""
                raise ModelRaise("AssertionError", str(msg))
        elif t is ast.Delete:
            for tg in st.targets:
                if isinstance(tg, ast.Subscript):
                    box = self.ev(tg.value, env, frame)
                    k = self.ev_index(tg.slice, env, frame)
                    try:
                        del box[k]
                    except (KeyError, IndexError, TypeError) as ex:
                        raise ModelRaise(type(ex).__name__, str(ex))
                elif isinstance(tg, ast.Name):
                    env.vars.pop(tg.id, None)
                elif isinstance(tg, ast.Attribute):
                    b = self.ev(tg.value, env, frame)
                    if isinstance(b, Inst):
                        b.attrs.pop(tg.attr, None)
                    else:
                        raise Unsupported("del attribute")
                else:
                    raise Unsupported("del target")
        elif t is ast.Nonlocal:
            env.nonlocals.update(st.names)
        elif t is ast.Global:
            raise Unsupported("global statement")
        elif t is ast.With:
            raise Unsupported("with statement")
        elif t in (ast.Import, ast.ImportFrom):
            raise Unsupported("local import")
        else:
            raise Unsupported(f"statement {t.__name__}")

    def exc_matches(self, ex: ModelRaise, spec) -> bool:
        if isinstance(spec, tuple):
            return any(self.exc_matches(ex, s) for s in spec)
        if isinstance(spec, type) and issubclass(spec, BaseException):
            py = _PY_EXC.get(ex.cls_name)
            if py is not None:
                return issubclass(py, spec)
            if ex.cls is not None:
                # repo exception classes derive from Exception
                if spec in (Exception, BaseException):
                    return True
                for k in self.mro(ex.cls):
                    for b in k.base_exprs:
                        pyb = _PY_EXC.get(b.split(".")[-1])
                        if pyb is not None and issubclass(pyb, spec):
                            return True
                return False
            return spec in (Exception, BaseException)
        if isinstance(spec, ClassVal):
            return ex.cls is not None and self.is_subclass(ex.cls, spec.cls)
        raise Unsupported(f"except clause {spec!r}")

    def exec_try(self, st: ast.Try, env, frame):
        try:
            try:
                self.exec_block(st.body, env, frame)
            except ModelRaise as ex:
                for h in st.handlers:
                    if h.type is None or self.exc_matches(ex, self.ev(h.type, env, frame)):
                        if h.name:
                            env.store(h.name, ex)
                        saved = frame.current_exc
                        frame.current_exc = ex
                        try:
                            self.exec_block(h.body, env, frame)
                        finally:
                            frame.current_exc = saved
                        break
                else:
                    raise
            else:
                self.exec_block(st.orelse, env, frame)
        finally:
            if st.finalbody:
                self.exec_block(st.finalbody, env, frame)

    # ------------------------------------------------------------------ entry points
    def call_method(self, inst: Inst, name: str, *args, **kwargs):
        fn = self.inst_getattr(inst, name)
        return self.call(fn, list(args), kwargs)

    def funcval(self, f: FuncInfo) -> FuncVal:
        return FuncVal(f.node, f.module, f.cls, None, f)


class _Frame:
    def __init__(self, module, cls, func):
        self.module, self.cls, self.func = module, cls, func
        self.yielded: List[Any] = []
        self.current_exc = None


class _ModuleEnv(Env):
    """global scope of a module: names resolved lazily through the index"""

    def __init__(self, interp: Lite, m: Module):
        super().__init__(None)
        self.interp, self.m = interp, m

    def lookup(self, name):
        if name in self.vars:
            return True, self.vars[name]
        try:
            v = self.interp.global_name(self.m, name)
        except UnknownName:
            if name in _BUILTINS:
                return True, _BUILTINS[name]
            return False, None
        return True, v


class _ClassEnv(Env):
    """scope of a class body while one of its constants is evaluated"""

    def __init__(self, interp: Lite, c: ClassInfo, exclude=()):
        super().__init__(interp.module_env(c.module))
        self.interp, self.c, self.exclude = interp, c, set(exclude)

    def lookup(self, name):
        if name in self.c.assigns and name not in self.exclude:
            return True, self.interp.class_value(self.c, name)
        if name in self.c.methods:
            f = self.c.methods[name]
            return True, FuncVal(f.node, f.module, f.cls, None, f)
        return self.parent.lookup(name)


def _is_generator(fnode) -> bool:
    hit = getattr(fnode, "_nac_is_generator", None)      # memo lives on the AST node (nodes are replaced by overlays)
    if hit is None:
        hit = fnode._nac_is_generator = _is_generator_uncached(fnode)
    return hit


def _is_generator_uncached(fnode) -> bool:
    if isinstance(fnode, ast.Lambda):
        return False
    stack = list(fnode.body)
    while stack:
        n = stack.pop()
        if isinstance(n, (ast.Yield, ast.YieldFrom)):
            return True
        if isinstance(n, (ast.FunctionDef, ast.AsyncFunctionDef, ast.Lambda, ast.ClassDef)):
            continue
        stack.extend(ast.iter_child_nodes(n))
    return False


_PENDING = object()
_SUPER = object()
_GEN_TYPES = (type(iter([])), type(iter(())), type({}.keys()), type({}.values()), type({}.items()), zip, enumerate,
              reversed, map, filter, type(iter("")), type(iter({})), type(iter(set())), type(re.finditer("a", "a")),
              type(x for x in ()))

_CALLABLE_BUILTINS = (len, list, tuple, dict, set, frozenset, str, int, float, bool, isinstance, issubclass, zip,
                      enumerate, range, sorted, map, filter, any, all, min, max, getattr, hasattr, setattr, repr, iter,
                      next, sum, abs, reversed, type, ord, chr, divmod, round, format, id, callable, bytes)
_BUILTINS: Dict[str, Any] = {f.__name__: f for f in _CALLABLE_BUILTINS}
_BUILTINS.update({"None": None, "True": True, "False": False, "object": object, "NotImplemented": NotImplemented})
_BUILTINS.update(_PY_EXC)


# --------------------------------------------------------------------------------------------- regex helpers

def regex_alternatives(pattern: str, flags: int = 0) -> List[str]:
    """literal words accepted by a pattern of the form ^(?:A|B C|...)$ -- enumerated through the regex AST
    (bounded: optional parts and character classes are not expanded; returns [] when the pattern is not a
    finite union of literals)"""
    import re._parser as sre  # type: ignore

    try:
        tree = sre.parse(pattern, flags)
    except Exception:
        return []

    def words(seq) -> Optional[List[str]]:
        outs = [""]
        for op, av in seq:
            name = str(op)
            if name == "LITERAL":
                outs = [o + chr(av) for o in outs]
            elif name == "AT":
                continue
            elif name == "SUBPATTERN":
                sub = words(av[3])
                if sub is None:
                    return None
                outs = [o + s for o in outs for s in sub]
            elif name == "BRANCH":
                alts: List[str] = []
                for b in av[1]:
                    w = words(b)
                    if w is None:
                        return None
                    alts.extend(w)
                outs = [o + s for o in outs for s in alts]
            elif name == "MAX_REPEAT" and av[0] == 0 and av[1] == 1:
                w = words(av[2])
                if w is None:
                    return None
                outs = [o + s for o in outs for s in [""] + w]
            else:
                return None
            if len(outs) > 256:
                return None
        return outs

    w = words(tree)
    return sorted(set(w)) if w else []
