"""C46 -- Expired and refreshed attributes reflect the database.

Decides structural clauses of the expire / unexpire / refresh machinery (what expire removes, what the unexpire
load is allowed to overwrite, what a refresh commits, documented errors); does not decide the behaviour (values
relative to the database under external writes).
"""

from __future__ import annotations

import ast
from typing import Dict, List, Optional, Set, Tuple

from ..astutil import calls_in, dotted, name_stores, names_in, test_atoms, unparse, walk_local, walk_stmts
from ..cfg import no_exc
from ..report import Registry, chain, sub
from ._helpers_rules_d import call_nodes, callee_is, guard_atom_set, kw
from ._helpers_rob_i import nf

R = Registry(
    "C46",
    title="Expired and refreshed attributes reflect the database",
    decides=(
        "clauses of C46, not the behaviour: (R1) InstanceState._expire removes every mapped key from the instance "
        "dict, marks all loader-backed attributes expired and sets the expired flag, unconditionally; "
        "_expire_attributes removes each named key from the dict on every iteration and registers scalar-loader "
        "attributes as expired (sibling agreement of the whole-object and per-attribute forms); (R2) unexpire: "
        "_fire_loader_callables gives an expired key priority over other loaders, _load_expired loads exactly "
        "expired_attributes & unmodified (only ever narrowed), `unmodified` excludes committed_state, and the expired "
        "set is cleared afterwards; (R3) the row processor overwrites only what was asked: the properties populated "
        "are narrowed by only_load_props, a refreshed state is fully populated (populate_existing semantics) and a "
        "partial refresh commits only only_load_props while a full one commits all; (R4) Session.refresh expires "
        "before it loads, loads with refresh_state/only_load_props of the same request and raises when the row is "
        "gone; the unexpire load raises ObjectDeletedError when the row is gone; Session.expire_all expires every "
        "identity-map state; Session._expire_state validates persistence first; (R5) members leave expired_attributes only on the "
        "normal completion of the preceding statements, never in exception cleanup (a failed un-expire load leaves the attributes "
        "expired); (R6) a row that overwrites an instance (populate_existing / refresh / partial load) applies every entry of "
        "every populator group -- stores, discards or calls -- with the requested-key test as the only bypass, and flagged "
        "entries are registered as expired."
    ),
    not_decided=(
        "the values read back relative to other transactions (isolation), which columns a loader strategy puts in "
        "the SELECT, deferred / relationship loader behaviour after expiry, expire_on_commit (C33-R4), the buffers "
        "emptied by expire (C32-R6), cascades of refresh-expire (C39)."
    ),
)

STATE = "orm/state.py"
ATTR = "orm/attributes.py"
LOADING = "orm/loading.py"
SESSION = "orm/session.py"
IS = f"{STATE}::InstanceState"


def _atom_nodes(test: ast.expr, pol: bool):
    """Conjunctive atoms of a branch outcome as AST nodes: `not`, `and` (taken true), `or` (taken false) decomposed."""
    if isinstance(test, ast.UnaryOp) and isinstance(test.op, ast.Not):
        return _atom_nodes(test.operand, not pol)
    if isinstance(test, ast.BoolOp) and ((isinstance(test.op, ast.And) and pol) or (isinstance(test.op, ast.Or) and not pol)):
        out = []
        for v in test.values:
            out.extend(_atom_nodes(v, pol))
        return out
    return [(test, pol)]


def _loop_iter_must_pass(g, loop_node, through, skip_true_of=()):
    """None if every iteration of `loop_node` (entry -> back to the loop head / exit) passes a `through` node; paths that
    take the TRUE outcome of a test in `skip_true_of` are not considered."""
    return g.must_pass([loop_node], [loop_node, g.exit], through,
                       edge_ok=lambda a, b, lab: lab != "exc" and not (a in skip_true_of and lab == "true"),
                       start_edge_ok=lambda a, b, lab: lab == "true")


# ------------------------------------------------------------------------------------------ R1
@R.rule("C46-R1", floor=6, template="T-PATH/T-SIBLING",
        desc="_expire: expired=True, expired_attributes.update(<all loader impl keys>) and deletion of every mapped key "
             "present in the dict are unconditional; _expire_attributes: every iteration pops the key from the dict "
             "(only the documented no_loader skip excepted) and scalar-loader attributes are added to expired_attributes")
def r1(ctx):
    # normal form: extracted private helpers are inlined at their call, `x = self.a.b` aliases resolved
    f = nf(ctx, ctx.func(f"{IS}._expire"))
    g = ctx.cfg(f)
    d = f.params[1]
    # expired flag
    flag = [n.id for n in g.nodes if n.kind == "stmt" and isinstance(n.stmt, ast.Assign) and any(dotted(t) == "self.expired" for t in n.stmt.targets)
            and isinstance(n.stmt.value, ast.Constant) and n.stmt.value.value is True]
    w = g.must_pass([g.entry], [g.exit], flag, edge_ok=no_exc)
    ctx.check(bool(flag) and w is None, f"{f.key}:sets-expired-flag", "_expire() can return without self.expired = True", "self.expired = True on every path", f.loc, w)
    # all loader attributes registered
    reg = call_nodes(g, lambda c: callee_is(c, "self.expired_attributes.update") and len(c.args) == 1 and "_loader_impls" in unparse(c.args[0]))
    # the same registration spelt as a loop: `for impl in manager._loader_impls: self.expired_attributes.add(impl.key)` -- every
    # iteration must add the loop variable's key
    for lp in [n for n in g.nodes if n.kind == "for" and "_loader_impls" in unparse(n.stmt.iter) and isinstance(n.stmt.target, ast.Name)]:
        lv = lp.stmt.target.id
        adds = call_nodes(g, lambda c: callee_is(c, "self.expired_attributes.add") and len(c.args) == 1 and dotted(c.args[0]) == f"{lv}.key")
        if adds and _loop_iter_must_pass(g, lp.id, adds) is None:
            reg.append(lp.id)
    w = g.must_pass([g.entry], [g.exit], reg, edge_ok=no_exc)
    ctx.check(bool(reg) and w is None, f"{f.key}:registers-all-loader-attributes",
              "_expire() does not unconditionally add the keys of manager._loader_impls to expired_attributes: the next attribute access finds nothing to "
              "reload and returns None / a default instead of the database value", "expired_attributes.update(impl.key for impl in manager._loader_impls)", f.loc, w)
    # every mapped key leaves the dict
    loops = [n for n in g.nodes if n.kind == "for" and isinstance(n.stmt.iter, ast.Call) and callee_is(n.stmt.iter, "intersection")
             and "_all_key_set" in unparse(n.stmt.iter.func) and [dotted(a) for a in n.stmt.iter.args] == [d] and isinstance(n.stmt.target, ast.Name)]
    ok = False
    w = None
    for lp in loops:
        kv = lp.stmt.target.id
        dels = [n.id for n in g.nodes if n.kind == "stmt" and ((isinstance(n.stmt, ast.Delete) and any(isinstance(t, ast.Subscript) and dotted(t.value) == d and dotted(t.slice) == kv for t in n.stmt.targets))
                                                               or any(callee_is(c, f"{d}.pop") and c.args and dotted(c.args[0]) == kv for c in calls_in(n.stmt)))]
        if dels:
            w = _loop_iter_must_pass(g, lp.id, dels) or g.must_pass([g.entry], [g.exit], [lp.id], edge_ok=no_exc)
            ok = ok or w is None
    ctx.check(ok, f"{f.key}:empties-the-instance-dict",
              "_expire() does not unconditionally delete every mapped key (manager._all_key_set) from the instance dict: a stale value stays readable after "
              "expire()/commit()", "for key in manager._all_key_set.intersection(dict_): del dict_[key]", f.loc, w)
    # per-attribute sibling
    f = nf(ctx, ctx.func(f"{IS}._expire_attributes"))
    g = ctx.cfg(f)
    d, names_p = f.params[1], f.params[2]
    loops = [n for n in g.nodes if n.kind == "for" and dotted(n.stmt.iter) == names_p and isinstance(n.stmt.target, ast.Name)]
    ctx.require(len(loops) == 1, "_expire_attributes: the loop over attribute_names is not found")
    lp = loops[0]
    kv = lp.stmt.target.id
    pops = [n.id for n in g.nodes if n.kind == "stmt" and (any(callee_is(c, f"{d}.pop") and c.args and dotted(c.args[0]) == kv for c in calls_in(n.stmt))
                                                           or (isinstance(n.stmt, ast.Delete) and any(isinstance(t, ast.Subscript) and dotted(t.value) == d and dotted(t.slice) == kv for t in n.stmt.targets)))]
    skip = [n.id for n in g.nodes if n.kind == "test" and any(a == ("no_loader", True) for a in test_atoms(n.stmt.test)) or
            (n.kind == "test" and isinstance(n.stmt.test, ast.BoolOp) and any(dotted(v) == "no_loader" for v in n.stmt.test.values))]
    w = _loop_iter_must_pass(g, lp.id, pops, skip_true_of=skip)
    ctx.check(bool(pops) and w is None, f"{f.key}:pops-each-key-from-dict",
              "an iteration of _expire_attributes() can finish without removing the key from the instance dict: expire(obj, ['x']) / refresh(obj, ['x']) "
              "leaves the stale value readable", "dict_.pop(key, NO_VALUE) for every named attribute", f.loc, w)
    adds = call_nodes(g, lambda c: callee_is(c, "self.expired_attributes.add") and c.args and dotted(c.args[0]) == kv)
    want = {("impl.accepts_scalar_loader", True)}
    extra = []
    for n in adds:
        atoms = {a for a in guard_atom_set(g, n)}
        # the impl local may be named differently: normalise `<x>.accepts_scalar_loader`
        norm = {(("impl.accepts_scalar_loader" if a.endswith(".accepts_scalar_loader") else a), p) for a, p in atoms}
        ex = {(a, p) for a, p in norm - want if not (("no_loader" in a) and not p)}
        if want <= norm and not ex:
            extra = None
            break
        extra = sorted(ex) or ["(not under accepts_scalar_loader)"]
    ctx.check(bool(adds) and extra is None, f"{f.key}:registers-scalar-loader-attributes",
              f"a per-attribute expire does not register a scalar-loader attribute in expired_attributes (conditions: {extra}): the popped attribute is never "
              "reloaded", "expired_attributes.add(key) under impl.accepts_scalar_loader", f.loc)
    # the whole-object form registers every instrumented attribute: ClassManager._loader_impls is unfiltered
    li = ctx.func("orm/instrumentation.py::ClassManager._loader_impls")
    rets = [r.value for r in walk_local(li.node) if isinstance(r, ast.Return) and r.value is not None]
    comps = [c for r in rets for c in ast.walk(r) if isinstance(c, (ast.ListComp, ast.GeneratorExp, ast.SetComp))]
    good = len(rets) == 1 and len(comps) == 1 and len(comps[0].generators) == 1 and not comps[0].generators[0].ifs \
        and unparse(comps[0].generators[0].iter) == "self.values()" and unparse(comps[0].elt).endswith(".impl")
    ctx.check(good, f"{li.key}:all-impls", "ClassManager._loader_impls no longer enumerates the impl of every instrumented attribute: a whole-object expire leaves some "
                                           "attributes unregistered, they are removed from the dict but never reloaded", "frozenset(attr.impl for attr in self.values())", li.loc)


# ------------------------------------------------------------------------------------------ R2
@R.rule("C46-R2", floor=5, template="T-FLOW/T-GUARD",
        desc="_fire_loader_callables tries `key in state.expired_attributes` -> state._load_expired first; _load_expired "
             "hands the loader expired_attributes.intersection(self.unmodified), only narrowed afterwards, and clears the "
             "expired set after loading; InstanceState.unmodified excludes every key of committed_state")
def r2(ctx):
    f = ctx.func(f"{ATTR}::_AttributeImpl._fire_loader_callables")
    g = ctx.cfg(f)
    le = call_nodes(g, lambda c: callee_is(c, "_load_expired"))
    sp, pp = f.params[1], f.params[3]
    # the other loaders: anything else that is invoked with (state, passive)
    others = call_nodes(g, lambda c: not callee_is(c, "_load_expired") and [dotted(a) for a in c.args[:2]] == [sp, pp])
    ctx.require(le and others, "_fire_loader_callables: loader branches not found")
    exp_tests = [n.id for n in g.nodes if n.kind == "test" and any(a.endswith("in state.expired_attributes") and p for a, p in test_atoms(n.stmt.test))]
    good = bool(exp_tests) and all(any(a.endswith("in state.expired_attributes") and p for a, p in guard_atom_set(g, n)) for n in le)
    w = None
    for o in others:
        w = w or g.always_preceded(o, exp_tests, edge_ok=no_exc)
    ctx.check(good and w is None, f"{f.key}:expired-key-reloads-first",
              "another loader callable can run for a key that is in expired_attributes (or the expired test does not lead to _load_expired): an expired "
              "attribute is served by a stale per-instance loader instead of a reload of the row", "key in state.expired_attributes -> state._load_expired(...)", f.loc, w)
    # _load_expired
    f = nf(ctx, ctx.func(f"{IS}._load_expired"))
    g = ctx.cfg(f)
    calls = [c for c in calls_in(f.node) if callee_is(c, "expired_attribute_loader")]
    ctx.require(len(calls) == 1 and len(calls[0].args) >= 2 and isinstance(calls[0].args[1], ast.Name), "_load_expired: expired_attribute_loader(self, <names>, passive) not found")
    nm = calls[0].args[1].id
    all_defs: Dict[str, List[Optional[ast.expr]]] = {}
    for n_, v_, s_ in name_stores(f.node):
        all_defs.setdefault(n_, []).append(v_)
    problems = []
    seeds = 0

    def is_seed(v):
        return isinstance(v, ast.Call) and (
            (callee_is(v, "self.expired_attributes.intersection") and [dotted(a) for a in v.args] == ["self.unmodified"])
            or (callee_is(v, "self.unmodified.intersection") and [dotted(a) for a in v.args] == ["self.expired_attributes"])
            or (callee_is(v, "self.unmodified_intersection") and [dotted(a) for a in v.args] == ["self.expired_attributes"]))

    def judge_name(name, seen):
        """every binding of `name` is the seed, or a narrowing (.difference / .intersection) of a name judged the same way (the
        set may travel through several locals, e.g. after a helper that computes it was inlined)."""
        nonlocal seeds
        if name in seen:
            return
        seen.add(name)
        for v in all_defs.get(name, [None]):
            if v is None:
                problems.append(f"`{name}` bound in a way that is not understood")
            elif is_seed(v):
                seeds += 1
            elif isinstance(v, ast.Name) and v.id in all_defs:
                judge_name(v.id, seen)
            elif isinstance(v, ast.Call) and isinstance(v.func, ast.Attribute) and v.func.attr in ("difference", "intersection") and isinstance(v.func.value, ast.Name) and v.func.value.id in all_defs:
                judge_name(v.func.value.id, seen)
            else:
                problems.append(f"`{name} = {unparse(v)[:70]}`")
    judge_name(nm, set())
    ctx.check(seeds >= 1 and not problems, f"{f.key}:loads-expired-and-unmodified-only",
              f"the set of attributes handed to the unexpire load is not expired_attributes & unmodified, only narrowed: {problems or 'no seed'} -- an attribute "
              "that was assigned after it expired (a pending change) is overwritten with the database value, or a non-expired attribute is reloaded",
              f"{nm} = self.expired_attributes.intersection(self.unmodified), then only .difference()/.intersection()", f.loc)
    clears = call_nodes(g, lambda c: callee_is(c, "self.expired_attributes.clear"))
    loads = call_nodes(g, lambda c: callee_is(c, "expired_attribute_loader"))
    w = g.must_pass(loads, [g.exit], clears, edge_ok=no_exc)
    ctx.check(bool(clears) and w is None, f"{f.key}:clears-expired-set-after-load", "after the unexpire load expired_attributes is not cleared: every later access of a key the "
                                                                                    "loader could not populate issues the SELECT again", "self.expired_attributes.clear() after the load", f.loc, w)
    gate = [n for n in g.nodes if n.kind == "test" and any("SQL_OK" in a for a, p in test_atoms(n.stmt.test))]
    w = g.always_preceded(loads[0], [n.id for n in gate], edge_ok=no_exc) if gate else ["no SQL_OK test"]
    ctx.check(w is None, f"{f.key}:no-sql-without-SQL_OK", "the unexpire load is reachable without testing passive & SQL_OK: history / passive inspections of an expired "
                                                         "object emit SQL", "if not passive & SQL_OK: return PASSIVE_NO_RESULT", f.loc, w)
    # unmodified
    cls = ctx.index.cls(IS)
    um = cls.methods.get("unmodified")
    ctx.require(um is not None, "InstanceState.unmodified not found")
    rets = [r.value for r in walk_local(um.node) if isinstance(r, ast.Return) and r.value is not None]
    good = len(rets) == 1 and isinstance(rets[0], ast.Call) and isinstance(rets[0].func, ast.Attribute) and rets[0].func.attr == "difference" \
        and [dotted(a) for a in rets[0].args] == ["self.committed_state"] and "self.manager" in unparse(rets[0].func.value)
    ctx.check(good, f"{um.key}:excludes-committed_state", "InstanceState.unmodified is not `set(self.manager).difference(self.committed_state)`: attributes with a pending "
                                                          "change count as unmodified and are overwritten by the unexpire load", "set(manager) - committed_state", um.loc)


# ------------------------------------------------------------------------------------------ R3
def _nested(fn_node, name):
    for n in ast.walk(fn_node):
        if isinstance(n, (ast.FunctionDef, ast.AsyncFunctionDef)) and n.name == name and n is not fn_node:
            return n
    return None


@R.rule("C46-R3", floor=5, template="T-GUARD/T-FLOW",
        desc="_instance_processor: the properties given populators are mapper._prop_set narrowed by only_load_props when "
             "it is given; in _instance a state being refreshed gets populate_existing semantics, full population is "
             "control-dependent on `currentload or effective_populate_existing`, and after it a partial refresh "
             "(refresh_state and only_load_props) commits only only_load_props, otherwise everything")
def r3(ctx):
    outer = ctx.func(f"{LOADING}::_instance_processor")
    ctx.require("only_load_props" in outer.params and "refresh_state" in outer.params, "_instance_processor signature not understood")
    # props narrowing
    loops = [n for n in walk_local(outer.node) if isinstance(n, ast.For) and isinstance(n.iter, ast.Name) and any(
        isinstance(c.func, ast.Attribute) and c.func.attr == "append" for s in n.body for c in calls_in(s))]
    pname, ploop = None, None
    for lp in loops:
        defs = [v for n, v, s in name_stores(outer.node) if n == lp.iter.id]
        if any(v is not None and "_prop_set" in unparse(v) for v in defs):
            pname, ploop = lp.iter.id, lp
    ctx.require(pname is not None, "_instance_processor: the loop over the mapper's properties that builds the populators is not found")
    narrowed = False
    pm = outer.module.parents()
    from ..astutil import lexical_guards
    for n, v, s in name_stores(outer.node):
        if n == pname and isinstance(v, ast.Call) and isinstance(v.func, ast.Attribute) and v.func.attr == "intersection" and dotted(v.func.value) == pname \
                and "only_load_props" in unparse(v.args[0] if v.args else v):
            atoms, base = set(), set()
            for t, pol in lexical_guards(pm, s, stop=outer.node):
                atoms.update(test_atoms(t, pol))
            for t, pol in lexical_guards(pm, ploop, stop=outer.node):
                base.update(test_atoms(t, pol))
            atoms -= base  # conditions under which the populator loop itself runs do not count
            if atoms in ({("only_load_props is None", False)}, {("only_load_props", True)}):
                narrowed = True  # narrowed whenever only_load_props is given, under no further condition
    ctx.check(narrowed, f"{outer.key}:populators-narrowed-by-only_load_props",
              "the populated properties are not narrowed to only_load_props: refresh(obj, ['x']) / an unexpire load of some attributes overwrites every "
              "column attribute in the row, including ones with pending changes", f"{pname} = {pname}.intersection(... only_load_props)", outer.loc)
    inst = _nested(outer.node, "_instance")
    ctx.require(inst is not None, "_instance_processor has no nested _instance")
    g = ctx.cfg(inst)
    # effective_populate_existing
    eff = [n for n, v, s in name_stores(inst) if isinstance(v, ast.Name) and v.id == "populate_existing"]
    ctx.require(len(set(eff)) == 1, "_instance: `<effective> = populate_existing` not found")
    eff = eff[0]
    ups = [n.id for n in g.nodes if n.kind == "stmt" and isinstance(n.stmt, ast.Assign) and any(dotted(t) == eff for t in n.stmt.targets)
           and isinstance(n.stmt.value, ast.Constant) and n.stmt.value.value is True]
    good = bool(ups) and all(guard_atom_set(g, n) in ({("refresh_state is state", True)}, {("state is refresh_state", True)}) for n in ups)
    ctx.check(good, f"{outer.key}._instance:refreshed-state-is-repopulated", "the state being refreshed does not get populate_existing semantics: refresh() keeps the attribute "
                                                                             "values already loaded", f"if refresh_state is state: {eff} = True", outer.loc)
    full = call_nodes(g, lambda c: callee_is(c, "_populate_full"))
    ctx.require(full, "_instance: _populate_full call not found")
    bad = []
    for n in full:
        ts = [t for t, pol in g.edge_guards(n) if pol and isinstance(t, ast.BoolOp) and isinstance(t.op, ast.Or) and {dotted(v) for v in t.values} == {"currentload", eff}]
        if not ts:
            bad.append(g.node(n).describe())
        c = [c for c in calls_in(g.node(n).stmt) if callee_is(c, "_populate_full")][0]
        if eff not in {dotted(a) for a in c.args}:
            bad.append("populate_existing flag not passed on")
    ctx.check(not bad, f"{outer.key}._instance:full-population-guard", f"_populate_full is not control-dependent on `currentload or {eff}` (or does not receive {eff}): {bad} -- an "
                                                                      "object already in the session is overwritten by every query that returns its row, pending changes included",
              f"if currentload or {eff}: _populate_full(..., {eff}, ...)", outer.loc)
    # commit after full population
    part = call_nodes(g, lambda c: callee_is(c, "state._commit") and len(c.args) == 2 and dotted(c.args[1]) == "only_load_props")
    allc = call_nodes(g, lambda c: callee_is(c, "state._commit_all"))
    ctx.require(part and allc, "_instance: state._commit(dict_, only_load_props) / state._commit_all(...) not found")
    al = [guard_atom_set(g, n) for n in allc]
    common = set.intersection(*al) if al else set()
    good = all(guard_atom_set(g, n) - common == {("refresh_state", True), ("only_load_props", True)} for n in part)
    # _commit_all must not be reachable on the partial-refresh branch
    good2 = all(not ({("refresh_state", True), ("only_load_props", True)} <= a) for a in al)
    ctx.check(good and good2, f"{outer.key}._instance:partial-refresh-commits-only-its-attributes",
              "after populating a refreshed state the commit is not `_commit(dict_, only_load_props)` exactly when `refresh_state and only_load_props`: a partial refresh "
              "then discards the history of attributes it did not load (their pending changes are never flushed)",
              "if refresh_state and only_load_props: state._commit(dict_, only_load_props) else: state._commit_all(...)", outer.loc)
    w = None
    for n in part + allc:
        w = w or g.always_preceded(n, full, edge_ok=no_exc)
    ctx.check(w is None, f"{outer.key}._instance:commit-after-population", "the state is committed before the row's values are populated", "commit dominated by _populate_full", outer.loc, w)


# ------------------------------------------------------------------------------------------ R4
@R.rule("C46-R4", floor=8, template="T-PATH/T-GUARD",
        desc="Session.refresh: _expire_state(state, attribute_names) precedes the load, the load is _load_on_ident(..., "
             "state.key, refresh_state=state, only_load_props=attribute_names) and its None result raises "
             "InvalidRequestError; _load_scalar_attributes loads with refresh_state=state / only_load_props of the request "
             "and raises ObjectDeletedError when a keyed row is gone; _expire_state validates persistence first and "
             "dispatches names -> _expire_attributes, none -> _conditional_expire; expire_all expires every state")
def r4(ctx):
    f = ctx.func(f"{SESSION}::Session.refresh")
    g = ctx.cfg(f)
    names_p = "attribute_names"
    ctx.require(names_p in f.params, "Session.refresh(instance, attribute_names, ...) signature not understood")
    st_names = {n for n, v, s in name_stores(f.node) if isinstance(v, ast.Call) and callee_is(v, "instance_state") and [dotted(a) for a in v.args] == [f.params[1]]}
    ctx.require(st_names, "Session.refresh: state = attributes.instance_state(instance) not found")
    exp = call_nodes(g, lambda c: callee_is(c, "self._expire_state") and len(c.args) == 2 and dotted(c.args[0]) in st_names and dotted(c.args[1]) == names_p)
    loads = call_nodes(g, lambda c: callee_is(c, "_load_on_ident"))
    ctx.require(loads, "Session.refresh: _load_on_ident call not found")
    w = None
    for n in loads:
        w = w or g.always_preceded(n, exp, edge_ok=no_exc)
    ctx.check(bool(exp) and w is None, f"{f.key}:expires-before-loading", "refresh() loads without first expiring (state, attribute_names): attributes the SELECT does not "
                                                                        "return keep their stale values", "self._expire_state(state, attribute_names) dominates the load", f.loc, w)
    bad = []
    for n in loads:
        c = [c for c in calls_in(g.node(n).stmt) if callee_is(c, "_load_on_ident")][0]
        rs, ol = kw(c, "refresh_state"), kw(c, "only_load_props")
        if not (rs is not None and dotted(rs) in st_names):
            bad.append("refresh_state is not the refreshed state")
        if not (ol is not None and dotted(ol) == names_p):
            bad.append("only_load_props is not attribute_names")
        if len(c.args) < 3 or not any(dotted(c.args[2]) == f"{s}.key" for s in st_names):
            bad.append("identity key is not state.key")
    ctx.check(not bad, f"{f.key}:load-wiring", "; ".join(bad), "_load_on_ident(self, stmt, state.key, refresh_state=state, only_load_props=attribute_names)", f.loc)
    raises = [n for n in g.nodes if n.kind == "stmt" and isinstance(n.stmt, ast.Raise) and "InvalidRequestError" in unparse(n.stmt)]
    good = False
    # the load's result: the call itself inside the test, or a local every binding of which is that call
    res_by: Dict[str, List[Optional[ast.expr]]] = {}
    for n_, v, s_ in name_stores(f.node):
        res_by.setdefault(n_, []).append(v)
    res_names = {n_ for n_, vs in res_by.items() if all(isinstance(v, ast.Call) and callee_is(v, "_load_on_ident") for v in vs)}

    def _is_load_result(e):
        return (isinstance(e, ast.Call) and callee_is(e, "_load_on_ident")) or (isinstance(e, ast.Name) and e.id in res_names)
    for n in raises:
        for t0, pol0 in g.edge_guards(n.id):
            for t, pol in _atom_nodes(t0, pol0):
                if isinstance(t, ast.Compare) and len(t.ops) == 1 and isinstance(t.comparators[0], ast.Constant) and t.comparators[0].value is None and _is_load_result(t.left) \
                        and ((isinstance(t.ops[0], ast.Is) and pol) or (isinstance(t.ops[0], ast.IsNot) and not pol)):
                    good = True
    ctx.check(good, f"{f.key}:raises-when-row-is-gone", "refresh() of an object whose row no longer exists does not raise the documented InvalidRequestError: the object "
                                                        "silently keeps expired (empty) attributes", "if _load_on_ident(...) is None: raise InvalidRequestError", f.loc)
    # unexpire load
    f = ctx.func(f"{LOADING}::_load_scalar_attributes")
    g = ctx.cfg(f)
    st_p, names_p2 = f.params[1], f.params[2]
    loads = [c for c in calls_in(f.node) if callee_is(c, "_load_on_ident")]
    ctx.require(loads, "_load_scalar_attributes: _load_on_ident call not found")
    bad = [unparse(c)[:60] for c in loads if not (dotted(kw(c, "refresh_state")) == st_p and dotted(kw(c, "only_load_props")) == names_p2)]
    ctx.check(not bad, f"{f.key}:load-wiring", f"the unexpire load does not target the expired state with exactly the requested attributes: {bad}",
              f"{len(loads)} load(s) with refresh_state={st_p}, only_load_props={names_p2}", f.loc)
    dels = [n for n in g.nodes if n.kind == "stmt" and isinstance(n.stmt, ast.Raise) and "ObjectDeletedError" in unparse(n.stmt)]
    res_names = {n for n, v, s in name_stores(f.node) if isinstance(v, ast.Call) and callee_is(v, "_load_on_ident")}
    good = any(any((f"{r} is None", True) in guard_atom_set(g, n.id) for r in res_names) for n in dels)
    ctx.check(good, f"{f.key}:raises-ObjectDeletedError", "accessing an expired attribute of an object whose row is gone does not raise ObjectDeletedError", "if has_key and result is None: raise ObjectDeletedError", f.loc)
    # the loader _load_expired calls is _load_scalar_attributes bound to the mapper
    mm = ctx.index.module("orm/mapper.py")
    regs = [c for c in calls_in(mm.tree, into_nested=True) if callee_is(c, "register_class") and kw(c, "expired_attribute_loader") is not None]
    good = bool(regs) and all("_load_scalar_attributes" in unparse(kw(c, "expired_attribute_loader")) and "self" in names_in(kw(c, "expired_attribute_loader")) for c in regs)
    ctx.check(good, "orm/mapper.py::Mapper:expired_attribute_loader", "the mapper does not register loading._load_scalar_attributes (bound to itself) as the class manager's "
                                                                     "expired_attribute_loader", "expired_attribute_loader=partial(loading._load_scalar_attributes, self)", mm.path)
    # _expire_state
    f = ctx.func(f"{SESSION}::Session._expire_state")
    g = ctx.cfg(f)
    st_p, names_p3 = f.params[1], f.params[2]
    val = call_nodes(g, lambda c: callee_is(c, "self._validate_persistent") and [dotted(a) for a in c.args] == [st_p])
    ea = call_nodes(g, lambda c: callee_is(c, f"{st_p}._expire_attributes") and len(c.args) >= 2 and dotted(c.args[1]) == names_p3)
    ce = call_nodes(g, lambda c: callee_is(c, "self._conditional_expire") and [dotted(a) for a in c.args][:1] == [st_p])
    w = None
    for n in ea + ce:
        w = w or g.always_preceded(n, val, edge_ok=no_exc)
    good = bool(val) and bool(ea) and bool(ce) and all((names_p3, True) in guard_atom_set(g, n) for n in ea) and all((names_p3, False) in guard_atom_set(g, n) for n in ce)
    ctx.check(good and w is None, f"{f.key}:dispatch", "_expire_state does not validate persistence first, or does not send a named request to _expire_attributes and an unnamed "
                                                      "one to _conditional_expire", "validate; names -> _expire_attributes(state.dict, names); else _conditional_expire(state)", f.loc, w)
    # expire_all
    f = ctx.func(f"{SESSION}::Session.expire_all")
    g = ctx.cfg(f)
    loops = [n for n in g.nodes if n.kind == "for" and isinstance(n.stmt.iter, ast.Call) and callee_is(n.stmt.iter, "self.identity_map.all_states") and isinstance(n.stmt.target, ast.Name)]
    ok, w = False, None
    for lp in loops:
        sv = lp.stmt.target.id
        ex = call_nodes(g, lambda c: callee_is(c, f"{sv}._expire") and len(c.args) == 2 and dotted(c.args[0]) == f"{sv}.dict")
        if ex:
            w = _loop_iter_must_pass(g, lp.id, ex) or g.must_pass([g.entry], [g.exit], [lp.id], edge_ok=no_exc)
            ok = ok or w is None
    ctx.check(ok, f"{f.key}:expires-every-state", "expire_all() does not call state._expire(state.dict, ...) for every state of the identity map", "for state in identity_map.all_states(): state._expire(state.dict, ...)", f.loc, w)


# ------------------------------------------------------------------------------------------ R5
#: set methods that can only remove members (meaning of the Python set API)
SHRINKING_SET_METHODS = ("clear", "discard", "remove", "pop", "difference_update", "intersection_update", "symmetric_difference_update")
#: functions that rebind the whole set as part of constructing / unpickling the state: not an un-expire
REBINDS_ALLOWED = {
    f"{IS}.__init__": "a new state has nothing expired",
    f"{IS}.__setstate__": "restores the pickled set",
}


def _parts(n):
    from ..astutil import own_exprs
    return own_exprs(n.stmt) if n.stmt is not None and isinstance(n.stmt, ast.stmt) and n.kind in ("stmt", "test", "for", "with_enter") else []


def _shrinks(g) -> List[int]:
    """CFG nodes that take members out of an `<x>.expired_attributes` set."""
    out = []
    for n in g.nodes:
        hit = False
        for part in _parts(n):
            for x in ast.walk(part):
                if isinstance(x, ast.Call) and isinstance(x.func, ast.Attribute) and x.func.attr in SHRINKING_SET_METHODS and (dotted(x.func.value) or "").endswith(".expired_attributes"):
                    hit = True
        if n.kind == "stmt" and isinstance(n.stmt, ast.AugAssign) and isinstance(n.stmt.op, (ast.Sub, ast.BitAnd, ast.BitXor)) and (dotted(n.stmt.target) or "").endswith(".expired_attributes"):
            hit = True
        if n.kind == "stmt" and isinstance(n.stmt, ast.Assign) and any((dotted(t) or "").endswith(".expired_attributes") for t in n.stmt.targets):
            hit = True
        if n.kind == "stmt" and isinstance(n.stmt, ast.Delete) and any(isinstance(t, ast.Subscript) is False and (dotted(t) or "").endswith(".expired_attributes") for t in n.stmt.targets):
            hit = True
        if hit:
            out.append(n.id)
    return out


def _simple_callee(c: ast.Call) -> Optional[str]:
    fn = c.func
    if isinstance(fn, ast.Name):
        return fn.id
    if isinstance(fn, ast.Attribute) and isinstance(fn.value, ast.Name) and fn.value.id in ("self", "cls"):
        return fn.attr
    return None


@R.rule("C46-R5", floor=3, template="T-PATH/T-OWN",
        desc="an attribute leaves <state>.expired_attributes only on the normal completion of what precedes it: in every function "
             "of the orm package that removes members from the set (clear / discard / difference_update / -= / rebinding; a "
             "private helper doing it is followed from its callers) no such removal is reachable from the exceptional exit of "
             "a statement (finally / except cleanup) -- a failed load must leave the attributes expired")
def r5(ctx):
    cands = {}
    for m in ctx.index.all_modules():
        if not m.relpath.startswith("orm/") or "expired_attributes" not in m.source:
            continue
        direct = {}
        funcs = list(ctx.index.all_functions(module=m))
        for f in funcs:
            if f.type_only or f.is_overload:
                continue
            seg = ast.get_source_segment(m.source, f.node) or ""
            if "expired_attributes" in seg:
                direct[f.key] = f
        names = {f.name for f in direct.values() if f.name.startswith("_") and not f.name.startswith("__")}
        cands.update(direct)
        # callers that run such a private helper from inside a try statement: the helper is inlined into their normal form
        for f in funcs:
            if f.key in direct or f.type_only or f.is_overload:
                continue
            trys = [t for t in walk_local(f.node) if isinstance(t, ast.Try)]
            if any(_simple_callee(c) in names for t in trys for c in calls_in(t)):
                cands[f.key] = f
    n_sites = 0
    for k in sorted(cands):
        f = nf(ctx, cands[k])
        g = ctx.cfg(f)
        sh = _shrinks(g)
        if k in REBINDS_ALLOWED:
            sh = [n for n in sh if not isinstance(g.node(n).stmt, ast.Assign)]
        if not sh:
            continue
        n_sites += 1
        exc_targets = sorted({b for a in range(len(g.nodes)) for b, lab in g.succ.get(a, ()) if lab == "exc"} - {g.raise_exit})
        after_failure = g.reachable(exc_targets) if exc_targets else set()
        bad = [n for n in sh if n in after_failure]
        w = None
        if bad:
            srcs = [a for a in range(len(g.nodes)) if any(lab == "exc" and b != g.raise_exit for b, lab in g.succ.get(a, ()))]
            w = g.witness(srcs, bad, (), None, lambda a, b, lab: lab == "exc")
            w = g.describe_path(w) if w else None
        ctx.check(not bad, f"{k}:expired-set-shrinks-only-on-normal-completion",
                  f"`{unparse(g.node(bad[0]).stmt)[:70] if bad else ''}` runs although an earlier statement raised (exception cleanup: finally / except): when the load of "
                  "the expired attributes fails (dropped connection, lock timeout, ObjectDeletedError) they are no longer in the instance dict AND no longer marked "
                  "expired -- every later read returns None without emitting SQL instead of the value in the database; before, they stayed expired and the next "
                  "read loaded them", f"{len(sh)} removal(s), none reachable from an exceptional edge", f.loc, w)
    ctx.require(n_sites >= 3, f"only {n_sites} functions that remove members from expired_attributes found")
    le = nf(ctx, ctx.func(f"{IS}._load_expired"))
    ctx.require(_shrinks(ctx.cfg(le)), "_load_expired: the removal from expired_attributes after the load is not found")


# ------------------------------------------------------------------------------------------ R6
def _tri(e, env: Dict[str, bool]) -> Optional[bool]:
    """three-valued truth of a test under the assumptions `env` ({name: bool}); None = not determined by them."""
    if isinstance(e, ast.Name):
        return env.get(e.id)
    if isinstance(e, ast.Constant) and isinstance(e.value, bool):
        return e.value
    if isinstance(e, ast.UnaryOp) and isinstance(e.op, ast.Not):
        v = _tri(e.operand, env)
        return None if v is None else not v
    if isinstance(e, ast.BoolOp):
        vs = [_tri(v, env) for v in e.values]
        if isinstance(e.op, ast.And):
            return False if any(v is False for v in vs) else (True if all(v is True for v in vs) else None)
        return True if any(v is True for v in vs) else (False if all(v is False for v in vs) else None)
    return None


def _assuming(g, env, also=None):
    """edge filter: normal edges, minus the branch outcomes the assumptions refute (independent of how the test is spelt)."""
    memo: Dict[int, Optional[bool]] = {}

    def ok(a, b, lab):
        if lab == "exc":
            return False
        n = g.nodes[a]
        if n.kind == "test" and lab in ("true", "false") and hasattr(n.stmt, "test"):
            if a not in memo:
                memo[a] = _tri(n.stmt.test, env)
            if memo[a] is not None and memo[a] != (lab == "true"):
                return False
        return also(a, b, lab) if also is not None else True
    return ok


def _populate_existing_param(ctx, full) -> str:
    """The parameter of _populate_full that receives _instance's effective populate_existing flag (bound by position)."""
    outer = ctx.func(f"{LOADING}::_instance_processor")
    inst = _nested(outer.node, "_instance")
    ctx.require(inst is not None, "_instance_processor has no nested _instance")
    eff = {n for n, v, s in name_stores(inst) if isinstance(v, ast.Name) and v.id == "populate_existing"}
    ctx.require(len(eff) == 1, "_instance: `<effective> = populate_existing` not found")
    eff = eff.pop()
    for c in calls_in(inst):
        if callee_is(c, "_populate_full"):
            for i, a in enumerate(c.args):
                if dotted(a) == eff and i < len(full.params):
                    return full.params[i]
            for k in c.keywords:
                if k.arg and dotted(k.value) == eff:
                    return k.arg
    ctx.require(False, "_instance: the effective populate_existing flag is not handed to _populate_full")


@R.rule("C46-R6", floor=9, template="T-PATH/T-SIBLING",
        desc="row population that overwrites (first row of an identity: _populate_full under populate_existing, _populate_partial "
             "for the requested keys) applies EVERY entry of every populator group: each iteration of a `for key, x in "
             "populators[<group>]` loop stores dict_[key], discards dict_[key] or calls the populator -- the only bypass is a "
             "membership test of the key (narrowing to the attributes asked for), never the entry's second member or the "
             "dict's present content; entries of a group whose second member is a flag register the key in expired_attributes "
             "when it is set")
def r6(ctx):
    full = ctx.func(f"{LOADING}::_populate_full")
    part = ctx.func(f"{LOADING}::_populate_partial")
    pe = _populate_existing_param(ctx, full)
    for f0, base_env, variants in ((full, {"isnew": True}, ({pe: True}, {pe: False})), (part, {"isnew": True}, ({},))):
        ctx.require("isnew" in f0.params, f"{f0.key}: no `isnew` parameter")
        f = nf(ctx, f0, alias="all")
        g = ctx.cfg(f)
        params = set(f.params)

        def group_loops(env):
            live = g.reachable([g.entry], edge_ok=_assuming(g, env))
            out: Dict[str, List] = {}
            for n in g.nodes:
                if n.kind == "for" and n.id in live and isinstance(n.stmt.iter, ast.Subscript) and isinstance(n.stmt.iter.value, ast.Name) and n.stmt.iter.value.id in params \
                        and isinstance(n.stmt.iter.slice, ast.Constant) and isinstance(n.stmt.iter.slice.value, str) \
                        and isinstance(n.stmt.target, ast.Tuple) and len(n.stmt.target.elts) == 2 and all(isinstance(e, ast.Name) for e in n.stmt.target.elts):
                    out.setdefault(n.stmt.iter.slice.value, []).append(n)
            return out

        def narrowing(kv, dicts, lp, apps):
            """edges that mean nothing but `this key is not one of the attributes asked for`: an outcome of a test that is exactly
            `<key> [not] in <collection>` (the collection not being the instance dict that is written) after which no application
            is reachable within the iteration."""
            skip = set()
            # `if key in dict_: del dict_[key]` is `dict_.pop(key, None)`: where the entry is only ever discarded, "the dict does not hold the key" is no bypass
            discard_only = bool(apps) and all(isinstance(g.node(a).stmt, ast.Delete) or any(isinstance(c.func, ast.Attribute) and c.func.attr == "pop" for c in calls_in(g.node(a).stmt)) for a in apps) \
                and not any(isinstance(g.node(a).stmt, ast.Assign) and any(isinstance(t, ast.Subscript) for t in g.node(a).stmt.targets) for a in apps)
            for n in g.nodes:
                if n.kind == "test" and isinstance(getattr(n.stmt, "test", None), ast.Compare) and len(n.stmt.test.ops) == 1 and isinstance(n.stmt.test.ops[0], (ast.In, ast.NotIn)) \
                        and dotted(n.stmt.test.left) == kv:
                    absent = "false" if isinstance(n.stmt.test.ops[0], ast.In) else "true"
                    in_dict = dotted(n.stmt.test.comparators[0]) in dicts
                    for b, lab in g.succ.get(n.id, ()):
                        if in_dict and not (discard_only and lab == absent):
                            continue
                        if lab in ("true", "false") and b not in apps and not (set(g.reachable([b], avoid=[lp.id], edge_ok=no_exc)) & set(apps)):
                            skip.add((n.id, lab))
            return lambda a, b, lab: (a, lab) not in skip

        def applications(kv, xv):
            apps, dicts = [], set()
            for n in g.nodes:
                hit = False
                if n.kind == "stmt" and isinstance(n.stmt, (ast.Assign, ast.Delete)):
                    for t in n.stmt.targets:
                        if isinstance(t, ast.Subscript) and isinstance(t.value, ast.Name) and t.value.id in params and dotted(t.slice) == kv:
                            hit = True
                            dicts.add(t.value.id)
                for part_ in _parts(n):
                    for c in ast.walk(part_):
                        if isinstance(c, ast.Call):
                            if isinstance(c.func, ast.Name) and c.func.id == xv:
                                hit = True
                            if isinstance(c.func, ast.Attribute) and c.func.attr == "pop" and isinstance(c.func.value, ast.Name) and c.func.value.id in params and c.args and dotted(c.args[0]) == kv:
                                hit = True
                                dicts.add(c.func.value.id)
                if hit:
                    apps.append(n.id)
            return apps, dicts

        overwrite_env = dict(base_env, **variants[0])
        groups = group_loops(base_env)
        ctx.require(groups, f"{f0.key}: no `for key, x in populators[<group>]` loop on the first-row path")
        live_groups = group_loops(overwrite_env)
        for grp in sorted(groups):
            key = f"{f0.key}:applies-every-{grp}-populator"
            loops = live_groups.get(grp, [])
            w, why = None, ""
            if not loops:
                why = f"no loop over populators[{grp!r}] runs when the row overwrites"
            for lp in loops:
                kv, xv = (e.id for e in lp.stmt.target.elts)
                apps, dicts = applications(kv, xv)
                ok = _assuming(g, overwrite_env, narrowing(kv, dicts, lp, apps))
                w = w or g.must_pass([lp.id], [lp.id, g.exit], apps, edge_ok=ok, start_edge_ok=lambda a, b, lab: lab == "true") if apps else [f"no use of the ({kv}, {xv}) entry in the loop"]
            if not w and loops:
                w = g.must_pass([g.entry], [g.exit], [lp.id for lp in loops], edge_ok=_assuming(g, overwrite_env))
                why = why or (f"the loop over populators[{grp!r}] can be skipped" if w else "")
            ctx.check(not w and not why, key,
                      (why + ": " if why else "") + f"when a row overwrites the instance ({', '.join(f'{a}={b}' for a, b in overwrite_env.items())}) an entry of populators[{grp!r}] can be "
                      "passed over on account of something other than `key in <requested attributes>` (e.g. the entry's second member, or what the dict holds): its "
                      "attribute keeps the value loaded earlier -- e.g. an already loaded deferred column stays stale after populate_existing / refresh while every "
                      "other column is refreshed, and no SQL is emitted when it is read", f"{len(loops)} loop(s): every iteration stores / discards dict_[key] or calls the populator", f.loc, w)
        # flag entries register the key as expired
        flagged = []
        for env_v in variants:
            env = dict(base_env, **env_v)
            for grp, loops in group_loops(env).items():
                for lp in loops:
                    kv, xv = (e.id for e in lp.stmt.target.elts)
                    used_as_test = any(n.kind == "test" and any(isinstance(x, ast.Name) and x.id == xv for x in ast.walk(n.stmt.test)) and _tri(n.stmt.test, {xv: True}) is not None for n in g.nodes if hasattr(n.stmt, "test"))
                    if used_as_test:
                        flagged.append((env, grp, lp, kv, xv))
        ctx.require(flagged, f"{f0.key}: no populator group whose second member is a flag")
        w = None
        for env, grp, lp, kv, xv in flagged:
            adds = call_nodes(g, lambda c: isinstance(c.func, ast.Attribute) and c.func.attr == "add" and (dotted(c.func.value) or "").endswith(".expired_attributes") and c.args and dotted(c.args[0]) == kv)
            _, dicts = applications(kv, xv)
            ok = _assuming(g, dict(env, **{xv: True}), narrowing(kv, dicts, lp, adds))
            w = w or (g.must_pass([lp.id], [lp.id, g.exit], adds, edge_ok=ok, start_edge_ok=lambda a, b, lab: lab == "true") if adds else [f"no <state>.expired_attributes.add({kv})"])
        ctx.check(not w, f"{f0.key}:flagged-expire-populators-registered",
                  "an entry of the flag group whose flag is set (a column that is not in the row and has no loader of its own) is not added to expired_attributes on every "
                  "iteration: the attribute is absent from the dict with nothing to load it -- it reads as None instead of the database value",
                  f"{len(flagged)} loop/assumption pair(s): expired_attributes.add(key) whenever the flag is set", f.loc, w)


# ------------------------------------------------------------------------------------------ self-test battery
# R1
R.mutant("expire-keeps-dict-of-unmodified", STATE, sub("        for key in self.manager._all_key_set.intersection(dict_):\n            del dict_[key]\n", "        for key in self.manager._all_key_set.intersection(dict_):\n            if key in self.committed_state:\n                continue\n            del dict_[key]\n"), "C46-R1")
R.mutant("expire-registers-only-when-modified", STATE, sub("        self.expired_attributes.update(\n            [impl.key for impl in self.manager._loader_impls]\n        )\n", "        if self.callables:\n            self.expired_attributes.update(\n                [impl.key for impl in self.manager._loader_impls]\n            )\n"), "C46-R1")
R.mutant("expire-attributes-pop-only-scalar", STATE, sub("                    del callables[key]\n            old = dict_.pop(key, NO_VALUE)\n", "                    del callables[key]\n            else:\n                continue\n            old = dict_.pop(key, NO_VALUE)\n"), "C46-R1")
R.mutant("expire-attributes-not-registered", STATE, sub("                self.expired_attributes.add(key)\n                if callables and key in callables:\n", "                if key in self.committed_state:\n                    self.expired_attributes.add(key)\n                if callables and key in callables:\n"), "C46-R1")
R.mutant("expire-flag-conditional", STATE, sub("        self.expired = True\n        if self.modified:\n            modified_set.discard(self)\n", "        if self.modified:\n            self.expired = True\n            modified_set.discard(self)\n"), "C46-R1")
# R2
R.mutant("load-expired-includes-modified", STATE, sub("        toload = self.expired_attributes.intersection(self.unmodified)\n", "        toload = self.expired_attributes.intersection(self.manager)\n"), "C46-R2")
R.mutant("load-expired-widened", STATE, sub("        self.manager.expired_attribute_loader(self, toload, passive)\n", "        toload = toload.union(self.unloaded)\n        self.manager.expired_attribute_loader(self, toload, passive)\n"), "C46-R2")
R.mutant("load-expired-does-not-clear", STATE, sub("        self.expired_attributes.clear()\n\n        return ATTR_WAS_SET\n", "        return ATTR_WAS_SET\n"), "C46-R2")
R.mutant("unmodified-ignores-committed-state", STATE, sub("        return set(self.manager).difference(self.committed_state)\n", "        return set(self.manager).difference(self._pending_mutations)\n"), "C46-R2")
R.mutant("instance-callable-before-expired", ATTR, sub("        if (\n            self.accepts_scalar_loader\n            and self.load_on_unexpire\n            and key in state.expired_attributes\n        ):\n            return state._load_expired(state, passive)\n        elif key in state.callables:\n            callable_ = state.callables[key]\n            return callable_(state, passive)\n",
                                                       "        if key in state.callables:\n            callable_ = state.callables[key]\n            return callable_(state, passive)\n        elif (\n            self.accepts_scalar_loader\n            and self.load_on_unexpire\n            and key in state.expired_attributes\n        ):\n            return state._load_expired(state, passive)\n"), "C46-R2")
R.mutant("load-expired-ignores-passive", STATE, sub("        if not passive & SQL_OK:\n            return PASSIVE_NO_RESULT\n\n        toload", "        toload"), "C46-R2")
# R3
R.mutant("populators-not-narrowed-on-refresh", LOADING, sub("        if only_load_props is not None:\n            props = props.intersection(\n                mapper._props[k] for k in only_load_props\n            )\n", "        if only_load_props is not None and refresh_state is None:\n            props = props.intersection(\n                mapper._props[k] for k in only_load_props\n            )\n"), "C46-R3")
R.mutant("populators-never-narrowed", LOADING, sub("        if only_load_props is not None:\n            props = props.intersection(\n                mapper._props[k] for k in only_load_props\n            )\n", "        if only_load_props is not None:\n            pass\n"), "C46-R3")
R.mutant("refresh-state-not-repopulated", LOADING, sub("        if refresh_state is state:\n            effective_populate_existing = True\n", "        if refresh_state is state and state.modified:\n            effective_populate_existing = True\n"), "C46-R3")
R.mutant("full-population-unconditional", LOADING, sub("        if currentload or effective_populate_existing:\n            # full population routines.", "        if currentload or effective_populate_existing or not state.modified:\n            # full population routines."), "C46-R3")
R.mutant("partial-refresh-commits-all", LOADING, sub("                    if refresh_state and only_load_props:\n                        state._commit(dict_, only_load_props)\n                    else:\n                        state._commit_all(dict_, session_identity_map)\n", "                    if refresh_state and only_load_props and not state.modified:\n                        state._commit(dict_, only_load_props)\n                    else:\n                        state._commit_all(dict_, session_identity_map)\n"), "C46-R3")
# R4
R.mutant("refresh-loads-before-expiring", SESSION, chain(
    sub("        self._expire_state(state, attribute_names)\n\n        # this autoflush previously used to occur", "        # this autoflush previously used to occur"),
    sub("            raise sa_exc.InvalidRequestError(\n                \"Could not refresh instance '%s'\" % instance_str(instance)\n            )\n", "            raise sa_exc.InvalidRequestError(\n                \"Could not refresh instance '%s'\" % instance_str(instance)\n            )\n        self._expire_state(state, attribute_names)\n")), "C46-R4")
R.mutant("refresh-loads-all-props", SESSION, sub("                only_load_props=attribute_names,\n                require_pk_cols=True,\n", "                only_load_props=None,\n                require_pk_cols=True,\n"), "C46-R4")
R.mutant("refresh-missing-row-silent", SESSION, sub("            is None\n        ):\n            raise sa_exc.InvalidRequestError(\n                \"Could not refresh instance '%s'\" % instance_str(instance)\n            )\n", "            is None\n        ):\n            return None\n"), "C46-R4")
R.mutant("unexpire-missing-row-silent", LOADING, sub("    if has_key and result is None:\n        raise orm_exc.ObjectDeletedError(state)\n", "    if has_key and result is not None:\n        raise orm_exc.ObjectDeletedError(state)\n"), "C46-R4")
R.mutant("unexpire-load-other-props", LOADING, sub("        refresh_state=state,\n        only_load_props=attribute_names,\n        no_autoflush=no_autoflush,\n    )\n\n    # if instance is pending", "        refresh_state=state,\n        only_load_props=None,\n        no_autoflush=no_autoflush,\n    )\n\n    # if instance is pending"), "C46-R4")
R.mutant("expire-state-names-expire-everything", SESSION, sub("        if attribute_names:\n            state._expire_attributes(state.dict, attribute_names)\n        else:\n            # pre-fetch the full cascade", "        if not attribute_names:\n            state._expire_attributes(state.dict, attribute_names)\n        else:\n            # pre-fetch the full cascade"), "C46-R4")
R.mutant("expire-all-skips-modified", SESSION, sub("        for state in self.identity_map.all_states():\n            state._expire(state.dict, self.identity_map._modified)\n\n    def expire(", "        for state in self.identity_map.all_states():\n            if state.modified:\n                continue\n            state._expire(state.dict, self.identity_map._modified)\n\n    def expire("), "C46-R4")
# benign refactors
R.mutant("benign-expire-attributes-rename-impl", STATE, chain(
    sub("            impl = self.manager[key].impl\n            if impl.accepts_scalar_loader:\n                if no_loader and (impl.callable_ or key in callables):\n                    continue\n", "            aimpl = self.manager[key].impl\n            impl = aimpl\n            if aimpl.accepts_scalar_loader:\n                if no_loader and (aimpl.callable_ or key in callables):\n                    continue\n")), None)
R.mutant("benign-load-expired-two-step-narrowing", STATE, sub("        self.manager.expired_attribute_loader(self, toload, passive)\n", "        toload = toload.intersection(self.manager)\n        _n = len(toload)\n        self.manager.expired_attribute_loader(self, toload, passive)\n"), None)
R.mutant("benign-expire-reordered", STATE, sub("        self.expired = True\n        if self.modified:\n            modified_set.discard(self)\n            self.committed_state.clear()\n            self.modified = False\n", "        if self.modified:\n            modified_set.discard(self)\n            self.committed_state.clear()\n            self.modified = False\n        self.expired = True\n"), None)
R.mutant("benign-refresh-local-for-key", SESSION, sub("        self._expire_state(state, attribute_names)\n\n        # this autoflush previously used to occur", "        self._expire_state(state, attribute_names)\n        _names = list(attribute_names or ())\n\n        # this autoflush previously used to occur"), None)
R.mutant('benign-rfI_10-expire-pop-alias-and-add-loop', STATE,
         sub('\n'
             '        self._strong_obj = None\n'
             '\n'
             '        if "_pending_mutations" in self.__dict__:\n'
             '            del self.__dict__["_pending_mutations"]\n'
             '\n'
             '        if "parents" in self.__dict__:\n'
             '            del self.__dict__["parents"]\n'
             '\n'
             '        self.expired_attributes.update(\n'
             '            [impl.key for impl in self.manager._loader_impls]\n'
             '        )\n',
        '\n'
             '        self._strong_obj = None\n'
             '\n'
             '        # drop memoized / lazily created per-state collections\n'
             '        state_attrs = self.__dict__\n'
             '        state_attrs.pop("parents", None)\n'
             '        state_attrs.pop("_pending_mutations", None)\n'
             '\n'
             '        for loader_impl in self.manager._loader_impls:\n'
             '            self.expired_attributes.add(loader_impl.key)\n'), None)
R.mutant('benign-rfI_11-expire-attributes-hoisted-aliases', STATE,
         sub('        pending = self.__dict__.get("_pending_mutations", None)\n'
             '\n'
             '        callables = self.callables\n'
             '\n'
             '        for key in attribute_names:\n'
             '            impl = self.manager[key].impl\n'
             '            if impl.accepts_scalar_loader:\n'
             '                if no_loader and (impl.callable_ or key in callables):\n'
             '                    continue\n'
             '\n'
             '                self.expired_attributes.add(key)\n'
             '                if callables and key in callables:\n'
             '                    del callables[key]\n'
             '            old = dict_.pop(key, NO_VALUE)\n'
             '            if is_collection_impl(impl) and old is not NO_VALUE:\n'
             '                impl._invalidate_collection(old)\n'
             '\n'
             '            lkv = self._last_known_values\n'
             '            if lkv is not None and key in lkv and old is not NO_VALUE:\n'
             '                lkv[key] = old\n'
             '\n'
             '            self.committed_state.pop(key, None)\n',
        '        pending = self.__dict__.get("_pending_mutations", None)\n'
             '\n'
             '        callables = self.callables\n'
             '        manager = self.manager\n'
             '        committed_state = self.committed_state\n'
             '\n'
             '        for key in attribute_names:\n'
             '            impl = manager[key].impl\n'
             '            if impl.accepts_scalar_loader:\n'
             '                if no_loader:\n'
             '                    # leave attributes that have their own loader alone\n'
             '                    if impl.callable_ or key in callables:\n'
             '                        continue\n'
             '\n'
             '                self.expired_attributes.add(key)\n'
             '                if callables and key in callables:\n'
             '                    del callables[key]\n'
             '            old = dict_.pop(key, NO_VALUE)\n'
             '            if old is not NO_VALUE:\n'
             '                if is_collection_impl(impl):\n'
             '                    impl._invalidate_collection(old)\n'
             '\n'
             '                lkv = self._last_known_values\n'
             '                if lkv is not None and key in lkv:\n'
             '                    lkv[key] = old\n'
             '\n'
             '            committed_state.pop(key, None)\n'), None)
R.mutant('benign-rfI_12-unexpire-key-helper-extracted', LOADING, chain(
    sub('def _load_scalar_attributes(mapper, state, attribute_names, passive):\n',
        'def _identity_key_for_pending_refresh(mapper, state):\n'
             '    """produce an identity key for a state that has none assigned yet.\n'
             '\n'
             '    this codepath is rare - only valid when inside a flush, and the\n'
             "    object is becoming persistent but hasn't yet been assigned\n"
             '    an identity_key.\n'
             '\n'
             '    """\n'
             '    # check here to ensure we have the attrs we need.\n'
             '    pk_attrs = [\n'
             '        mapper._columntoproperty[col].key for col in mapper.primary_key\n'
             '    ]\n'
             '    if state.expired_attributes.intersection(pk_attrs):\n'
             '        raise sa_exc.InvalidRequestError(\n'
             '            "Instance %s cannot be refreshed - it\'s not "\n'
             '            " persistent and does not "\n'
             '            "contain a full primary key." % state_str(state)\n'
             '        )\n'
             '    return mapper._identity_key_from_state(state)\n'
             '\n'
             '\n'
             'def _load_scalar_attributes(mapper, state, attribute_names, passive):\n'),
    sub('    if has_key:\n'
             '        identity_key = state.key\n'
             '    else:\n'
             '        # this codepath is rare - only valid when inside a flush, and the\n'
             "        # object is becoming persistent but hasn't yet been assigned\n"
             '        # an identity_key.\n'
             '        # check here to ensure we have the attrs we need.\n'
             '        pk_attrs = [\n'
             '            mapper._columntoproperty[col].key for col in mapper.primary_key\n'
             '        ]\n'
             '        if state.expired_attributes.intersection(pk_attrs):\n'
             '            raise sa_exc.InvalidRequestError(\n'
             '                "Instance %s cannot be refreshed - it\'s not "\n'
             '                " persistent and does not "\n'
             '                "contain a full primary key." % state_str(state)\n'
             '            )\n'
             '        identity_key = mapper._identity_key_from_state(state)\n',
        '    if has_key:\n'
             '        identity_key = state.key\n'
             '    else:\n'
             '        identity_key = _identity_key_for_pending_refresh(mapper, state)\n')), None)
# further benign variants of the same families (rob-I)
R.mutant("benign-expire-registration-extracted-helper", STATE, chain(
    sub("        self.expired_attributes.update(\n            [impl.key for impl in self.manager._loader_impls]\n        )\n\n        if self.callables:\n            # the per state loader callables we can remove here are\n",
        "        self._mark_all_loader_attributes_expired()\n\n        if self.callables:\n            # the per state loader callables we can remove here are\n"),
    sub("    def _expire_attributes(\n        self,\n        dict_: _InstanceDict,\n        attribute_names: Iterable[str],\n",
        "    def _mark_all_loader_attributes_expired(self) -> None:\n        expired = self.expired_attributes\n        expired.update(impl.key for impl in self.manager._loader_impls)\n\n    def _expire_attributes(\n        self,\n        dict_: _InstanceDict,\n        attribute_names: Iterable[str],\n")), None)
R.mutant("benign-load-expired-aliases-and-inverted-gate", STATE,
         sub("        if not passive & SQL_OK:\n            return PASSIVE_NO_RESULT\n\n        toload = self.expired_attributes.intersection(self.unmodified)\n",
             "        expired = self.expired_attributes\n        if passive & SQL_OK:\n            pass\n        else:\n            return PASSIVE_NO_RESULT\n\n        toload = expired.intersection(self.unmodified)\n"), None)
R.mutant("benign-refresh-result-in-local", SESSION, chain(
    sub("        if (\n            loading._load_on_ident(\n                self,\n                stmt,\n                state.key,\n                refresh_state=state,\n",
        "        refreshed = loading._load_on_ident(\n                self,\n                stmt,\n                state.key,\n                refresh_state=state,\n"),
    sub("                is_user_refresh=True,\n            )\n            is None\n        ):\n            raise sa_exc.InvalidRequestError(\n                \"Could not refresh instance '%s'\" % instance_str(instance)\n            )\n",
        "                is_user_refresh=True,\n            )\n        if refreshed is not None:\n            return\n        raise sa_exc.InvalidRequestError(\n            \"Could not refresh instance '%s'\" % instance_str(instance)\n        )\n")), None)
R.mutant("benign-expire-state-early-return", SESSION,
         sub("        if attribute_names:\n            state._expire_attributes(state.dict, attribute_names)\n        else:\n            # pre-fetch the full cascade since the expire is going to\n            # remove associations\n            cascaded = list(\n                state.manager.mapper.cascade_iterator(\"refresh-expire\", state)\n            )\n            self._conditional_expire(state)\n            for o, m, st_, dct_ in cascaded:\n                self._conditional_expire(st_)\n",
             "        if attribute_names:\n            state._expire_attributes(state.dict, attribute_names)\n            return\n        # pre-fetch the full cascade since the expire is going to\n        # remove associations\n        cascaded = list(\n            state.manager.mapper.cascade_iterator(\"refresh-expire\", state)\n        )\n        self._conditional_expire(state)\n        for o, m, st_, dct_ in cascaded:\n            self._conditional_expire(st_)\n"), None)
# the loop form of the registration must still cover every loader impl
R.mutant("expire-registration-loop-skips-some", STATE,
         sub("        self.expired_attributes.update(\n            [impl.key for impl in self.manager._loader_impls]\n        )\n",
             "        for impl in self.manager._loader_impls:\n            if impl.key in dict_:\n                self.expired_attributes.add(impl.key)\n"), "C46-R1")
R.mutant("refresh-result-in-local-missing-row-silent", SESSION, chain(
    sub("        if (\n            loading._load_on_ident(\n                self,\n                stmt,\n                state.key,\n                refresh_state=state,\n",
        "        refreshed = loading._load_on_ident(\n                self,\n                stmt,\n                state.key,\n                refresh_state=state,\n"),
    sub("                is_user_refresh=True,\n            )\n            is None\n        ):\n            raise sa_exc.InvalidRequestError(\n                \"Could not refresh instance '%s'\" % instance_str(instance)\n            )\n",
        "                is_user_refresh=True,\n            )\n        if refreshed is not None and state.expired:\n            raise sa_exc.InvalidRequestError(\n                \"Could not refresh instance '%s'\" % instance_str(instance)\n            )\n")), "C46-R4")

# ---- round-2 seeds (str2-s): C46_1 = populate_existing keeps a stale deferred value (pop moved under the flag); C46_2 = a failed un-expire load clears expired_attributes (finally)
_LE_OLD = ("        self.manager.expired_attribute_loader(self, toload, passive)\n\n        # if the loader failed, or this\n        # instance state didn't have an identity,\n"
           "        # the attributes still might be in the callables\n        # dict.  ensure they are removed.\n        self.expired_attributes.clear()\n")
R.mutant("load-expired-clears-in-finally", STATE,
         sub(_LE_OLD, "        try:\n            self.manager.expired_attribute_loader(self, toload, passive)\n        finally:\n            self.expired_attributes.clear()\n"), "C46-R5")
R.mutant("load-expired-clears-in-except-and-reraises", STATE,
         sub(_LE_OLD, "        try:\n            self.manager.expired_attribute_loader(self, toload, passive)\n        except Exception:\n            self.expired_attributes.clear()\n            raise\n        self.expired_attributes.clear()\n"), "C46-R5")
R.mutant("load-expired-swallows-failure-then-clears", STATE,
         sub(_LE_OLD, "        try:\n            self.manager.expired_attribute_loader(self, toload, passive)\n        except orm_exc.ObjectDeletedError:\n            pass\n        self.expired_attributes.clear()\n"), "C46-R5")
R.mutant("load-expired-cleanup-helper-called-from-finally", STATE, chain(
    sub(_LE_OLD, "        try:\n            self.manager.expired_attribute_loader(self, toload, passive)\n        finally:\n            self._unexpire_finished()\n"),
    sub("    @property\n    def unmodified(self) -> Set[str]:\n", "    def _unexpire_finished(self) -> None:\n        pending = self.expired_attributes\n        pending.clear()\n\n    @property\n    def unmodified(self) -> Set[str]:\n")), "C46-R5")
R.mutant("benign-load-expired-unrelated-finally-clear-after", STATE,
         sub(_LE_OLD, "        loading_now = len(toload)\n        try:\n            self.manager.expired_attribute_loader(self, toload, passive)\n        finally:\n            del loading_now\n\n        self.expired_attributes.clear()\n"), None)
R.mutant("benign-load-expired-clear-through-helper-on-normal-path", STATE, chain(
    sub(_LE_OLD, "        self.manager.expired_attribute_loader(self, toload, passive)\n        self._unexpire_finished()\n"),
    sub("    @property\n    def unmodified(self) -> Set[str]:\n", "    def _unexpire_finished(self) -> None:\n        pending = self.expired_attributes\n        pending.clear()\n\n    @property\n    def unmodified(self) -> Set[str]:\n")), None)
R.mutant("benign-load-expired-clear-in-try-else", STATE,
         sub(_LE_OLD, "        try:\n            self.manager.expired_attribute_loader(self, toload, passive)\n        except orm_exc.ObjectDeletedError:\n            raise\n        else:\n            self.expired_attributes.clear()\n"), None)
_PF_OLD = ("        if populate_existing:\n            for key, set_callable in populators[\"expire\"]:\n                dict_.pop(key, None)\n                if set_callable:\n                    state.expired_attributes.add(key)\n"
           "        else:\n            for key, set_callable in populators[\"expire\"]:\n                if set_callable:\n                    state.expired_attributes.add(key)\n")
R.mutant("populate-existing-keeps-unflagged-expire-keys", LOADING,
         sub(_PF_OLD, "        for key, set_callable in populators[\"expire\"]:\n            if set_callable:\n                if populate_existing:\n                    dict_.pop(key, None)\n                state.expired_attributes.add(key)\n"), "C46-R6")
R.mutant("populate-existing-quick-keeps-loaded-values", LOADING,
         sub("        state.runid = context.runid\n\n        for key, getter in populators[\"quick\"]:\n            dict_[key] = getter(row)\n", "        state.runid = context.runid\n\n        for key, getter in populators[\"quick\"]:\n            if key not in dict_:\n                dict_[key] = getter(row)\n"), "C46-R6")
R.mutant("populate-existing-skips-expire-group", LOADING,
         sub(_PF_OLD, "        if not populate_existing:\n            for key, set_callable in populators[\"expire\"]:\n                if set_callable:\n                    state.expired_attributes.add(key)\n"), "C46-R6")
R.mutant("populate-partial-pop-only-flagged", LOADING,
         sub("            if key in to_load:\n                dict_.pop(key, None)\n                if set_callable:\n                    state.expired_attributes.add(key)\n", "            if key in to_load and set_callable:\n                dict_.pop(key, None)\n                state.expired_attributes.add(key)\n"), "C46-R6")
R.mutant("populate-full-new-populators-only-for-absent-keys", LOADING,
         sub("        for key, populator in populators[\"new\"]:\n            populator(state, dict_, row)\n\n    elif load_path != state.load_path:", "        for key, populator in populators[\"new\"]:\n            if key not in dict_:\n                populator(state, dict_, row)\n\n    elif load_path != state.load_path:"), "C46-R6")
R.mutant("populate-full-flagged-keys-not-registered-on-overwrite", LOADING,
         sub(_PF_OLD, "        for key, set_callable in populators[\"expire\"]:\n            if populate_existing:\n                dict_.pop(key, None)\n            elif set_callable:\n                state.expired_attributes.add(key)\n"), "C46-R6")
R.mutant("benign-populate-full-expire-loops-merged", LOADING,
         sub(_PF_OLD, "        for key, set_callable in populators[\"expire\"]:\n            if populate_existing:\n                dict_.pop(key, None)\n            if set_callable:\n                state.expired_attributes.add(key)\n"), None)
R.mutant("benign-populate-full-expire-entry-helper", LOADING, chain(
    sub(_PF_OLD, "        for key, set_callable in populators[\"expire\"]:\n            _expire_entry(state, dict_, key, set_callable, populate_existing)\n"),
    sub("def _populate_full(\n", "def _expire_entry(state, dict_, key, set_callable, discard):\n    if discard:\n        dict_.pop(key, None)\n    if not set_callable:\n        return\n    state.expired_attributes.add(key)\n\n\ndef _populate_full(\n")), None)
R.mutant("benign-populate-full-inverted-and-del", LOADING,
         sub(_PF_OLD, "        overwrite = populate_existing\n        if not overwrite:\n            for key, set_callable in populators[\"expire\"]:\n                if set_callable:\n                    state.expired_attributes.add(key)\n"
                      "        else:\n            for attr_key, flag in populators[\"expire\"]:\n                if attr_key in dict_:\n                    del dict_[attr_key]\n                if not flag:\n                    continue\n                state.expired_attributes.add(attr_key)\n"), None)
R.mutant("benign-populate-partial-continue-style", LOADING,
         sub("            if key in to_load:\n                dict_.pop(key, None)\n                if set_callable:\n                    state.expired_attributes.add(key)\n", "            if key not in to_load:\n                continue\n            dict_.pop(key, None)\n            if set_callable:\n                state.expired_attributes.add(key)\n"), None)
_LE_HELPERS = ("    def _expired_to_load(self) -> Set[str]:\n        toload = self.expired_attributes.intersection(self.unmodified)\n        return toload.difference(\n            attr for attr in toload if not self.manager[attr].impl.load_on_unexpire\n        )\n\n"
               "    def _unexpire_finished(self) -> None:\n        pending = self.expired_attributes\n        pending.clear()\n\n    @property\n    def unmodified(self) -> Set[str]:\n")
_LE_BODY_OLD = ("        toload = self.expired_attributes.intersection(self.unmodified)\n        toload = toload.difference(\n            attr\n            for attr in toload\n            if not self.manager[attr].impl.load_on_unexpire\n        )\n\n" + _LE_OLD)
# _load_expired no longer mentions the set itself: both the seed set and the removal live in helpers (found through the caller's try statement)
R.mutant("load-expired-all-in-helpers-cleanup-from-finally", STATE, chain(
    sub(_LE_BODY_OLD, "        toload = self._expired_to_load()\n        try:\n            self.manager.expired_attribute_loader(self, toload, passive)\n        finally:\n            self._unexpire_finished()\n"),
    sub("    @property\n    def unmodified(self) -> Set[str]:\n", _LE_HELPERS)), "C46-R5")
R.mutant("benign-load-expired-all-in-helpers", STATE, chain(
    sub(_LE_BODY_OLD, "        toload = self._expired_to_load()\n        try:\n            self.manager.expired_attribute_loader(self, toload, passive)\n        except orm_exc.ObjectDeletedError:\n            raise\n        self._unexpire_finished()\n"),
    sub("    @property\n    def unmodified(self) -> Set[str]:\n", _LE_HELPERS)), None)
