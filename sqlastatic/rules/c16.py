"""C16 -- schema_translate_map renders the mapped schemas regardless of cache state (late binding)."""

from __future__ import annotations

import ast
import re

from ..astutil import (
    attr_stores, call_name, calls_in, const_str, dotted, enclosing_stmt, guard_atoms, lexical_guards,
    mutating_calls, name_stores, raised_name, subscript_stores, unparse, walk_local,
)
from ..report import Registry, chain, sub
from ._helpers_rules_b import OrderFlow, arg_for, call_sites, method_call_sites, ordinal_keys
from ._helpers_rob_e1 import expand, is_attr_chain, once_bound, resolve_name


def _x(fn, e):
    """`e` with the pure aliases of `fn` (`opts = self.execution_options`, once-bound names standing for a name or an
    attribute chain) replaced by what they stand for.  A copy: use it to classify, not to compare node identity."""
    node = getattr(fn, "node", fn)
    if e is None or not isinstance(node, (ast.FunctionDef, ast.AsyncFunctionDef)):
        return e
    defs = once_bound(node)
    if not defs or not any(isinstance(n, ast.Name) and n.id in defs for n in ast.walk(e)):
        return e
    return expand(e, defs, pred=is_attr_chain)

R = Registry(
    "C16",
    title="schema_translate_map renders the mapped schemas regardless of cache state",
    decides=(
        "late binding: at every execution-time use of IdentifierPreparer._render_schema_translates in the "
        "package the map argument comes from the execution_options of the executing context (a compiled "
        "statement's own schema_translate_map is used only as a boolean gate); the compiled-cache key carries a "
        "predicate of the map that is the same predicate (truthiness today) under which Compiled.__init__ renders "
        "placeholders, and every later gate at a substitution site is implied by it; every Connection entry point "
        "that creates an execution context hands it the merge of connection-level and per-execution options and "
        "compiles with the map read from that same merged object, every statement compiled for execution inside "
        "Connection / ExecutionContext receives the executing options' map, the context stores exactly the options "
        "it was given; the preparer returned by _with_schema_translate renders a symbolic "
        "placeholder from the object's own schema name and never reads map values, placeholder format / "
        "substitution regex / None-alias token agree, a None-key mismatch raises; no function on the path "
        "mutates the caller's map; in compiler / preparer / type-compiler / DDL-visitor classes every branch outcome under "
        "which a schema name is quoted or looked up, and every schema name rendered or handed on, derives from "
        "schema_for_object(obj) (the translated schema), never from the object's raw .schema attribute (R6)."
    ),
    not_decided="the SQL emitted for arbitrary statements / DDL and its effect per schema on a backend; whether the options "
                "of the executed element itself (statement.execution_options()) take part in the merge (true for DDL and "
                "clause elements today, not for DefaultGenerator; not demanded); cache keys other than "
                "ClauseElement._compile_w_cache (see C02).",
)

COMP = "sql/compiler.py"
DEF = "engine/default.py"
PREP = f"{COMP}::IdentifierPreparer"
RST = "_render_schema_translates"
OPT = "schema_translate_map"

# (construct key) -> reason.  Confirmed by reading.
R1_EXCEPTIONS = {
    f"{COMP}::Compiled.__init__:render": (
        "compile-time rendering for display (render_schema_translate=True): the map given to compile() IS the "
        "map to show; the flag is checked separately to be unused by the execution path"
    ),
}


def _is_exec_option_read(e: ast.AST, merged_only: bool = False) -> bool:
    """`X.execution_options.get("schema_translate_map", ...)` / `X.execution_options["schema_translate_map"]`
    (also `_execution_options`, or a bare `exec_opts`/`execution_options` name).  `merged_only`: do not accept
    `X._execution_options` -- the options of ONE level (a connection's, a statement's), not those of the execution."""
    if isinstance(e, ast.Call) and isinstance(e.func, ast.Attribute) and e.func.attr == "get" and e.args:
        recv = e.func.value
        key = const_str(e.args[0])
    elif isinstance(e, ast.Subscript):
        recv = e.value
        key = const_str(e.slice)
    else:
        return False
    if key != OPT:
        return False
    d = dotted(recv) or ""
    last = d.rsplit(".", 1)[-1]
    if merged_only:
        return last in ("execution_options", "exec_opts")
    return last in ("execution_options", "_execution_options", "exec_opts")


class MapSource:
    """Classify where a schema-translate map expression comes from."""

    def __init__(self, ctx):
        self.ctx = ctx
        self.of = OrderFlow(ctx)

    def classify(self, e, fn, at, depth=0):
        """set of ('exec-options'|'compiled-map'|'param:<name>'|'none'|'empty'|'unknown:<txt>')"""
        if depth > 6:
            return {"unknown:depth"}
        ex = _x(fn, e) if isinstance(e, (ast.Call, ast.Subscript)) else e
        if _is_exec_option_read(ex, merged_only=True):
            return {"exec-options"}
        if _is_exec_option_read(ex):
            return {"single-level-options"}
        if isinstance(e, ast.Constant) and e.value is None:
            return {"none"}
        if isinstance(e, ast.Dict) and not e.keys:
            return {"empty"}
        if isinstance(e, ast.Attribute) and e.attr == OPT:
            return {"compiled-map"}
        if isinstance(e, ast.Attribute) and e.attr == "_" + OPT:
            # Connection._schema_translate_map property: reads the CONNECTION's options only, not the merge with
            # the statement's and the per-execution options that the executing context holds
            return {"single-level-options"}
        if isinstance(e, ast.Name):
            binds, entry = self.of.reaching(e.id, fn, at)
            out = set()
            if entry and e.id in fn.params:
                out.add(f"param:{e.id}")
            elif entry and not binds and fn.parent_func is not None:
                return self.classify(e, fn.parent_func, None, depth + 1)
            for v, st in binds:
                if v is None:
                    out.add(f"unknown:{unparse(st)[:40]}")
                else:
                    out |= self.classify(v, fn, st, depth + 1)
            return out or {f"unknown:{e.id}"}
        if isinstance(e, ast.IfExp):
            return self.classify(e.body, fn, at, depth + 1) | self.classify(e.orelse, fn, at, depth + 1)
        return {f"unknown:{unparse(e)[:50]}"}


def _rst_sites(ctx):
    """[(function, map expression, statement, how)] for every use of `_render_schema_translates`."""
    target = ctx.func(f"{PREP}.{RST}")
    map_param = [p for p in target.params if p != "self"][1]
    out = []
    for m in ctx.index.all_modules():
        if RST not in m.source:
            continue
        pm = m.parents()
        for f in ctx.index.all_functions(m):
            if f is target:
                continue
            for n in walk_local(f.node, into_nested=True):
                if not (isinstance(n, ast.Attribute) and n.attr == RST and isinstance(n.ctx, ast.Load)):
                    continue
                par = pm.get(n)
                st = enclosing_stmt(pm, n)
                if isinstance(par, ast.Call) and par.func is n:
                    a = arg_for(par, target, map_param)
                    out.append((f, a, st, "call", par))
                elif isinstance(par, ast.Assign) and len(par.targets) == 1 and isinstance(par.targets[0], ast.Name) and par.value is n:
                    alias = par.targets[0].id
                    used = [c for c in calls_in(f.node, into_nested=True) if isinstance(c.func, ast.Name) and c.func.id == alias]
                    ctx.require(used, f"{f.key}: alias `{alias}` of {RST} is never called")
                    for c in used:
                        out.append((f, arg_for(c, target, map_param), enclosing_stmt(pm, c), "alias", c))
                elif isinstance(par, ast.Call) and (call_name(par) or "").rsplit(".", 1)[-1] == "partial" and par.args and par.args[0] is n:
                    a = None
                    for k in par.keywords:
                        if k.arg == map_param:
                            a = k.value
                    if a is None and len(par.args) >= 3:
                        a = par.args[2]
                    out.append((f, a, st, "partial", par))
                else:
                    ctx.error(f"{f.key}: use of {RST} not understood: `{unparse(st)[:80]}`")
    out.sort(key=lambda s: (s[0].module.relpath, s[4].lineno, s[4].col_offset))
    return out, target


@R.rule("C16-R1", floor=8, template="T-FLOW",
        desc="every execution-time use of _render_schema_translates takes its map from the executing context's "
             "execution_options (followed through parameters to the callers); a compiled statement's own "
             "schema_translate_map is only a boolean gate")
def r1(ctx):
    ms = MapSource(ctx)
    sites, target = _rst_sites(ctx)
    ctx.require(sites, f"no use of {RST} found")
    seen = set()

    def judge(key, f, expr, st, loc, depth):
        ctx.functions_analysed.add(f.key)
        if key in R1_EXCEPTIONS:
            # the exemption is conditional: lexically gated by the render_schema_translate parameter
            pm = f.module.parents()
            atoms = guard_atoms(lexical_guards(pm, st, stop=f.node))
            ctx.require(("render_schema_translate", True) in atoms,
                        f"{key}: exempted site is no longer gated by `render_schema_translate`")
            ctx.ok(key, "exempt: " + R1_EXCEPTIONS[key], nontrivial=False)
            return
        ctx.require(expr is not None, f"{key}: map argument not found")
        src = ms.classify(expr, f, st)
        unknown = sorted(s for s in src if s.startswith("unknown"))
        if "compiled-map" in src:
            ctx.violation(key, f"`{unparse(expr)}` -- the map stored on the COMPILED statement at compile time -- is used "
                               f"to render the schema placeholders at execution; with a shared compiled cache a later "
                               f"execution under a different map is rendered with the first map", loc)
            # a map parameter that is ignored here is still checked at the callers
            params = [OPT] if OPT in f.params else []
            if not params:
                return
        else:
            if unknown:
                ctx.error(f"{key}: cannot trace the map `{unparse(expr)}`: {unknown}")
            params = sorted(s.split(":", 1)[1] for s in src if s.startswith("param:"))
        if params and depth < 3:
            callers = call_sites(ctx.index, f) if f.cls is None else method_call_sites(ctx.index, f)
            ctx.require(callers, f"{key}: map is parameter `{params[0]}` of {f.qualname} but no caller was found")
            if "compiled-map" not in src:
                ctx.ok(key, f"`{unparse(expr)}`: parameter, followed to {len(callers)} caller(s)", nontrivial=False)
            for (cf, cc), (ckey, _) in zip(callers, ordinal_keys(callers, lambda fc: f"{fc[0].key}:{f.name}({params[0]})")):
                if id(cc) in seen:
                    continue
                seen.add(id(cc))
                a = arg_for(cc, f, params[0])
                pm2 = cf.module.parents()
                judge(ckey, cf, a, enclosing_stmt(pm2, cc), f"{cf.module.path}:{cc.lineno}", depth + 1)
            return
        ctx.check(src <= {"exec-options", "none", "empty"} and "exec-options" in src, key,
                  f"map `{unparse(expr)}` does not come from the executing context's execution_options: {sorted(src)}",
                  f"`{unparse(expr)}` <- execution_options[{OPT!r}]", loc)

    for (f, expr, st, how, node), (key, _) in zip(sites, ordinal_keys(sites, lambda s: f"{s[0].key}:render")):
        judge(key, f, expr, st, f"{f.module.path}:{node.lineno}", 0)

    # the compile-time rendering flag is not used by the execution path
    users = []
    for m in ctx.index.all_modules():
        if "render_schema_translate" not in m.source or m.relpath.startswith("testing/"):
            continue
        for f in ctx.index.all_functions(m):
            for c in calls_in(f.node, into_nested=True):
                for k in c.keywords:
                    if k.arg == "render_schema_translate":
                        users.append(f"{f.key}")
    ctx.check(not users, f"{COMP}::Compiled.__init__:render_schema_translate-unused-at-execution",
              f"render_schema_translate= (compile-time substitution of the map) is passed by library code: {users}",
              "no caller outside testing/ passes render_schema_translate", None)


# ---------------------------------------------------------------------- predicates of a map value
def _pred_of_map(e, is_map):
    """Classify a boolean-valued expression as a predicate of ONE map value.
    -> ('truthy'|'not-none', positive: bool) | None (not a recognised predicate of a map)."""
    if is_map(e):
        return ("truthy", True)
    if isinstance(e, ast.Call) and isinstance(e.func, ast.Name) and e.func.id == "bool" and len(e.args) == 1 and not e.keywords:
        return _pred_of_map(e.args[0], is_map)
    if isinstance(e, ast.UnaryOp) and isinstance(e.op, ast.Not):
        r = _pred_of_map(e.operand, is_map)
        return None if r is None else (r[0], not r[1])
    if isinstance(e, ast.IfExp) and all(isinstance(x, ast.Constant) and isinstance(x.value, bool) for x in (e.body, e.orelse)) \
            and e.body.value != e.orelse.value:
        r = _pred_of_map(e.test, is_map)
        return None if r is None else (r[0], r[1] if e.body.value else not r[1])
    if isinstance(e, ast.Compare) and len(e.ops) == 1:
        l, op, r_ = e.left, e.ops[0], e.comparators[0]
        if is_map(r_) and isinstance(l, ast.Constant):
            l, r_ = r_, l
            op = {ast.Lt: ast.Gt, ast.Gt: ast.Lt, ast.LtE: ast.GtE, ast.GtE: ast.LtE}.get(type(op), type(op))()
        if is_map(l) and isinstance(r_, ast.Constant) and r_.value is None:
            if isinstance(op, (ast.IsNot, ast.NotEq)):
                return ("not-none", True)
            if isinstance(op, (ast.Is, ast.Eq)):
                return ("not-none", False)
        if isinstance(l, ast.Call) and isinstance(l.func, ast.Name) and l.func.id == "len" and len(l.args) == 1 and is_map(l.args[0]) \
                and isinstance(r_, ast.Constant) and isinstance(r_.value, int):
            k = r_.value
            if (isinstance(op, ast.Gt) and k == 0) or (isinstance(op, ast.NotEq) and k == 0) or (isinstance(op, ast.GtE) and k == 1):
                return ("truthy", True)
            if (isinstance(op, ast.Eq) and k == 0) or (isinstance(op, ast.Lt) and k == 1) or (isinstance(op, ast.LtE) and k == 0):
                return ("truthy", False)
    return None


def _guard_atoms_nodes(test, pol):
    """[(atom expr, polarity)] of a guard: `a and b` taken / `a or b` not taken split into their operands,
    `not` flips; anything else is one atom."""
    if isinstance(test, ast.UnaryOp) and isinstance(test.op, ast.Not):
        return _guard_atoms_nodes(test.operand, not pol)
    if isinstance(test, ast.BoolOp) and ((isinstance(test.op, ast.And) and pol) or (isinstance(test.op, ast.Or) and not pol)):
        out = []
        for v in test.values:
            out += _guard_atoms_nodes(v, pol)
        return out
    return [(test, pol)]


def _map_gates(ctx, f, node, is_map, what):
    """Predicates of a map value among the lexical guards of `node` in `f`: [(class, guard text)].
    A guard that mentions a map value but is not a recognised predicate of it is an unknown idiom."""
    pm = f.module.parents()
    out = []
    defs = once_bound(f.node) if isinstance(f.node, (ast.FunctionDef, ast.AsyncFunctionDef)) else {}
    for test, pol in lexical_guards(pm, node, stop=f.node):
        # a boolean snapshot / alias used as the guard (`has_map = bool(compiled.schema_translate_map); if has_map:`)
        # stands for its value; names that ARE map values stay as they are
        keep = {n.id for n in ast.walk(test) if isinstance(n, ast.Name) and is_map(n)}
        if defs and any(isinstance(n, ast.Name) and n.id in defs and n.id not in keep for n in ast.walk(test)):
            test = expand(test, defs, keep=keep)
        for atom, apol in _guard_atoms_nodes(test, pol):
            if not any(is_map(x) for x in ast.walk(atom)):
                continue
            if isinstance(atom, ast.Compare) and len(atom.ops) == 1 and isinstance(atom.ops[0], (ast.In, ast.NotIn)) \
                    and not is_map(atom.left) and is_map(atom.comparators[0]):
                continue  # key membership (`None in map`), not a gate on the map as a whole
            r = _pred_of_map(atom, is_map)
            ctx.require(r is not None, f"{f.key}: {what}: guard `{unparse(atom)}` on the map is not a recognised predicate "
                                       f"(truthiness / is-None / len)")
            cls, positive = r
            ctx.require(positive == apol, f"{f.key}: {what} runs when the map is ABSENT (`{unparse(atom)}` is {apol})")
            out.append((cls, unparse(atom)))
    return out


def _conj(gates):
    """conjunction of predicates of one map: `m is not None and m` is truthiness."""
    cls = "truthy" if any(c == "truthy" for c, _ in gates) else "not-none"
    return cls, " and ".join(dict.fromkeys(t for _, t in gates))


# G (compile-time gate) ==> P (later gate on the stored / executing map) for every map with the same key component
_IMPLIES = {("truthy", "truthy"), ("truthy", "not-none"), ("not-none", "not-none")}
_MEANING = {"truthy": "non-empty map", "not-none": "any map, including an empty one", "full": "the map itself"}


@R.rule("C16-R2", floor=8, template="T-TABLE/T-SIBLING",
        desc="ClauseElement._compile_w_cache hands the map to the compiler and its cache key carries a predicate of that "
             "map which is the SAME predicate Compiled.__init__ uses to decide whether placeholders are rendered; every "
             "later gate on the compiled / executing map at a placeholder-substitution site is implied by that predicate")
def r2(ctx):
    f = ctx.func("sql/elements.py::ClauseElement._compile_w_cache")
    # the key: name K with `cache[K] = ...` and `cache.get(K)`
    stores = [(d, s) for d, s, st in subscript_stores(f.node) if isinstance(s.slice, ast.Name)]
    ctx.require(stores, "_compile_w_cache: no `cache[key] = compiled` store")
    keyname = stores[0][1].slice.id
    cache = stores[0][0]
    gets = [c for c in calls_in(f.node) if call_name(c) == f"{cache}.get" and c.args and isinstance(c.args[0], ast.Name) and c.args[0].id == keyname]
    ctx.require(gets, "_compile_w_cache: cache lookup does not use the same key as the store")
    tuples = [v for n, v, st in name_stores(f.node) if n == keyname and isinstance(v, ast.Tuple)]
    ctx.require(len(tuples) == 1, "_compile_w_cache: key is not one tuple display")
    # the map handed to the compiler
    comp_calls = [c for c in calls_in(f.node) if (call_name(c) or "").endswith("._compiler")]
    ctx.require(comp_calls, "_compile_w_cache: no self._compiler(...) call")
    passed = set()
    for c in comp_calls:
        kv = [k.value for k in c.keywords if k.arg == OPT]
        ctx.check(len(kv) == 1 and isinstance(kv[0], ast.Name), f"{f.key}:compiler-receives-map" + ("" if len(comp_calls) == 1 else f"#{comp_calls.index(c) + 1}"),
                  f"self._compiler() is not given {OPT}= (placeholders would never be rendered)",
                  f"{OPT}={unparse(kv[0]) if kv else '?'}", f"{f.module.path}:{c.lineno}")
        if kv and isinstance(kv[0], ast.Name):
            passed.add(kv[0].id)

    # (1) the compile-time gate G: under which predicate of its map parameter does Compiled.__init__ store the map
    #     and switch to the placeholder-rendering preparer
    ci = ctx.func(f"{COMP}::Compiled.__init__")
    ctx.require(OPT in ci.params, f"{ci.key} has no `{OPT}` parameter")
    ctx.functions_analysed.add(ci.key)
    is_param = lambda x: isinstance(x, ast.Name) and x.id == OPT
    store_sts = [st for t, node, st in attr_stores(ci.node) if t == f"self.{OPT}" and isinstance(st, ast.Assign) and is_param(st.value)]
    swap_calls = [c for c in calls_in(ci.node) if (call_name(c) or "").endswith("._with_schema_translate") and c.args and is_param(c.args[0])]
    ctx.require(len(store_sts) == 1 and len(swap_calls) == 1,
                f"{ci.key}: expected one `self.{OPT} = {OPT}` and one `_with_schema_translate({OPT})`")
    g_store = _map_gates(ctx, ci, store_sts[0], is_param, f"the store of self.{OPT}")
    g_swap = _map_gates(ctx, ci, swap_calls[0], is_param, "the switch to the placeholder preparer")
    ctx.require(g_swap, f"{ci.key}: the switch to the placeholder preparer is not under any predicate of the map")
    G, gtxt = _conj(g_swap)
    # whenever placeholders are rendered the map must also be stored (the execution-time gates read the stored attribute)
    ctx.check(not g_store or (G, _conj(g_store)[0]) in _IMPLIES, f"{ci.key}:placeholder-gate",
              f"the placeholder preparer is installed under `{gtxt}` ('{G}') but `self.{OPT}` is stored only under "
              f"`{_conj(g_store)[1] if g_store else ''}`: for a map that passes the first test only, placeholders are rendered while the "
              f"execution-time gates (which read the stored attribute) see no map and never substitute them",
              f"placeholder preparer installed under `{gtxt}` ('{G}': {_MEANING[G]}); map stored "
              + (f"under `{_conj(g_store)[1]}`" if g_store else "unconditionally"), ci.loc)

    # (2) the key component K: a function of the map from which G can be recomputed
    comps = []
    for e in tuples[0].elts:
        v = e
        if isinstance(e, ast.Name) and e.id not in passed:
            b = [val for n, val, st in name_stores(f.node) if n == e.id]
            if len(b) == 1 and b[0] is not None:
                v = b[0]
        if any(isinstance(x, ast.Name) and x.id in passed for x in ast.walk(v)):
            comps.append((e, v))
    key = f"{f.key}:key-component-decides-placeholder-gate"
    if not (passed and len(comps) == 1):
        ctx.check(False, key,
                  f"cache key {[unparse(e) for e in tuples[0].elts]} has {len(comps)} component(s) computed from the map given to the "
                  f"compiler ({'/'.join(sorted(passed)) or '?'}): a statement compiled without placeholders would be served to an "
                  f"execution that has a map (or vice versa)", "", f.loc)
    else:
        e, v = comps[0]
        is_passed = lambda x: isinstance(x, ast.Name) and x.id in passed
        if is_passed(v):
            K = ("full", True)
        else:
            K = _pred_of_map(v, is_passed)
            ctx.require(K is not None, f"{f.key}: key component `{unparse(v)}` is not a recognised predicate of the map")
        ctx.check(K[0] in ("full", G), key,
                  f"the key component `{unparse(v)}` distinguishes maps by '{K[0]}' ({_MEANING[K[0]]}) but {ci.qualname} renders "
                  f"placeholders under `{gtxt}` ('{G}': {_MEANING[G]}): an empty map and a non-empty map then share one cache slot "
                  f"although only one of them compiles with placeholders -- the statement cached first is served to the other and is "
                  f"executed with untranslated (or unsubstituted) schema names",
                  f"key component `{unparse(v)}` ('{K[0]}') == compile-time gate `{gtxt}` in {ci.qualname}", f.loc)

    # (3) later gates P at the substitution sites: G(map) must imply P(map)
    sites, target = _rst_sites(ctx)
    ms = MapSource(ctx)
    seen_fn = {}
    for fn, expr, st, how, node in sites:
        names = _map_names(fn, ms)
        is_m = lambda x, names=names: (isinstance(x, ast.Attribute) and x.attr == OPT) or (isinstance(x, ast.Name) and x.id in names)
        gates = []
        # guards of the use itself and of every statement that binds an alias / partial of the renderer
        for n in walk_local(fn.node, into_nested=True):
            if isinstance(n, ast.Attribute) and n.attr == RST and isinstance(n.ctx, ast.Load):
                gates += _map_gates(ctx, fn, n, is_m, "placeholder substitution")
        gates += _map_gates(ctx, fn, node, is_m, "placeholder substitution")
        if fn.key in seen_fn:
            continue
        seen_fn[fn.key] = True
        gates = sorted(set(gates))
        if not gates:
            continue
        ctx.functions_analysed.add(fn.key)
        P, ptxt = _conj(gates)
        bad = [(P, ptxt)] if (G, P) not in _IMPLIES else []
        ctx.check(not bad, f"{fn.key}:substitution-gate",
                  f"placeholders are rendered at compile time under '{G}' (`{gtxt}`) but substituted here only under {bad}: a statement "
                  f"compiled with placeholders for a map that fails this test is sent to the database with `__[SCHEMA_..]` tokens",
                  f"gate(s) {[t for _, t in gates]} implied by the compile-time gate '{G}'", fn.loc)


def _const_strings(node):
    return [n.value for n in ast.walk(node) if isinstance(n, ast.Constant) and isinstance(n.value, str)]


@R.rule("C16-R3", floor=6, template="T-FLOW/T-TABLE",
        desc="_with_schema_translate: map used for key membership only, the installed schema_for_object renders a "
             "placeholder from the object's own schema; placeholder format, substitution regex and None alias "
             "agree with _render_schema_translates, which raises on a None-key mismatch")
def r3(ctx):
    w = ctx.func(f"{PREP}._with_schema_translate")
    r = ctx.func(f"{PREP}.{RST}")
    mp = [p for p in w.params if p != "self"][0]
    # (a) every use of the map in _with_schema_translate is `<k> in map`
    uses = [n for n in ast.walk(w.node) if isinstance(n, ast.Name) and n.id == mp and isinstance(n.ctx, ast.Load)]
    pm = w.module.parents()
    bad = []
    for u in uses:
        par = pm.get(u)
        if isinstance(par, ast.Compare) and len(par.ops) == 1 and isinstance(par.ops[0], (ast.In, ast.NotIn)) and par.comparators[0] is u:
            continue
        bad.append(unparse(enclosing_stmt(pm, u))[:70])
    ctx.check(not bad and uses, f"{w.key}:map-keys-only",
              f"_with_schema_translate reads more than key membership of the map (the cached SQL would depend on map values): {bad}",
              f"{len(uses)} use(s), all `key in {mp}`", w.loc)
    # (b) the installed getter
    inst = [(t, v) for t, node, st in attr_stores(w.node) if t.endswith(".schema_for_object")
            for v in [st.value if isinstance(st, ast.Assign) else None]]
    ctx.require(len(inst) == 1 and isinstance(inst[0][1], ast.Name), "_with_schema_translate does not install schema_for_object = <local function>")
    getter = None
    for n in walk_local(w.node):
        if isinstance(n, ast.FunctionDef) and n.name == inst[0][1].id:
            getter = n
    ctx.require(getter is not None, "installed schema_for_object is not a nested function")
    obj = getter.args.args[0].arg
    reads_map = any(isinstance(n, ast.Name) and n.id == mp for n in ast.walk(getter))
    fmts = [s for s in _const_strings(getter) if "%s" in s and "SCHEMA" in s]
    # the placeholder is formatted from the object's own schema
    from_obj = False
    for n in ast.walk(getter):
        if isinstance(n, ast.BinOp) and isinstance(n.op, ast.Mod) and const_str(n.left) in fmts:
            # every value formatted into the placeholder is `obj.schema` (directly or through a once-bound local)
            gdefs = {k: v for k, v in once_bound(getter).items() if dotted(v) == f"{obj}.schema"}
            right = expand(n.right, gdefs)
            pmr_ = {c: p_ for p_ in ast.walk(right) for c in ast.iter_child_nodes(p_)}
            names = [x for x in ast.walk(right) if isinstance(x, ast.Name)]
            from_obj = bool(names) and all(
                x.id == obj and isinstance(pmr_.get(x), ast.Attribute) and pmr_[x].attr == "schema" for x in names)
    rets = [x for x in ast.walk(getter) if isinstance(x, ast.Return) and x.value is not None]
    other_rets = [unparse(x.value) for x in rets if not (isinstance(x.value, ast.Call) or dotted(x.value) == f"{obj}.schema")]
    ctx.check(not reads_map and len(fmts) == 1 and from_obj and not other_rets, f"{w.key}:placeholder-from-own-schema",
              f"schema_for_object of the translating preparer does not render a placeholder from `{obj}.schema` alone "
              f"(reads map: {reads_map}; formats: {fmts}; from obj.schema: {from_obj}; other returns: {other_rets})",
              f"placeholder {fmts[0] if fmts else '?'} % ({obj}.schema or alias)", w.loc)
    # (c) format / regex / alias agreement
    alias_w = sorted({n.values[-1].value for n in ast.walk(getter)
                      if isinstance(n, ast.BoolOp) and isinstance(n.op, ast.Or) and isinstance(n.values[-1], ast.Constant)
                      and isinstance(n.values[-1].value, str)})
    pats = []
    for c in calls_in(r.node, into_nested=True):
        if call_name(c) in ("re.sub", "re.compile") and c.args and const_str(c.args[0]):
            pats.append(const_str(c.args[0]))
    ctx.require(len(pats) == 1, f"substitution regex of {RST} not found ({pats})")
    if not (len(fmts) == 1 and len(alias_w) == 1):
        for a in (":regex-matches-placeholder-format", ":none-alias-token-agrees", ":none-key-gained-raises", ":none-key-lost-raises"):
            ctx.violation(r.key + a, f"cannot be established: the translating preparer renders no single placeholder format / "
                                     f"None alias (formats {fmts}, aliases {alias_w})", w.loc)
        return
    rx = re.compile(pats[0])
    grp = None
    # which group does the replace callback read as the name?
    for fn_ in ast.walk(r.node):
        if isinstance(fn_, ast.FunctionDef) and fn_ is not r.node:
            for c in calls_in(fn_):
                if (call_name(c) or "").endswith(".group") and c.args and isinstance(c.args[0], ast.Constant):
                    grp = c.args[0].value
    ctx.require(grp is not None, "replace callback does not read a regex group")
    samples = ["a", "per_tenant", "Some Schema", alias_w[0], "x.y", "a%b"]
    agree = True
    why = ""
    for s_ in samples:
        text = "select * from " + (fmts[0] % s_) + ".t"
        ms_ = list(rx.finditer(text))
        if len(ms_) != 1 or ms_[0].group(0) != fmts[0] % s_ or ms_[0].group(grp) != s_:
            agree = False
            why = f"placeholder {fmts[0] % s_!r} is not recovered by /{pats[0]}/ group {grp}"
    ctx.check(agree, f"{r.key}:regex-matches-placeholder-format",
              f"placeholder format and substitution regex disagree: {why}",
              f"/{pats[0]}/ group {grp} inverts {fmts[0]!r} on {len(samples)} samples", r.loc)
    alias_r = sorted({const_str(s.slice) for d, s, st in subscript_stores(r.node) if const_str(s.slice)}
                     | {e.value for n in ast.walk(r.node) if isinstance(n, ast.Compare) for cmp in n.comparators if isinstance(cmp, (ast.Tuple, ast.List, ast.Set))
                        for e in cmp.elts if isinstance(e, ast.Constant) and isinstance(e.value, str)})
    ctx.check(alias_r == alias_w, f"{r.key}:none-alias-token-agrees",
              f"None-schema alias differs: _with_schema_translate renders {alias_w}, {RST} looks for {alias_r}",
              f"alias {alias_w[0]!r} on both sides", r.loc)
    # (d) None-key mismatch raises, both directions
    flag = None
    wdefs = once_bound(w.node)
    for t, node, st in attr_stores(w.node):
        if isinstance(st, ast.Assign):
            v2 = resolve_name(st.value, wdefs)      # `includes_none = None in map; prep.flag = includes_none` or stored directly
            if isinstance(v2, ast.Compare) and any(isinstance(x, ast.Name) and x.id == mp for x in ast.walk(v2)) \
                    and any(isinstance(x, ast.Constant) and x.value is None for x in ast.walk(v2)):
                flag = t.rsplit(".", 1)[-1]
    ctx.require(flag is not None, "_with_schema_translate does not record whether None is a key")
    pmr = r.module.parents()
    mpr = [p for p in r.params if p != "self"][1]
    aliases = {mpr} | {n for n, v, st in name_stores(r.node)
                       if isinstance(v, (ast.Name, ast.Call, ast.Dict))
                       and any(isinstance(a, ast.Name) and a.id == mpr for a in ast.walk(v))}
    gained = lost = False
    for rz in [n for n in walk_local(r.node, into_nested=True) if isinstance(n, ast.Raise)]:
        if not (raised_name(rz) or "").endswith("InvalidRequestError"):
            continue
        guards_ = lexical_guards(pmr, rz, stop=r.node)
        rdefs = once_bound(r.node)
        # boolean snapshots used as guards (`none_is_key = None in d`) stand for their value
        guards_ = [(expand(t, rdefs, keep=aliases) if any(isinstance(x, ast.Name) and x.id in rdefs and x.id not in aliases
                                                          for x in ast.walk(t)) else t, p_) for t, p_ in guards_]
        atoms = guard_atoms(guards_)
        if any((f"None in {a}", True) in atoms for a in aliases) and (f"self.{flag}", False) in atoms:
            gained = True
        if any(pol is False and re.fullmatch(r"\w+ in (%s)" % "|".join(map(re.escape, aliases)), txt) for txt, pol in atoms) \
                and any(pol is True and alias_w[0] in txt for txt, pol in atoms):
            lost = True
    ctx.check(gained, f"{r.key}:none-key-gained-raises",
              "a map that gained a None key after compilation is not rejected (placeholders for schema-less tables were never rendered)",
              f"raises InvalidRequestError when `None in map` and not self.{flag}", r.loc)
    ctx.check(lost, f"{r.key}:none-key-lost-raises",
              "a map that lost its None key is not rejected when a None placeholder is met",
              "raises InvalidRequestError for an unmapped None placeholder", r.loc)


FRESH_CALLS = {"dict", "copy", "immutabledict", "deepcopy", "union", "merge_with"}


def _map_names(f, ms: MapSource):
    """Local names of `f` that may hold a caller's schema-translate map: parameters named after the
    option, names bound from an execution-options read, and plain aliases of those."""
    names = {p for p in f.params if p == OPT}
    changed = True
    while changed:
        changed = False
        for n, v, st in name_stores(f.node, into_nested=True):
            if v is None or n in names:
                continue
            if _is_exec_option_read(_x(f, v) if isinstance(v, (ast.Call, ast.Subscript)) else v) or (isinstance(v, ast.Name) and v.id in names) \
                    or (isinstance(v, ast.Attribute) and v.attr == OPT):
                names.add(n)
                changed = True
    return names


def _fresh(v) -> bool:
    if isinstance(v, ast.Dict):
        return True
    if isinstance(v, ast.DictComp):
        return True
    if isinstance(v, ast.Call):
        nm = (call_name(v) or "")
        if nm.rsplit(".", 1)[-1] in FRESH_CALLS:
            return True
    return False


@R.rule("C16-R4", floor=13, template="T-FRESH",
        desc="no function on the compile/execute path mutates the schema_translate_map object it was given "
             "(item stores, del, update/pop/setdefault/clear, |=) unless the name was rebound to a copy")
def r4(ctx):
    ms = MapSource(ctx)
    funcs = {}
    sites, target = _rst_sites(ctx)
    for f, *_ in sites:
        funcs[f.key] = f
    for k in (f"{PREP}.{RST}", f"{PREP}._with_schema_translate", f"{COMP}::Compiled.__init__",
              "sql/elements.py::ClauseElement._compile_w_cache", "engine/base.py::Connection.schema_for_object",
              "engine/base.py::Connection._execute_clauseelement", "engine/base.py::Connection._execute_ddl",
              f"{DEF}::DefaultExecutionContext.identifier_preparer"):
        funcs[k] = ctx.func(k)
    for key in sorted(funcs):
        f = funcs[key]
        names = _map_names(f, ms)
        if not names:
            ctx.ok(key + ":map-not-mutated", "holds no reference to the map", nontrivial=False)
            continue
        muts = []
        for d, s, st in subscript_stores(f.node, into_nested=True):
            if d in names:
                muts.append((d, st))
        for d, meth, c in mutating_calls(f.node, into_nested=True):
            if d in names and meth in ("update", "pop", "popitem", "setdefault", "clear", "__setitem__", "__delitem__"):
                muts.append((d, enclosing_stmt(f.module.parents(), c)))
        for n in walk_local(f.node, into_nested=True):
            if isinstance(n, ast.AugAssign) and isinstance(n.target, ast.Name) and n.target.id in names:
                muts.append((n.target.id, n))
        bad = []
        for d, st in muts:
            # allowed only if every binding of d that reaches st is a fresh copy
            binds, entry = ms.of.reaching(d, f, st) if not _in_nested(f, st) else ([(v, s2) for n2, v, s2 in name_stores(f.node) if n2 == d], d in f.params)
            fresh = bool(binds) and all(v is not None and _fresh(v) for v, _ in binds) and not (entry and d in f.params)
            if not fresh:
                bad.append(f"`{unparse(st)[:60]}` (line {st.lineno})")
        ctx.check(not bad, key + ":map-not-mutated",
                  f"mutates the schema_translate_map object received from the caller: {'; '.join(bad)} -- the user's dict "
                  f"(shared with later executions and other connections) is changed as a side effect of executing",
                  f"map names {sorted(names)}: {len(muts)} mutation(s), all on fresh copies" if muts else f"map names {sorted(names)}: read only",
                  f.loc)


def _in_nested(f, st) -> bool:
    pm = f.module.parents()
    cur = pm.get(st)
    while cur is not None and cur is not f.node:
        if isinstance(cur, (ast.FunctionDef, ast.AsyncFunctionDef, ast.Lambda)):
            return True
        cur = pm.get(cur)
    return False


# ---------------------------------------------------------------------- R5: one options object per execution
BASE = "engine/base.py"
CONN = f"{BASE}::Connection"
DCTX = f"{DEF}::DefaultExecutionContext"
COMPILE_CALLS = ("compile", "_compile_w_cache", "_compiler")


def _opt_read_receiver(e):
    """`R.get("schema_translate_map"[, d])` / `R["schema_translate_map"]` -> dotted text of R, else None."""
    if isinstance(e, ast.Call) and isinstance(e.func, ast.Attribute) and e.func.attr == "get" and e.args and const_str(e.args[0]) == OPT:
        return dotted(e.func.value) or unparse(e.func.value)
    if isinstance(e, ast.Subscript) and const_str(e.slice) == OPT:
        return dotted(e.value) or unparse(e.value)
    return None


def _map_receivers(of, e, fn, at, depth=0):
    """Where a map expression is read from: set of 'opts:<receiver>' | 'none' | 'other:<text>' (names are
    followed through the bindings that reach `at`)."""
    r = _opt_read_receiver(_x(fn, e) if isinstance(e, (ast.Call, ast.Subscript)) else e)
    if r is not None:
        return {"opts:" + r}
    if isinstance(e, ast.Constant) and e.value is None:
        return {"none"}
    if isinstance(e, ast.IfExp):
        return _map_receivers(of, e.body, fn, at, depth + 1) | _map_receivers(of, e.orelse, fn, at, depth + 1)
    if isinstance(e, ast.Name) and depth < 6:
        binds, entry = of.reaching(e.id, fn, at)
        out = set()
        if entry and (e.id in fn.params or not binds):
            out.add(f"other:parameter/free name {e.id}")
        for v, st in binds:
            out |= {f"other:{unparse(st)[:50]}"} if v is None else _map_receivers(of, v, fn, st, depth + 1)
        return out
    # one level of helper: `self.<property>` / `self.<method>(args)` whose single return value is an option read
    callee, args = None, []
    if isinstance(e, ast.Attribute) and dotted(e.value) == "self" and fn.cls is not None:
        callee = of.ctx.index.resolve_method(fn.cls, e.attr)
        if callee is not None and not any(d.endswith("property") for d in callee.decorators):
            callee = None
    elif isinstance(e, ast.Call) and isinstance(e.func, ast.Attribute) and dotted(e.func.value) == "self" and fn.cls is not None:
        callee = of.ctx.index.resolve_method(fn.cls, e.func.attr)
        args = e.args
    if callee is not None and depth < 6:
        rets = [r.value for r in ast.walk(callee.node) if isinstance(r, ast.Return) and r.value is not None]
        if len(rets) == 1:
            inner = _map_receivers(of, rets[0], callee, None, depth + 1)
            ps = [p for p in callee.params if p != "self"]
            out = set()
            for x in inner:
                nm = x.split(":", 1)[1]
                if x.startswith("opts:") and nm in ps and ps.index(nm) < len(args):
                    out.add("opts:" + (dotted(args[ps.index(nm)]) or unparse(args[ps.index(nm)])))
                elif x.startswith("opts:self."):
                    out.add(x)
                elif x == "none":
                    out.add(x)
                else:
                    out.add(f"other:{unparse(e)[:40]} -> {nm[:40]}")
            return out
    return {"other:" + unparse(e)[:60]}


def _compile_sites(f):
    """calls `<x>.compile(..., dialect=...)` / `<x>._compile_w_cache(...)` / `<x>._compiler(...)` in f:
    a statement is compiled here in order to be executed by this connection / context."""
    out = []
    for c in calls_in(f.node, into_nested=True):
        if not isinstance(c.func, ast.Attribute) or c.func.attr not in COMPILE_CALLS:
            continue
        if dotted(c.func.value) == "re":
            continue
        if c.func.attr == "compile" and not any(k.arg == "dialect" for k in c.keywords) and not c.args:
            continue  # str()/repr() style compile against the default dialect: not for execution
        out.append(c)
    return out


@R.rule("C16-R5", floor=12, template="T-SIBLING/T-FLOW",
        desc="one options object per execution: every Connection entry point that creates an execution context hands it "
             "the merge of connection-level and per-execution options, reads the map it compiles with from that SAME "
             "merged object, and every statement compiled for execution inside Connection / ExecutionContext receives "
             "schema_translate_map= from the executing options; the context stores exactly the options it was given")
def r5(ctx):
    of = OrderFlow(ctx)
    conn = ctx.index.cls(CONN)
    dctx = ctx.index.cls(DCTX)
    ectx = ctx.func(f"{CONN}._execute_context")
    ctx.functions_analysed.add(ectx.key)

    # (a) the context constructors named by the connection, and what each does with its options parameter
    init_names = set()
    for f in conn.methods.values():
        for n in ast.walk(f.node):
            if isinstance(n, ast.Attribute) and isinstance(n.value, ast.Attribute) and n.value.attr == "execution_ctx_cls":
                init_names.add(n.attr)
    ctx.require(init_names, f"{CONN}: no use of dialect.execution_ctx_cls.<constructor>")
    opt_pos = None
    for nm in sorted(init_names):
        ini = ctx.method(DCTX, nm)
        ctx.functions_analysed.add(ini.key)
        params = [p for p in ini.params if p not in ("self", "cls")]
        ctx.require("execution_options" in params, f"{ini.key}: no `execution_options` parameter")
        pos = params.index("execution_options")
        ctx.require(opt_pos in (None, pos), f"{ini.key}: options parameter at position {pos}, siblings have it at {opt_pos}")
        opt_pos = pos
        stores = [st for t, node, st in attr_stores(ini.node) if t.endswith(".execution_options") and t.count(".") == 1]
        idefs = once_bound(ini.node)
        good = [st for st in stores if isinstance(st, ast.Assign) and isinstance(resolve_name(st.value, idefs), ast.Name)
                and resolve_name(st.value, idefs).id == "execution_options"
                and not [1 for n2, v2, s2 in name_stores(ini.node) if n2 == "execution_options"]]
        ctx.check(stores and len(good) == len(stores), f"{ini.key}:stores-given-options",
                  f"the context does not keep exactly the options object it was constructed with "
                  f"({[unparse(s)[:60] for s in stores] or 'no store of self.execution_options'}): every execution-time read of "
                  f"execution_options['{OPT}'] would see different options than the ones the statement was compiled under",
                  "self.execution_options = execution_options (the parameter, never rebound)", ini.loc)

    # (b) _execute_context forwards its options parameter to the constructor at that position
    ctor_param = [p for p in ectx.params if p != "self"][1]
    ctor_calls = [c for c in calls_in(ectx.node) if isinstance(c.func, ast.Name) and c.func.id == ctor_param]
    ctx.require(len(ctor_calls) == 1, f"{ectx.key}: expected one call of the `{ctor_param}` parameter")
    a = ctor_calls[0].args[opt_pos] if len(ctor_calls[0].args) > opt_pos else None
    okfwd = False
    if isinstance(a, ast.Name) and a.id in ectx.params:
        # rebinding is allowed only to an extension of itself: X = X.union(...) / X.merge_with(...)
        rebinds = [v for n2, v, st in name_stores(ectx.node) if n2 == a.id]
        okfwd = all(isinstance(v, ast.Call) and isinstance(v.func, ast.Attribute) and v.func.attr in ("union", "merge_with")
                    and dotted(v.func.value) == a.id for v in rebinds)
    ctx.check(okfwd, f"{ectx.key}:constructor-receives-options",
              f"the context constructor is given `{unparse(a) if a is not None else '?'}` instead of the caller's merged options (or an extension of them)",
              f"constructor(..., {unparse(a) if a is not None else '?'}, ...) = the `{a.id if isinstance(a, ast.Name) else '?'}` parameter (extended by union only)",
              ectx.loc)
    ectx_opt_param = a.id if okfwd else ("execution_options" if "execution_options" in ectx.params else None)
    ctx.require(ectx_opt_param is not None, f"{ectx.key}: no options parameter")

    # (c) the entry points: methods of Connection that create a context
    entries = []
    for name, f in sorted(conn.methods.items()):
        if f is ectx:
            continue
        handed = []
        for c in calls_in(f.node):
            nm = call_name(c) or ""
            if nm == f"self.{ectx.name}" and ectx_opt_param:
                handed.append(arg_for(c, ectx, ectx_opt_param))
            elif isinstance(c.func, ast.Attribute) and c.func.attr in init_names and isinstance(c.func.value, ast.Attribute) \
                    and c.func.value.attr == "execution_ctx_cls":
                handed.append(c.args[opt_pos] if len(c.args) > opt_pos else None)
        if handed:
            entries.append((f, handed))
    ctx.require(entries, f"{CONN}: no method creates an execution context")
    for f, handed in entries:
        ctx.functions_analysed.add(f.key)
        ctx.require(all(isinstance(h, ast.Name) for h in handed) and len({h.id for h in handed}) == 1,
                    f"{f.key}: options handed to the context are not one local name: {[unparse(h) if h is not None else None for h in handed]}")
        oname = handed[0].id
        # (c1) that name is the merge of the connection's options and the per-execution options
        binds = [(v, st) for n2, v, st in name_stores(f.node) if n2 == oname]
        per_exec = [p for p in f.params if p == "execution_options"]
        ctx.require(per_exec, f"{f.key}: no `execution_options` parameter")
        bad = []
        for v, st in binds:
            operands = set()
            v = _x(f, v)      # `conn_opts = self._execution_options; exec_opts = conn_opts.merge_with(execution_options)`
            if isinstance(v, ast.Call) and isinstance(v.func, ast.Attribute) and v.func.attr in ("merge_with", "union"):
                operands = {dotted(v.func.value)} | {dotted(x) for x in v.args}
            if not ({"self._execution_options", per_exec[0]} <= operands):
                bad.append(unparse(st)[:90])
        ctx.check(binds and not bad, f"{f.key}:context-options-merged",
                  f"`{oname}`, the options the execution context works with, is not the merge of the connection's options and the "
                  f"per-execution options: {bad or 'parameter passed through'} -- a {OPT} given on one of these levels is ignored",
                  f"{oname} = merge of {sorted(operands) if binds else '?'}", f.loc)
        # (c2) every compilation in the entry point receives the map, read from that same object
        for c, (key, _) in zip(_compile_sites(f), ordinal_keys(_compile_sites(f), lambda c: f"{f.key}:compile-map")):
            _judge_compile(ctx, of, f, c, key, {f"opts:{oname}"}, f"`{oname}` (the options handed to the execution context)")

    # (d) statements compiled inside an execution context (pre-executed defaults etc.)
    seen = set()
    for cls in [dctx] + ctx.index.subclasses(dctx):
        for name, f in sorted(cls.methods.items()):
            if f.key in seen:
                continue
            seen.add(f.key)
            cs = _compile_sites(f)
            if cs:
                ctx.functions_analysed.add(f.key)
            for c, (key, _) in zip(cs, ordinal_keys(cs, lambda c: f"{f.key}:compile-map")):
                _judge_compile(ctx, of, f, c, key, {"opts:self.execution_options"}, "`self.execution_options` of the executing context")


def _judge_compile(ctx, of, f, c, key, want, want_txt):
    loc = f"{f.module.path}:{c.lineno}"
    kv = [k.value for k in c.keywords if k.arg == OPT]
    what = f"`{unparse(c.func)}(...)`"
    if not kv:
        ctx.violation(key, f"{what} compiles a statement for execution without {OPT}=: no schema placeholders are rendered, so the "
                           f"executing context's map cannot be applied and the SQL names the untranslated schemas", loc)
        return
    pm = f.module.parents()
    src = _map_receivers(of, kv[0], f, enclosing_stmt(pm, c))
    ctx.check(src <= (want | {"none"}) and src & want, key,
              f"{what} is compiled with {OPT}=`{unparse(kv[0])}` read from {sorted(src)}, not from {want_txt}: placeholders are "
              f"rendered (or not) according to one set of options and substituted at execution according to another, so a map "
              f"given per execution / per statement is ignored or half applied",
              f"{OPT}=`{unparse(kv[0])}` <- {sorted(src)}", loc)


# ---------------------------------------------------------------------- self-test battery
R.mutant("init-compiled-uses-compiled-map", DEF,
         sub("        if compiled.schema_translate_map:\n            schema_translate_map = self.execution_options.get(\n                \"schema_translate_map\", {}\n            )\n            rst = compiled.preparer._render_schema_translates\n",
             "        if compiled.schema_translate_map:\n            schema_translate_map = compiled.schema_translate_map\n            rst = compiled.preparer._render_schema_translates\n"), "C16-R1")
R.mutant("init-ddl-uses-compiled-map", DEF,
         sub("            self.unicode_statement = rst(\n                self.unicode_statement, schema_translate_map\n            )\n\n        self.statement = self.unicode_statement\n\n        self.cursor = self.create_cursor()\n        self.compiled_parameters = []",
             "            self.unicode_statement = rst(\n                self.unicode_statement, compiled.schema_translate_map\n            )\n\n        self.statement = self.unicode_statement\n\n        self.cursor = self.create_cursor()\n        self.compiled_parameters = []"), "C16-R1")
R.mutant("insertmanyvalues-passes-compiled-map", DEF,
         sub("        if compiled.schema_translate_map:\n            schema_translate_map = context.execution_options.get(\n                \"schema_translate_map\", {}\n            )\n        else:\n            schema_translate_map = None\n",
             "        if compiled.schema_translate_map:\n            schema_translate_map = compiled.schema_translate_map\n        else:\n            schema_translate_map = None\n"), "C16-R1")
R.mutant("compiler-batches-ignore-argument", COMP,
         sub("                self.preparer._render_schema_translates,\n                schema_translate_map=schema_translate_map,",
             "                self.preparer._render_schema_translates,\n                schema_translate_map=self.schema_translate_map,"), "C16-R1")
R.mutant("engine-passes-render-flag", "engine/base.py",
         sub("        compiled = ddl.compile(\n            dialect=dialect, schema_translate_map=schema_translate_map\n        )",
             "        compiled = ddl.compile(\n            dialect=dialect, schema_translate_map=schema_translate_map,\n            render_schema_translate=True,\n        )"), "C16-R1")
R.mutant("cache-key-without-map-flag", "sql/elements.py",
         sub("                tuple(column_keys),\n                bool(schema_translate_map),\n                for_executemany,", "                tuple(column_keys),\n                for_executemany,"), "C16-R2")
# seeded C16/1: the key component and the compile-time gate are different predicates of the map
R.mutant("cache-key-map-is-not-none", "sql/elements.py",
         sub("                bool(schema_translate_map),\n", "                schema_translate_map is not None,\n"), "C16-R2")
R.mutant("cached-compile-without-map", "sql/elements.py",
         sub("                    for_executemany=for_executemany,\n                    schema_translate_map=schema_translate_map,\n                    **kw,\n                )\n                # ensure that params",
             "                    for_executemany=for_executemany,\n                    **kw,\n                )\n                # ensure that params"), "C16-R2")
R.mutant("placeholder-renders-map-value", COMP,
         sub("                return quoted_name(\n                    \"__[SCHEMA_%s]\" % (name or \"_none\"), quote=False\n                )",
             "                return quoted_name(\n                    schema_translate_map.get(name, name), quote=False\n                )"), "C16-R3")
R.mutant("placeholder-format-changed", COMP,
         sub("                    \"__[SCHEMA_%s]\" % (name or \"_none\"), quote=False", "                    \"__[SCHEMA:%s]\" % (name or \"_none\"), quote=False"), "C16-R3")
R.mutant("none-alias-changed-one-side", COMP,
         sub("                    \"__[SCHEMA_%s]\" % (name or \"_none\"), quote=False", "                    \"__[SCHEMA_%s]\" % (name or \"_null\"), quote=False"), "C16-R3")
R.mutant("none-gained-not-rejected", COMP,
         sub("            if not self._includes_none_schema_translate:\n                raise exc.InvalidRequestError(", "            if self._includes_none_schema_translate is None:\n                raise exc.InvalidRequestError("), "C16-R3")
R.mutant("none-lost-falls-back-silently", COMP,
         sub("                if name in (None, \"_none\"):\n                    raise exc.InvalidRequestError(", "                if name in (None,):\n                    raise exc.InvalidRequestError("), "C16-R3")
R.mutant("with-translate-reads-values", COMP,
         sub("        includes_none = None in schema_translate_map\n", "        includes_none = schema_translate_map.get(None) is not None\n"), "C16-R3")
R.mutant("init-compiled-defaults-into-map", DEF,
         sub("            rst = compiled.preparer._render_schema_translates\n            self.unicode_statement = rst(\n                self.unicode_statement, schema_translate_map\n            )\n\n        # final self.unicode_statement",
             "            schema_translate_map.setdefault(\"\", None)\n            rst = compiled.preparer._render_schema_translates\n            self.unicode_statement = rst(\n                self.unicode_statement, schema_translate_map\n            )\n\n        # final self.unicode_statement"), "C16-R4")
R.mutant("compiled-init-normalises-in-place", COMP,
         sub("        if schema_translate_map:\n            self.schema_translate_map = schema_translate_map\n",
             "        if schema_translate_map:\n            schema_translate_map.pop(\"\", None)\n            self.schema_translate_map = schema_translate_map\n"), "C16-R4")
R.mutant("connection-schema-for-object-caches-in-map", "engine/base.py",
         sub("            return schema_translate_map[name]\n        else:\n            return name",
             "            return schema_translate_map[name]\n        else:\n            if schema_translate_map is not None:\n                schema_translate_map[name] = name\n            return name"), "C16-R4")
_GATE_BLOCK = ("        if schema_translate_map:\n            self.schema_translate_map = schema_translate_map\n"
               "            self.preparer = self.preparer._with_schema_translate(\n                schema_translate_map\n            )\n")
R.mutant("compiled-gate-is-not-none", COMP,
         sub(_GATE_BLOCK, _GATE_BLOCK.replace("if schema_translate_map:", "if schema_translate_map is not None:")), "C16-R2")
R.mutant("compiled-renders-for-empty-map-but-stores-nonempty", COMP,
         sub(_GATE_BLOCK,
             "        if schema_translate_map:\n            self.schema_translate_map = schema_translate_map\n"
             "        if schema_translate_map is not None:\n"
             "            self.preparer = self.preparer._with_schema_translate(\n                schema_translate_map\n            )\n"), "C16-R2")
R.mutant("render-aliases-callers-map", COMP,
         sub("        d = dict(schema_translate_map)\n        if None in d:", "        d = schema_translate_map\n        if None in d:"), "C16-R4")
R.mutant("init-compiled-uses-connection-level-map", DEF,
         sub("        if compiled.schema_translate_map:\n            schema_translate_map = self.execution_options.get(\n                \"schema_translate_map\", {}\n            )\n            rst = compiled.preparer._render_schema_translates\n",
             "        if compiled.schema_translate_map:\n            schema_translate_map = connection._schema_translate_map\n            rst = compiled.preparer._render_schema_translates\n"), "C16-R1")
# seeded C16/2: DDL compiled with the connection-level map only
R.mutant("ddl-compile-map-from-connection-property", "engine/base.py",
         sub("        schema_translate_map = exec_opts.get(\"schema_translate_map\", None)\n\n        dialect = self.dialect\n\n        compiled = ddl.compile(",
             "        schema_translate_map = self._schema_translate_map\n\n        dialect = self.dialect\n\n        compiled = ddl.compile("), "C16-R5")
R.mutant("clauseelement-compile-map-from-connection-options", "engine/base.py",
         sub("        schema_translate_map = exec_opts.get(\"schema_translate_map\", None)\n\n        compiled_cache:",
             "        schema_translate_map = self._execution_options.get(\n            \"schema_translate_map\", None\n        )\n\n        compiled_cache:"), "C16-R5")
R.mutant("ddl-compile-without-map", "engine/base.py",
         sub("        compiled = ddl.compile(\n            dialect=dialect, schema_translate_map=schema_translate_map\n        )",
             "        compiled = ddl.compile(dialect=dialect)"), "C16-R5")
R.mutant("ddl-options-drop-per-execution", "engine/base.py",
         sub("        exec_opts = ddl._execution_options.merge_with(\n            self._execution_options, execution_options\n        )",
             "        exec_opts = ddl._execution_options.merge_with(\n            self._execution_options\n        )"), "C16-R5")
R.mutant("entry-points-use-connection-options-only", "engine/base.py",
         sub("        exec_opts = self._execution_options.merge_with(execution_options)\n", "        exec_opts = self._execution_options\n", count=2), "C16-R5")
R.mutant("execute-context-hands-connection-options", "engine/base.py",
         sub("            context = constructor(\n                dialect, self, conn, execution_options, *args, **kw\n            )",
             "            context = constructor(\n                dialect, self, conn, self._execution_options, *args, **kw\n            )"), "C16-R5")
R.mutant("ddl-context-keeps-connection-options", DEF,
         sub("        self.execution_options = execution_options\n\n        self.unicode_statement = str(compiled)\n        if compiled.schema_translate_map:",
             "        self.execution_options = connection._execution_options\n\n        self.unicode_statement = str(compiled)\n        if compiled.schema_translate_map:"), "C16-R5")
# benign
R.mutant("benign-key-ternary", "sql/elements.py",
         sub("                bool(schema_translate_map),\n", "                True if schema_translate_map else False,\n"), None)
R.mutant("benign-key-via-local", "sql/elements.py",
         chain(sub("                bool(schema_translate_map),\n", "                has_map,\n"),
               sub("            key = (\n                dialect,\n", "            has_map = not not schema_translate_map\n            key = (\n                dialect,\n")), None)
R.mutant("benign-compiled-stores-map-unconditionally", COMP,
         sub(_GATE_BLOCK,
             "        self.schema_translate_map = schema_translate_map\n        if schema_translate_map:\n"
             "            self.preparer = self.preparer._with_schema_translate(\n                schema_translate_map\n            )\n"), None)
R.mutant("benign-compiled-gate-explicit", COMP,
         sub(_GATE_BLOCK, _GATE_BLOCK.replace("if schema_translate_map:", "if schema_translate_map is not None and len(schema_translate_map) > 0:")), None)
R.mutant("benign-ddl-inline-option-read", "engine/base.py",
         sub("        compiled = ddl.compile(\n            dialect=dialect, schema_translate_map=schema_translate_map\n        )",
             "        compiled = ddl.compile(\n            dialect=dialect,\n            schema_translate_map=exec_opts.get(\"schema_translate_map\"),\n        )"), None)
R.mutant("benign-ddl-map-through-helper", "engine/base.py",
         chain(sub("        schema_translate_map = exec_opts.get(\"schema_translate_map\", None)\n\n        dialect = self.dialect\n\n        compiled = ddl.compile(",
                   "        schema_translate_map = self._map_of(exec_opts)\n\n        dialect = self.dialect\n\n        compiled = ddl.compile("),
               sub("    def _execute_ddl(\n", "    def _map_of(self, opts):\n        return opts.get(\"schema_translate_map\", None)\n\n    def _execute_ddl(\n")), None)
R.mutant("benign-rename-merged-options-local", "engine/base.py", lambda src: src.replace("exec_opts", "merged_opts"), None)
R.mutant("benign-rename-local-map", DEF,
         sub("            rst = self.identifier_preparer._render_schema_translates\n            stmt = rst(stmt, schema_translate_map)",
             "            render = self.identifier_preparer._render_schema_translates\n            stmt = render(stmt, schema_translate_map)"), None)
R.mutant("benign-direct-call", DEF,
         sub("            rst = self.identifier_preparer._render_schema_translates\n            stmt = rst(stmt, schema_translate_map)",
             "            stmt = self.identifier_preparer._render_schema_translates(\n                stmt, schema_translate_map\n            )"), None)
R.mutant("benign-subscript-option", DEF,
         sub("            schema_translate_map = self.execution_options.get(\n                \"schema_translate_map\", {}\n            )\n\n            rst = self.identifier_preparer",
             "            schema_translate_map = self.execution_options[\n                \"schema_translate_map\"\n            ]\n\n            rst = self.identifier_preparer"), None)
R.mutant("benign-render-copies-map-differently", COMP,
         sub("        d = dict(schema_translate_map)\n        if None in d:", "        d = {**schema_translate_map}\n        if None in d:"), None)

# ---- rob-E1: benign families (stored refactors rfE_7..9 are silent; further variants of the same spirit)
_DDL_RENDER = ("        self.unicode_statement = str(compiled)\n        if compiled.schema_translate_map:\n"
               "            schema_translate_map = self.execution_options.get(\n                \"schema_translate_map\", {}\n            )\n\n"
               "            rst = compiled.preparer._render_schema_translates\n")
R.mutant("benign-e1-ddl-options-alias", DEF,
         sub(_DDL_RENDER, "        self.unicode_statement = str(compiled)\n        opts = self.execution_options\n        if compiled.schema_translate_map:\n"
                          "            schema_translate_map = opts.get(\"schema_translate_map\", {})\n\n"
                          "            rst = compiled.preparer._render_schema_translates\n"), None)
R.mutant("benign-e1-ddl-gate-boolean-local", DEF,
         sub(_DDL_RENDER, "        self.unicode_statement = str(compiled)\n        has_translate_map = bool(compiled.schema_translate_map)\n"
                          "        if has_translate_map:\n"
                          "            schema_translate_map = self.execution_options.get(\n                \"schema_translate_map\", {}\n            )\n\n"
                          "            rst = compiled.preparer._render_schema_translates\n"), None)
R.mutant("ddl-options-alias-of-connection-options", DEF,
         sub(_DDL_RENDER, "        self.unicode_statement = str(compiled)\n        opts = connection._execution_options\n        if compiled.schema_translate_map:\n"
                          "            schema_translate_map = opts.get(\"schema_translate_map\", {})\n\n"
                          "            rst = compiled.preparer._render_schema_translates\n"), "C16-R1")
R.mutant("benign-e1-ddl-context-stores-options-through-local", DEF,
         sub("        self.execution_options = execution_options\n\n        self.unicode_statement = str(compiled)\n        if compiled.schema_translate_map:",
             "        given_options = execution_options\n        self.execution_options = given_options\n\n        self.unicode_statement = str(compiled)\n        if compiled.schema_translate_map:"), None)
_DDL_MERGE = ("        exec_opts = ddl._execution_options.merge_with(\n            self._execution_options, execution_options\n        )")
R.mutant("benign-e1-ddl-merge-operands-through-aliases", "engine/base.py",
         sub(_DDL_MERGE, "        connection_options = self._execution_options\n        exec_opts = ddl._execution_options.merge_with(\n"
                         "            connection_options, execution_options\n        )"), None)
R.mutant("benign-e1-ddl-map-read-through-options-alias", "engine/base.py",
         sub("        schema_translate_map = exec_opts.get(\"schema_translate_map\", None)\n\n        dialect = self.dialect\n\n        compiled = ddl.compile(",
             "        merged = exec_opts\n        schema_translate_map = merged.get(\"schema_translate_map\", None)\n\n        dialect = self.dialect\n\n        compiled = ddl.compile("), None)
R.mutant("benign-e1-none-flag-stored-directly", COMP,
         chain(sub("        includes_none = None in schema_translate_map\n\n        def symbol_getter(obj):",
                   "        prep._includes_none_schema_translate = None in schema_translate_map\n\n        def symbol_getter(obj):"),
               sub("            if obj._use_schema_map and (name is not None or includes_none):",
                   "            if obj._use_schema_map and (\n                name is not None or prep._includes_none_schema_translate\n            ):"),
               sub("        prep.schema_for_object = symbol_getter\n        prep._includes_none_schema_translate = includes_none\n",
                   "        prep.schema_for_object = symbol_getter\n")), None)
R.mutant("benign-e1-placeholder-from-attribute", COMP,
         sub("                    \"__[SCHEMA_%s]\" % (name or \"_none\"), quote=False", "                    \"__[SCHEMA_%s]\" % (obj.schema or \"_none\"), quote=False"), None)
R.mutant("placeholder-from-other-attribute", COMP,
         sub("                    \"__[SCHEMA_%s]\" % (name or \"_none\"), quote=False", "                    \"__[SCHEMA_%s]\" % (obj.name or \"_none\"), quote=False"), "C16-R3")
R.mutant("benign-e1-render-none-check-boolean-local", COMP,
         sub("        d = dict(schema_translate_map)\n        if None in d:\n            if not self._includes_none_schema_translate:\n",
             "        d = dict(schema_translate_map)\n        none_is_key = None in d\n        compiled_with_none = self._includes_none_schema_translate\n"
             "        if none_is_key:\n            if not compiled_with_none:\n"), None)


# ---------------------------------------------------------------------- R6 (str2-g): decisions on the TRANSLATED schema
# Classes whose methods render or look up schema names for schema objects.  Inside them the only readers of an
# object's own `.schema` attribute are the `schema_for_object` implementations; everything else asks
# `schema_for_object(obj)` and decides / renders on its answer (IdentifierPreparer.format_table is the model).
R6_BASES = (f"{COMP}::Compiled", f"{COMP}::IdentifierPreparer", f"{COMP}::TypeCompiler", "sql/ddl.py::InvokeDDLBase")
XLAT = "schema_for_object"
QUOTE = "quote_schema"
_DIAG = ("warn", "warn_limited", "warn_deprecated", "debug", "info", "error", "warning")
_NEUTRAL_CALLS = ("bool", "isinstance", "len", "getattr", "hasattr", "str", "repr")


def _r6_getters(fnode):
    """function nodes inside `fnode` (itself included) that ARE schema_for_object implementations: named so, or a
    nested function stored into an attribute of that name"""
    out = set()
    if getattr(fnode, "name", None) == XLAT:
        out.add(fnode)
    installed = set()
    for n in ast.walk(fnode):
        if isinstance(n, ast.Assign) and isinstance(n.value, ast.Name) and any(
                isinstance(t, ast.Attribute) and t.attr == XLAT for t in n.targets):
            installed.add(n.value.id)
    for n in ast.walk(fnode):
        if isinstance(n, (ast.FunctionDef, ast.AsyncFunctionDef)) and (n.name in installed or n.name == XLAT):
            out.add(n)
    return out


def _r6_walk(node, skip):
    """ast.walk that does not enter the function nodes in `skip`"""
    stack = [node]
    while stack:
        n = stack.pop()
        if n in skip and n is not node:
            continue
        yield n
        stack.extend(ast.iter_child_nodes(n))


def _r6_locals(fnode):
    names = set()
    for n in ast.walk(fnode):
        if isinstance(n, ast.arg):
            names.add(n.arg)
        elif isinstance(n, ast.Name) and isinstance(n.ctx, ast.Store):
            names.add(n.id)
    return names


def _r6_root(e):
    depth = 0
    while True:
        if isinstance(e, (ast.Attribute, ast.Subscript, ast.Starred)):
            e = e.value
        elif isinstance(e, ast.Call):
            e = e.func
        else:
            break
        depth += 1
    return (e.id if isinstance(e, ast.Name) else None), depth


def _r6_raw_reads(fnode, skip):
    """expressions that read the untranslated schema name of an object held in a local: `<obj>.schema`,
    `getattr(<obj>, "schema"[, d])` (not `self.schema`: the visitor's own attribute; not module paths)"""
    local = _r6_locals(fnode)
    out = []
    for n in _r6_walk(fnode, skip):
        obj = None
        if isinstance(n, ast.Attribute) and n.attr == "schema" and isinstance(n.ctx, ast.Load):
            obj = n.value
        elif isinstance(n, ast.Call) and isinstance(n.func, ast.Name) and n.func.id == "getattr" and len(n.args) >= 2 \
                and const_str(n.args[1]) == "schema":
            obj = n.args[0]
        if obj is None:
            continue
        root, depth = _r6_root(obj)
        if root is None or root not in local or (root in ("self", "cls") and depth == 0):
            continue
        out.append(n)
    return out


def _r6_is_diag(pm, node):
    st = enclosing_stmt(pm, node)
    if isinstance(st, (ast.Raise, ast.Assert)):
        return True
    cur = pm.get(node)
    while cur is not None and cur is not st:
        if isinstance(cur, ast.Call) and (call_name(cur) or "").rsplit(".", 1)[-1] in _DIAG:
            return True
        cur = pm.get(cur)
    return False


def _r6_position(pm, node):
    """How the value of `node` is used inside its statement -> ('test'|'arg'|'text'|'value'|'bound', detail).
    'test': it only takes part in a truth value (if/while/ternary test, and/or/not/compare, bool());
    'arg': handed to a call as the schema NAME; 'text': concatenated / formatted; 'value': returned / stored on an object;
    'bound': assigned to local name(s) (detail = names)."""
    child, cur = node, pm.get(node)
    boolish = False
    while cur is not None and not isinstance(cur, ast.stmt):
        if isinstance(cur, ast.Compare) or (isinstance(cur, ast.UnaryOp) and isinstance(cur.op, ast.Not)):
            boolish = True
        elif isinstance(cur, ast.BoolOp):
            # `a and b` / `a or b`: the value may still be the name (x.schema or default); keep going
            pass
        elif isinstance(cur, ast.IfExp):
            if child is cur.test:
                return "test", None
        elif isinstance(cur, ast.comprehension) and any(child is t for t in cur.ifs):
            return "test", None
        elif isinstance(cur, ast.Call):
            nm = (call_name(cur) or "").rsplit(".", 1)[-1]
            if child is cur.func:
                pass
            elif nm in ("bool",):
                boolish = True
            elif nm in _NEUTRAL_CALLS:
                pass
            elif not boolish:
                return "arg", nm or unparse(cur.func)[:30]
        elif isinstance(cur, (ast.BinOp, ast.JoinedStr, ast.FormattedValue)) and not boolish:
            return "text", None
        child, cur = cur, pm.get(cur)
    st = cur
    if isinstance(st, (ast.If, ast.While)) and child is st.test:
        return "test", None
    if boolish:
        if isinstance(st, (ast.Assign, ast.AnnAssign)):
            tg = st.targets if isinstance(st, ast.Assign) else [st.target]
            return "bound-bool", [t.id for t in tg if isinstance(t, ast.Name)]
        if isinstance(st, ast.Return):
            return "returned-bool", None
        return "test", None
    if isinstance(st, (ast.Assign, ast.AnnAssign)):
        tg = st.targets if isinstance(st, ast.Assign) else [st.target]
        if all(isinstance(t, ast.Name) for t in tg):
            return "bound", [t.id for t in tg]
        return "value", None
    if isinstance(st, ast.Return):
        return "value", "returned"
    return "value", None


def _r6_render_calls(fnode, skip):
    return [n for n in _r6_walk(fnode, skip) if isinstance(n, ast.Call) and isinstance(n.func, ast.Attribute)
            and n.func.attr in (QUOTE, XLAT)]


def _r6_enclosing_func(pm, node, top):
    cur = pm.get(node)
    while cur is not None and cur is not top:
        if isinstance(cur, (ast.FunctionDef, ast.AsyncFunctionDef, ast.Lambda)):
            return cur
        cur = pm.get(cur)
    return top


def _r6_guards(ctx, f, pm, call):
    """every branch outcome under which `call` runs: dominating CFG outcomes of its statement (early returns, nested
    and inverted ifs alike) + ternaries / and-or operands / comprehension filters inside the statement"""
    from ._helpers_rob_e1 import cfg_guards, comp_guards
    owner = _r6_enclosing_func(pm, call, f.node)
    st = enclosing_stmt(pm, call)
    out = []
    if owner is f.node:
        out += cfg_guards(ctx.cfg(f), st)
    else:
        out += lexical_guards(pm, st, stop=owner)
    out += comp_guards(pm, call)
    return out


@R.rule("C16-R6", floor=21, template="T-SANITISER/T-SIBLING",
        desc="in compiler / preparer / type-compiler / DDL-visitor classes every decision whether to schema-qualify a name "
             "(a branch outcome under which quote_schema() / schema_for_object() runs) and every schema name handed on or "
             "rendered is a function of `schema_for_object(obj)`, the TRANSLATED schema -- never of the object's raw "
             "`.schema` attribute, which is None for a schema-less object although a map with the None key translates it "
             "(sibling model: IdentifierPreparer.format_table)")
def r6(ctx):
    ix = ctx.index
    fam = {}
    for b in R6_BASES:
        c = ix.cls(b)
        for k in [c] + ix.subclasses(c):
            if not k.module.relpath.startswith("testing/"):
                fam[k.key] = k
    n_render = 0
    for ckey in sorted(fam):
        cls = fam[ckey]
        for name, f in sorted(cls.methods.items()):
            if f.type_only or getattr(f, "is_overload", False) or not isinstance(f.node, (ast.FunctionDef, ast.AsyncFunctionDef)):
                continue
            if "schema" not in ast.dump(f.node):
                continue
            getters = _r6_getters(f.node)
            if f.node in getters:
                continue
            renders = _r6_render_calls(f.node, getters)
            raws = _r6_raw_reads(f.node, getters)
            if not renders and not raws:
                continue
            ctx.functions_analysed.add(f.key)
            pm = f.module.parents()
            key = f"{f.key}:schema-decided-on-translated-schema"
            raws = [r for r in raws if not _r6_is_diag(pm, r)]
            # taint: locals that carry the raw name / a truth value computed from it
            name_t, bool_t = {}, {}
            problems = []

            def use(node, origin, depth=0):
                kind, detail = _r6_position(pm, node)
                if kind in ("arg", "text", "value"):
                    how = {"arg": f"passed to `{detail}(...)`", "text": "formatted into the SQL text",
                           "value": "returned / stored as the schema name"}[kind]
                    problems.append((node.lineno, f"`{origin}` (the untranslated schema name) is {how}"))
                elif kind == "bound" and depth < 4:
                    for nm in detail:
                        if nm not in name_t:
                            name_t[nm] = origin
                            for u in _r6_walk(f.node, getters):
                                if isinstance(u, ast.Name) and u.id == nm and isinstance(u.ctx, ast.Load) and not _r6_is_diag(pm, u):
                                    use(u, origin, depth + 1)
                elif kind == "bound-bool":
                    for nm in detail:
                        bool_t.setdefault(nm, origin)

            for r in raws:
                use(r, unparse(r))
            # second-order truth values: `qualify = include_schema and has_schema`
            changed = True
            while changed:
                changed = False
                for n, v, st in name_stores(f.node, into_nested=True):
                    if v is not None and n not in bool_t and n not in name_t and any(
                            isinstance(x, ast.Name) and x.id in bool_t for x in ast.walk(v)):
                        bool_t[n] = bool_t[next(x.id for x in ast.walk(v) if isinstance(x, ast.Name) and x.id in bool_t)]
                        changed = True

            raw_ids = {id(r): unparse(r) for r in raws}

            def tainted_in(test):
                for x in ast.walk(test):
                    if id(x) in raw_ids:
                        return raw_ids[id(x)]
                    if isinstance(x, ast.Name) and isinstance(x.ctx, ast.Load) and (x.id in name_t or x.id in bool_t):
                        return name_t.get(x.id) or bool_t.get(x.id)
                return None

            def helper_raw(test):
                """a call of a method of the class / a function of the module inside the test whose body reads a raw schema"""
                for c in ast.walk(test):
                    if not isinstance(c, ast.Call):
                        continue
                    tgt = None
                    if isinstance(c.func, ast.Attribute) and isinstance(c.func.value, ast.Name) and c.func.value.id in ("self", "cls"):
                        tgt = ix.resolve_method(cls, c.func.attr)
                    elif isinstance(c.func, ast.Name):
                        tgt = f.module.functions.get(c.func.id)
                    if tgt is None or tgt.node is f.node or not isinstance(tgt.node, (ast.FunctionDef, ast.AsyncFunctionDef)):
                        continue
                    g2 = _r6_getters(tgt.node)
                    if tgt.node in g2:
                        continue
                    rr = [r for r in _r6_raw_reads(tgt.node, g2) if not _r6_is_diag(tgt.module.parents(), r)]
                    if rr:
                        return f"{unparse(rr[0])} in {tgt.qualname}()"
                return None

            seen_tests = set()
            for c in renders:
                for test, pol in _r6_guards(ctx, f, pm, c):
                    o = tainted_in(test) or helper_raw(test)
                    if o and (id(test), pol) not in seen_tests:
                        seen_tests.add((id(test), pol))
                        problems.append((c.lineno,
                                         f"`{unparse(c)[:60]}` runs only when `{unparse(test)[:70]}` is {pol}: whether the name is "
                                         f"schema-qualified is decided on `{o}`, the object's RAW schema"))
            if renders:
                n_render += 1
            if problems:
                problems = sorted(set(problems))
                ctx.violation(key, "; ".join(p for _, p in problems)
                              + " -- for a schema-less object under a schema_translate_map with the None key the raw attribute is None "
                                "while the translated schema is not (and the compiled SQL must not depend on which names the map assigns): "
                                f"decide and render on `{XLAT}(obj)` as IdentifierPreparer.format_table does",
                              f"{f.module.path}:{problems[0][0]}")
            elif renders:
                ctx.ok(key, f"{len(renders)} {QUOTE}/{XLAT} call(s); no guard or argument derives from a raw `.schema` read")
            else:
                ctx.ok(key, f"{len(raws)} raw `.schema` read(s) decide something other than schema qualification "
                            f"(no {QUOTE}/{XLAT} call is controlled by them, the name is not handed on)", nontrivial=False)
    ctx.require(n_render > 0, "no schema-rendering method found in the compiler / preparer / DDL-visitor classes")


# ---- R6 (str2-g): round-2 seed C16/2 (seeded/C16_4) and relatives
_IDX_BLOCK = ("        if index.table is not None:\n            effective_schema = self.preparer.schema_for_object(index.table)\n"
              "        else:\n            effective_schema = None\n"
              "        if include_schema and effective_schema:\n            schema_name = self.preparer.quote_schema(effective_schema)\n"
              "        else:\n            schema_name = None\n")
R.mutant("seed4-index-name-qualified-on-raw-table-schema", COMP,
         sub(_IDX_BLOCK,
             "        schema_name = None\n        if include_schema and index.table is not None and index.table.schema:\n"
             "            schema_name = self.preparer.quote_schema(\n                self.preparer.schema_for_object(index.table)\n            )\n"), "C16-R6")
R.mutant("r6-index-name-raw-schema-boolean-local", COMP,
         sub(_IDX_BLOCK,
             "        has_schema = index.table is not None and bool(index.table.schema)\n        qualify = include_schema and has_schema\n"
             "        schema_name = None\n        if qualify:\n"
             "            schema_name = self.preparer.quote_schema(\n                self.preparer.schema_for_object(index.table)\n            )\n"), "C16-R6")
R.mutant("r6-index-name-raw-schema-early-return", COMP,
         sub(_IDX_BLOCK,
             "        if index.table is None or not index.table.schema:\n            return self.preparer.format_index(index)\n"
             "        effective_schema = self.preparer.schema_for_object(index.table)\n"
             "        if include_schema and effective_schema:\n            schema_name = self.preparer.quote_schema(effective_schema)\n"
             "        else:\n            schema_name = None\n"), "C16-R6")
R.mutant("r6-index-name-raw-schema-through-helper", COMP,
         chain(sub(_IDX_BLOCK,
                   "        schema_name = None\n        if include_schema and self._index_has_schema(index):\n"
                   "            schema_name = self.preparer.quote_schema(\n                self.preparer.schema_for_object(index.table)\n            )\n"),
               sub("    def _prepared_index_name(\n",
                   "    def _index_has_schema(self, index):\n        return index.table is not None and index.table.schema is not None\n\n"
                   "    def _prepared_index_name(\n")), "C16-R6")
R.mutant("r6-format-table-gates-on-raw-schema", COMP,
         sub("        effective_schema = self.schema_for_object(table)\n\n        if not self.omit_schema and use_schema and effective_schema:\n            result = self.quote_schema(effective_schema) + \".\" + result\n",
             "        effective_schema = self.schema_for_object(table)\n\n        if (\n            not self.omit_schema\n            and use_schema\n            and getattr(table, \"schema\", None)\n        ):\n            result = self.quote_schema(effective_schema) + \".\" + result\n"), "C16-R6")
R.mutant("r6-format-sequence-renders-raw-schema", COMP,
         sub("        name = self.quote(sequence.name)\n\n        effective_schema = self.schema_for_object(sequence)\n",
             "        name = self.quote(sequence.name)\n\n        effective_schema = sequence.schema\n"), "C16-R6")
R.mutant("r6-checkfirst-looks-up-raw-schema", "sql/ddl.py",
         sub("    def _can_create_index(self, index):\n        effective_schema = self.connection.schema_for_object(index.table)\n",
             "    def _can_create_index(self, index):\n        effective_schema = index.table.schema\n"), "C16-R6")
R.mutant("r6-mssql-comment-schema-from-raw-attribute", "dialects/mssql/base.py",
         sub("        schema = self.preparer.schema_for_object(create.element)\n        schema_name = schema if schema else self.dialect.default_schema_name\n",
             "        schema = create.element.schema\n        schema_name = schema if schema else self.dialect.default_schema_name\n"), "C16-R6")
# benign relatives: the decision stays on the translated schema
R.mutant("benign-r6-index-schema-through-helper", COMP,
         chain(sub(_IDX_BLOCK,
                   "        effective_schema = self._index_schema(index)\n"
                   "        if include_schema and effective_schema:\n            schema_name = self.preparer.quote_schema(effective_schema)\n"
                   "        else:\n            schema_name = None\n"),
               sub("    def _prepared_index_name(\n",
                   "    def _index_schema(self, index):\n        if index.table is None:\n            return None\n"
                   "        return self.preparer.schema_for_object(index.table)\n\n    def _prepared_index_name(\n")), None)
R.mutant("benign-r6-index-qualify-boolean-local", COMP,
         sub(_IDX_BLOCK,
             "        table = index.table\n        effective_schema = (\n            self.preparer.schema_for_object(table) if table is not None else None\n        )\n"
             "        qualify = bool(include_schema and effective_schema)\n        schema_name = None\n"
             "        if qualify:\n            schema_name = self.preparer.quote_schema(effective_schema)\n"), None)
R.mutant("benign-r6-index-inverted-early-return", COMP,
         sub(_IDX_BLOCK,
             "        if index.table is not None:\n            effective_schema = self.preparer.schema_for_object(index.table)\n"
             "        else:\n            effective_schema = None\n"
             "        if not include_schema or not effective_schema:\n            return self.preparer.format_index(index)\n"
             "        schema_name = self.preparer.quote_schema(effective_schema)\n"), None)
R.mutant("benign-r6-raw-schema-in-error-message", COMP,
         sub("        if index.name is None:\n            raise exc.CompileError(\n                \"CREATE / DROP INDEX requires that the index have a name\"\n            )\n        if index.table is not None:",
             "        if index.name is None:\n            raise exc.CompileError(\n                \"CREATE / DROP INDEX requires that the index have a name \"\n                \"(table schema %r)\" % (index.table.schema,)\n            )\n        if index.table is not None:"), None)
R.mutant("benign-r6-format-table-schema-local-renamed", COMP,
         sub("        effective_schema = self.schema_for_object(table)\n\n        if not self.omit_schema and use_schema and effective_schema:\n            result = self.quote_schema(effective_schema) + \".\" + result\n",
             "        translated = self.schema_for_object(table)\n        wants_schema = not self.omit_schema and use_schema\n\n        if wants_schema and translated:\n            result = self.quote_schema(translated) + \".\" + result\n"), None)

# ---- round-2 seed C16/1 (seeded/C16_3) is the stored mutant `insertmanyvalues-passes-compiled-map` without the gate; benign
# variants of the same block: the map still comes from the executing context's options, the compiled map is only the gate
_IMV_BLOCK = ("        if compiled.schema_translate_map:\n            schema_translate_map = context.execution_options.get(\n"
              "                \"schema_translate_map\", {}\n            )\n        else:\n            schema_translate_map = None\n")
R.mutant("seed3-insertmanyvalues-map-is-compiled-map", DEF,
         sub(_IMV_BLOCK, "        schema_translate_map = compiled.schema_translate_map\n"), "C16-R1")
R.mutant("benign-imv-map-ternary-on-boolean-gate", DEF,
         sub(_IMV_BLOCK,
             "        uses_schema_tokens = bool(compiled.schema_translate_map)\n        schema_translate_map = (\n"
             "            context.execution_options.get(\"schema_translate_map\", {})\n            if uses_schema_tokens\n            else None\n        )\n"), None)
R.mutant("benign-imv-map-default-none-then-read", DEF,
         sub(_IMV_BLOCK,
             "        schema_translate_map = None\n        exec_options = context.execution_options\n        if compiled.schema_translate_map:\n"
             "            schema_translate_map = exec_options.get(\"schema_translate_map\", {})\n"), None)
