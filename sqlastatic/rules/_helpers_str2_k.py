"""Helpers of str2-k (round-2 seeds of C21 / C24).

`explore_effects` -- rob-E2's `explore_paths` (PyLite run under EVERY assignment of the opaque conditions a function
tests) extended in two ways:

* the opaque calls a path performs (calls the interpreter does not follow: `no_follow` names, calls on other objects)
  are recorded in evaluation order, so that "which value reaches which sink on which path" can be read off -- however
  the function spells its decisions (if/else, early return, conditional expression, `a or b`, a re-assigned local, an
  extracted helper method: helpers of the same class and module are interpreted);
* a set of *scenarios* (partial assignments of canonical atoms) can be given: every scenario is explored separately, so
  the rule can state "with X configured, every path ..." without depending on the order in which the code asks.

Atoms are the canonical texts of rob-E2 (`x is None`, `a == b`, `x` for truthiness; negative spellings folded into
the polarity), built from the interpreter's labels, in which local aliases are already resolved
(`d = self.dialect; d.max_x` has the label `self.dialect.max_x`).
"""

from __future__ import annotations

from typing import Dict, List, Optional, Sequence

from ._helpers_rob_c1 import Opaque, Unsupported
from ._helpers_rob_e2 import NeedAtom, _Forking


class _Recording(_Forking):
    def __init__(self, *a, **kw):
        super().__init__(*a, **kw)
        self.effects: List[Opaque] = []

    def _call(self, e, env, depth):
        r = super()._call(e, env, depth)
        if isinstance(r, Opaque) and r.call is not None:
            self.effects.append(r)
        return r


def explore_effects(ctx, finfo, args: Sequence, cls=None, no_follow=(), scenario: Optional[Dict[str, bool]] = None,
                    limit: int = 512):
    """[(assignment {atom: bool}, ('return', value) | ('raise', name), [opaque calls in evaluation order])] for every
    combination of the opaque conditions `finfo` tests beyond the fixed `scenario` atoms.  Unsupported propagates."""
    out, work = [], [dict(scenario or {})]
    while work:
        assign = work.pop()
        it = _Recording(ctx, finfo.module, assign, cls=cls, no_follow=no_follow)
        try:
            r = it.run(finfo, list(args))
        except NeedAtom as na:
            work.append({**assign, na.atom: True})
            work.append({**assign, na.atom: False})
            if len(work) + len(out) > limit:
                raise Unsupported(f"{finfo.qualname}: too many independent conditions")
            continue
        out.append((assign, r, list(it.effects)))
    return out


def call_arg(op: Opaque, pos: int, name: Optional[str] = None):
    """argument `pos` (or keyword `name`) of a recorded opaque call; None when absent."""
    _callee, a, kw = op.call
    if name is not None and name in kw:
        return kw[name]
    return a[pos] if pos < len(a) else None


def callee_of(op: Opaque) -> str:
    return op.call[0]
