"""C19 -- Dependency sorting is a correct topological order (determinism + emission guard)."""

from __future__ import annotations

import ast

from ..astutil import (
    call_name, calls_in, dotted, enclosing_stmt, guard_atoms, lexical_guards, raised_name, unparse, walk_local,
)
from ..report import Registry, sub
from ._helpers_rules_b import (
    ORD, PARAM, SET, TAINTED, UNKNOWN, Kind, OrderFlow, arg_for, call_sites, ordinal_keys, topo_flow,
)

R = Registry(
    "C19",
    title="Dependency sorting is a correct topological order; cycles are exactly reported",
    decides=(
        "determinism: every sequence yielded by topological.sort / sort_as_subsets derives its order only "
        "from the `allitems` argument (sets are used for membership only) and every consumer in the package "
        "passes an ordered `allitems`; emission guard: a node is emitted only when none of its parents "
        "(edges built as edges[child].add(parent)) is still un-emitted, emitted nodes leave the pending set "
        "before the next round, an empty round raises CircularDependencyError carrying find_cycles()."
    ),
    not_decided=(
        "that the algorithm is a correct and complete topological sort for all graphs, and that find_cycles "
        "returns exactly the nodes lying on a cycle (algorithmic; needs exhaustive enumeration)."
    ),
)

TOPO = "util/topological.py"
# files named by the property's anchors: an unclassifiable `allitems` there is an analysis error;
# elsewhere in the package it is only noted
ANCHOR_FILES = ("orm/unitofwork.py", "sql/ddl.py", "sql/schema.py")


@R.rule("C19-R1", floor=4, template="T-FLOW",
        desc="order taint: every sequence yielded by sort_as_subsets/sort is ordered by the `allitems` "
             "argument only (no set iteration reaches a yielded sequence or decides when a yield happens); "
             "find_cycles/_gen_edges return sets (order-free by type)")
def r1(ctx):
    of = topo_flow(ctx)
    for name in ("sort_as_subsets", "sort"):
        f = ctx.func(f"{TOPO}::{name}")
        ys = sorted((n for n in walk_local(f.node) if isinstance(n, (ast.Yield, ast.YieldFrom))),
                    key=lambda n: (n.lineno, n.col_offset))
        ctx.require(ys, f"{name} has no yield (no longer a generator)")
        for key, y in ordinal_keys(ys, lambda y: f"{f.key}:yield"):
            loc = f"{f.module.path}:{y.lineno}"
            ctx.require(y.value is not None, f"bare yield in {name}")
            k = of.kind(y.value, f)
            if isinstance(y, ast.YieldFrom) and k.k == SET:
                k = Kind(TAINTED, f"`yield from` iterates a set ({k.why})")
            lc = of.loop_context(y, f)
            ctx.require(k.k != UNKNOWN, f"{name}: cannot classify yielded value `{unparse(y.value)}`: {k.why}")
            ctx.require(lc.k != UNKNOWN, f"{name}: cannot classify a loop around the yield: {lc.why}")
            if k.k in (TAINTED, SET):
                ctx.violation(key, f"yielded sequence `{unparse(y.value)}` has set-derived order: {k.why}", loc)
            elif lc.k != ORD:
                ctx.violation(key, f"the yield runs inside an unordered iteration: {lc.why}", loc)
            else:
                ctx.ok(key, f"`{unparse(y.value)}` ordered: {k.why}")
    # the set-returning helpers: unordered by type, so their internal iteration order cannot leak
    for name in ("find_cycles", "_gen_edges"):
        f = ctx.func(f"{TOPO}::{name}")
        rets = [r for r in walk_local(f.node) if isinstance(r, ast.Return) and r.value is not None]
        ctx.require(rets, f"{name} returns nothing")
        ks = [of.kind(r.value, f, 0, r) for r in rets]
        bad = [k for k in ks if k.k == TAINTED]
        unk = [k for k in ks if k.k in (UNKNOWN, PARAM)]
        ctx.require(not unk, f"{name}: cannot classify returned value: {[k.why for k in unk]}")
        ctx.check(not bad, f"{f.key}:return",
                  f"{name} returns a sequence whose order comes from set iteration: {[k.why for k in bad]}",
                  "returns " + ", ".join(sorted({k.k for k in ks})), f.loc)


def _emission(ctx):
    """Locate the structure of sort_as_subsets: edge map E, pending set S, emitted list O."""
    f = ctx.func(f"{TOPO}::sort_as_subsets")
    tuples_p, items_p = f.params[0], f.params[1]
    # (a) the loop building the edge map from the pair parameter
    build = None
    for n in walk_local(f.node):
        if isinstance(n, ast.For) and isinstance(n.iter, ast.Name) and n.iter.id == tuples_p \
                and isinstance(n.target, ast.Tuple) and len(n.target.elts) == 2 \
                and all(isinstance(e, ast.Name) for e in n.target.elts):
            build = n
    ctx.require(build is not None, "no `for (a, b) in <pairs>` loop building the edge map in sort_as_subsets")
    first, second = (e.id for e in build.target.elts)
    adds = []
    for c in calls_in(build):
        fn_ = c.func
        if isinstance(fn_, ast.Attribute) and fn_.attr in ("add", "append") and isinstance(fn_.value, ast.Subscript) \
                and isinstance(fn_.value.value, ast.Name) and len(c.args) == 1:
            adds.append((fn_.value.value.id, unparse(fn_.value.slice), unparse(c.args[0])))
    ctx.require(len(adds) == 1, f"edge-map construction not understood: {adds}")
    return f, tuples_p, items_p, build, first, second, adds[0]


def _disjoint_atom(test_text: str, S: str, E: str, node: str):
    """Does the (positive) atom say `no member of E[node] is in S`?"""
    t = test_text.replace(" ", "")
    pos = {f"{S}.isdisjoint({E}[{node}])", f"{E}[{node}].isdisjoint({S})"}
    neg = {f"{S}.intersection({E}[{node}])", f"{E}[{node}].intersection({S})", f"{S}&{E}[{node}]", f"{E}[{node}]&{S}"}
    if t in pos:
        return True   # must hold with polarity True
    if t in neg:
        return False  # must hold with polarity False
    return None


@R.rule("C19-R2", floor=6, template="T-GUARD",
        desc="a node is emitted only under the test that none of its parents is still pending; emitted "
             "nodes leave the pending set before the next round; an empty round raises "
             "CircularDependencyError carrying find_cycles(pairs, items)")
def r2(ctx):
    f, tuples_p, items_p, build, first, second, (E, idx, val) = _emission(ctx)
    g = ctx.cfg(f)
    pm = f.module.parents()
    base = f.key
    # (a) orientation: pairs are (parent, child); edges[child] collects the parents
    ctx.check(idx == second and val == first, base + ":edges-orientation",
              f"edge map is built as {E}[{idx}].add({val}) for pairs ({first}, {second}): the map no longer "
              f"lists the prerequisites (first components) of each dependent (second component)",
              f"{E}[{second}] collects {first} (prerequisites of each dependent)", f"{f.module.path}:{build.lineno}")
    # (b) emission guard
    ys = [n for n in walk_local(f.node) if isinstance(n, ast.Yield) and isinstance(n.value, ast.Name)]
    ctx.require(len(ys) == 1, "sort_as_subsets: expected exactly one `yield <list>`")
    O = ys[0].value.id
    emits = [c for c in calls_in(f.node) if isinstance(c.func, ast.Attribute) and c.func.attr in ("append", "extend", "insert")
             and isinstance(c.func.value, ast.Name) and c.func.value.id == O]
    ctx.require(emits, f"no append to the emitted list `{O}`")
    S = None
    for key, c in ordinal_keys(emits, lambda c: base + ":emission-guard"):
        loc = f"{f.module.path}:{c.lineno}"
        ctx.require(c.func.attr == "append" and len(c.args) == 1 and isinstance(c.args[0], ast.Name),
                    f"emission `{unparse(c)}` is not `<list>.append(<node>)`")
        node = c.args[0].id
        st = enclosing_stmt(pm, c)
        atoms = guard_atoms(lexical_guards(pm, st, stop=f.node))
        good = False
        for text, pol in atoms:
            # find the pending-set name: any Name S such that the atom is a disjointness test of E[node] and S
            for cand in {n.id for n in ast.walk(ast.parse(text, mode="eval")) if isinstance(n, ast.Name)} - {E, node}:
                want = _disjoint_atom(text, cand, E, node)
                if want is not None and want == pol:
                    good, S = True, cand
        # the guarded node must be the loop variable of an enclosing loop over the pending list
        ctx.check(good, key,
                  f"`{unparse(c)}` is not guarded by a test that {E}[{node}] (the parents of {node}) is disjoint "
                  f"from the pending set (guards: {atoms})",
                  f"guarded by disjointness of {E}[{node}] and `{S}`", loc)
    if S is None:
        # guard is gone: the remaining obligations cannot be located
        for a in (":pending-is-all-items", ":emitted-removed-before-next-round", ":empty-round-raises", ":raise-carries-find-cycles"):
            ctx.violation(base + a, "cannot be established: no emission guard names the pending set", f.loc)
        return
    # (b2) the pending set starts as the set of all items
    sb = [(v, st) for n in walk_local(f.node) if isinstance(n, (ast.Assign, ast.AnnAssign))
          for (v, st) in [(n.value, n)]
          if any(isinstance(t, ast.Name) and t.id == S for t in (n.targets if isinstance(n, ast.Assign) else [n.target]))]
    init_ok = bool(sb) and all(
        isinstance(v, ast.Call) and call_name(v) in ("set", "frozenset") and len(v.args) == 1 and unparse(v.args[0]) == items_p
        for v, _ in sb
    )
    ctx.check(init_ok, base + ":pending-is-all-items",
              f"pending set `{S}` is not initialised as set({items_p}) (bindings: {[unparse(st) for _, st in sb]})",
              f"{S} = set({items_p})", f.loc)
    # (c) removal before the next round: every trip round the `while` passes a removal of O from S
    loops = [n for n in walk_local(f.node) if isinstance(n, ast.While) and any(x is ys[0] for x in ast.walk(n))]
    ctx.require(len(loops) == 1, "the yield is not inside exactly one while loop")
    w = loops[0]
    ctx.require(S in {n.id for n in ast.walk(w.test) if isinstance(n, ast.Name)},
                f"the round loop `while {unparse(w.test)}` does not test the pending set `{S}`")
    removal = []
    for n in g.nodes:
        if n.kind != "stmt" or n.stmt is None:
            continue
        s = n.stmt
        if isinstance(s, ast.Expr) and isinstance(s.value, ast.Call):
            c = s.value
            if dotted(c.func) == f"{S}.difference_update" and len(c.args) == 1 and unparse(c.args[0]) in (O, f"set({O})"):
                removal.append(n.id)
        elif isinstance(s, ast.AugAssign) and isinstance(s.op, ast.Sub) and unparse(s.target) == S \
                and unparse(s.value) in (f"set({O})", O):
            removal.append(n.id)
    tnode = g.nodes_for(w)
    ctx.require(len(tnode) == 1, "while test node not unique")
    starts = [b for b, lab in g.succ[tnode[0]] if lab == "true"]
    wit = g.must_pass(starts, tnode, removal) if removal else ["no statement removes the emitted list from the pending set"]
    ctx.check(wit is None, base + ":emitted-removed-before-next-round",
              f"a round can complete without removing the emitted nodes `{O}` from the pending set `{S}` "
              f"(nodes would be emitted again / the loop would not terminate)",
              f"{S}.difference_update({O}) on every round", f"{f.module.path}:{w.lineno}", wit)
    # (d) empty round raises; the yield is reached only with a non-empty round
    raises = [n for n in walk_local(w) if isinstance(n, ast.Raise) and (raised_name(n) or "").endswith("CircularDependencyError")]
    ok_raise = False
    for r in raises:
        atoms = guard_atoms(lexical_guards(pm, r, stop=w))
        if (O, False) in atoms or (f"len({O}) == 0", True) in atoms or (f"len({O})", False) in atoms:
            ok_raise = True
    yn = g.nodes_for(enclosing_stmt(pm, ys[0]))
    yguard = guard_atoms(g.edge_guards(yn[0])) if yn else []
    nonempty = (O, True) in yguard
    ctx.check(ok_raise and nonempty, base + ":empty-round-raises",
              f"an empty round does not raise CircularDependencyError before the yield "
              f"(raise under `not {O}`: {ok_raise}; yield dominated by non-empty `{O}`: {nonempty})",
              f"`if not {O}: raise CircularDependencyError`; yield only when `{O}` is non-empty",
              f"{f.module.path}:{w.lineno}")
    # (e) the error carries find_cycles(pairs, items)
    carried = False
    for r in raises:
        for c in calls_in(r):
            if (call_name(c) or "").rsplit(".", 1)[-1] == "find_cycles":
                args = [unparse(a) for a in c.args]
                carried = args == [tuples_p, items_p]
                # it must be the 2nd positional argument (`cycles`) of the exception
                exc_call = r.exc if isinstance(r.exc, ast.Call) else None
                carried = carried and exc_call is not None and (
                    (len(exc_call.args) >= 2 and exc_call.args[1] is c)
                    or any(k.arg == "cycles" and k.value is c for k in exc_call.keywords)
                )
    ctx.check(carried, base + ":raise-carries-find-cycles",
              "CircularDependencyError is not raised with cycles=find_cycles(<pairs>, <items>)",
              f"cycles=find_cycles({tuples_p}, {items_p})", f.loc)


@R.rule("C19-R3", floor=17, template="T-SIBLING/T-FLOW",
        desc="every call of topological.sort / sort_as_subsets in the package passes an ordered `allitems` "
             "(sorted(..), a list, a dict view, an ordered set); a parameter is followed to the callers")
def r3(ctx):
    of = topo_flow(ctx)
    targets = [ctx.func(f"{TOPO}::sort"), ctx.func(f"{TOPO}::sort_as_subsets")]
    sites = []
    for t in targets:
        for f, c in call_sites(ctx.index, t):
            if f.module.relpath == TOPO:
                continue  # sort() delegating to sort_as_subsets(): covered by R1
            sites.append((f, c, t))
    sites.sort(key=lambda s: (s[0].module.relpath, s[1].lineno, s[1].col_offset))
    ctx.require(sites, "no consumer of topological.sort found")
    seen_follow = set()

    def judge(key, f, expr, loc, depth):
        ctx.functions_analysed.add(f.key)
        k = of.kind(expr, f)
        txt = unparse(expr)[:70]
        if k.k == ORD:
            ctx.ok(key, f"`{txt}` ordered: {k.why}")
        elif k.k in (SET, TAINTED):
            ctx.violation(key, f"`{txt}` handed to the dependency sort as the item order is unordered: {k.why} "
                               f"(the result order then varies between runs)", loc)
        elif k.k == PARAM and k.fn_key == f.key and depth < 4:
            callee = f
            callers = call_sites(ctx.index, callee)
            if not callers:
                ctx.ok(key, f"`{txt}`: parameter `{k.param}` of public function {f.qualname} (caller's order)", nontrivial=False)
                return
            ctx.ok(key, f"`{txt}`: parameter `{k.param}`, followed to {len(callers)} caller(s)", nontrivial=False)
            for (cf, cc), (ckey, _) in zip(callers, ordinal_keys(callers, lambda fc: f"{fc[0].key}:{callee.name}({k.param})")):
                if id(cc) in seen_follow:
                    continue
                seen_follow.add(id(cc))
                a = arg_for(cc, callee, k.param)
                if a is None:
                    ctx.error(f"cannot bind parameter {k.param} at call of {callee.qualname} in {cf.key}")
                judge(ckey, cf, a, f"{cf.module.path}:{cc.lineno}", depth + 1)
        elif k.k == PARAM:
            ctx.ok(key, f"`{txt}`: caller-supplied collection ({k.why})", nontrivial=False)
        else:
            if f.module.relpath in ANCHOR_FILES:
                ctx.error(f"cannot classify `{txt}` in {f.key}: {k.why}")
            ctx.note(f"unclassified allitems `{txt}` in {f.key}: {k.why}")

    for (f, c, t), (key, _) in zip(sites, ordinal_keys(sites, lambda s: f"{s[0].key}:{s[2].name}(allitems)")):
        a = arg_for(c, t, t.params[1])
        ctx.require(a is not None, f"call of {t.name} in {f.key} does not pass the items argument")
        judge(key, f, a, f"{f.module.path}:{c.lineno}", 0)


# ---------------------------------------------------------------------- self-test battery
# R1
R.mutant("todo-from-set", TOPO,
         sub("    todo = list(allitems)\n    todo_set = set(allitems)\n",
             "    todo_set = set(allitems)\n    todo = list(todo_set)\n"), "C19-R1")
R.mutant("iterate-pending-set", TOPO,
         sub("        for node in todo:\n            if todo_set.isdisjoint(edges[node]):",
             "        for node in todo_set:\n            if todo_set.isdisjoint(edges[node]):"), "C19-R1")
R.mutant("sort-yields-from-set", TOPO,
         sub("        yield from set_\n", "        yield from set(set_)\n"), "C19-R1")
R.mutant("todo-rebuilt-from-set", TOPO,
         sub("        todo = [t for t in todo if t in todo_set]\n", "        todo = list(todo_set)\n"), "C19-R1")
R.mutant("find-cycles-returns-list", TOPO,
         sub("    return output\n\n\ndef _gen_edges", "    return list(output)\n\n\ndef _gen_edges"), "C19-R1")
# R2
R.mutant("edges-reversed", TOPO,
         sub("    for parent, child in tuples:\n        edges[child].add(parent)\n\n    todo",
             "    for parent, child in tuples:\n        edges[parent].add(child)\n\n    todo"), "C19-R2")
R.mutant("guard-negated", TOPO,
         sub("            if todo_set.isdisjoint(edges[node]):", "            if not todo_set.isdisjoint(edges[node]):"), "C19-R2")
R.mutant("guard-dropped", TOPO,
         sub("            if todo_set.isdisjoint(edges[node]):\n                output.append(node)",
             "            if node in todo_set:\n                output.append(node)"), "C19-R2")
R.mutant("no-removal", TOPO,
         sub("        todo_set.difference_update(output)\n", "        todo_set.difference(output)\n"), "C19-R2")
R.mutant("removal-only-sometimes", TOPO,
         sub("        todo_set.difference_update(output)\n",
             "        if len(output) > 1:\n            todo_set.difference_update(output)\n"), "C19-R2")
R.mutant("empty-round-not-raised", TOPO,
         sub("        if not output:\n            raise CircularDependencyError(",
             "        if output is None:\n            raise CircularDependencyError("), "C19-R2")
R.mutant("cycles-not-carried", TOPO,
         sub("                find_cycles(tuples, allitems),\n", "                set(),\n"), "C19-R2")
R.mutant("pending-starts-empty", TOPO,
         sub("    todo_set = set(allitems)\n", "    todo_set = set(tuples)\n"), "C19-R2")
# R3
R.mutant("uow-unsorted-actions", "orm/unitofwork.py",
         sub("        postsort_actions = sorted(\n            postsort_actions,\n            key=lambda item: item.sort_key,\n        )\n",
             "        postsort_actions = list(postsort_actions)\n"), "C19-R3")
R.mutant("ddl-sorts-a-set", "sql/ddl.py",
         sub("                fixed_dependencies.union(mutable_dependencies),\n                tables,\n            )\n        )\n    except",
             "                fixed_dependencies.union(mutable_dependencies),\n                set(tables),\n            )\n        )\n    except"), "C19-R3")
R.mutant("create-all-from-set", "sql/ddl.py",
         sub("        collection = sort_tables_and_constraints(\n            [t for t in tables if self._can_create_table(t)]\n        )",
             "        collection = sort_tables_and_constraints(\n            {t for t in tables if self._can_create_table(t)}\n        )"), "C19-R3")
R.mutant("sorted-tables-from-set", "sql/schema.py",
         sub("            sorted(self.tables.values(), key=lambda t: t.key)  # type: ignore[attr-defined]  # noqa: E501",
             "            set(self.tables.values())"), "C19-R3")
# benign refactors
def _rename_output(src: str) -> str:
    head, sep, tail = src.partition("\ndef sort(")
    if not sep or "output" not in head:
        from ..report import MutantNotApplicable
        raise MutantNotApplicable("sort_as_subsets/output not found")
    return head.replace("output", "ready_nodes").replace("todo_set", "pending") + sep + tail


R.mutant("benign-rename-locals", TOPO, _rename_output, None)
R.mutant("benign-guard-spelling", TOPO,
         sub("            if todo_set.isdisjoint(edges[node]):", "            if edges[node].isdisjoint(todo_set):"), None)
R.mutant("benign-unpack-list", TOPO,
         sub("    todo = list(allitems)\n", "    todo = [*allitems]\n"), None)
R.mutant("benign-uow-logging", "orm/unitofwork.py",
         sub("        # execute\n        if self.cycles:\n", "        # execute\n        _n = len(postsort_actions)\n        if self.cycles:\n"), None)
