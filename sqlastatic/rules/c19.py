"""C19 -- Dependency sorting is a correct topological order (determinism + emission guard)."""

from __future__ import annotations

import ast

from ..astutil import (
    call_name, calls_in, dotted, enclosing_stmt, guard_atoms, lexical_guards, name_stores, own_exprs, raised_name, unparse,
    walk_local,
)
from ..report import Registry, chain, sub
from ._helpers_rob_b1 import (
    bind_args, bindings, cfg_following_raisers, dominating_guards, expanded_atoms, inline_predicate, resolve_alias, resolve_callee, substitute,
)
from ._helpers_rules_b import (
    ORD, PARAM, SET, TAINTED, UNKNOWN, Kind, OrderFlow, arg_for, call_sites, ordinal_keys, topo_flow,
)

R = Registry(
    "C19",
    title="Dependency sorting is a correct topological order; cycles are exactly reported",
    decides=(
        "determinism: every sequence yielded by topological.sort / sort_as_subsets derives its order only "
        "from the `allitems` argument (sets are used for membership only) and every consumer in the package "
        "passes an ordered `allitems`; emission guard: a node is emitted only when none of its parents "
        "(edges built as edges[child].add(parent)) is still un-emitted, emitted nodes leave the pending set "
        "before the next round, an empty round raises CircularDependencyError carrying find_cycles()."
    ),
    not_decided=(
        "that the algorithm is a correct and complete topological sort for all graphs, and that find_cycles "
        "returns exactly the nodes lying on a cycle (algorithmic; needs exhaustive enumeration)."
    ),
)

TOPO = "util/topological.py"
# files named by the property's anchors: an unclassifiable `allitems` there is an analysis error;
# elsewhere in the package it is only noted
ANCHOR_FILES = ("orm/unitofwork.py", "sql/ddl.py", "sql/schema.py")


@R.rule("C19-R1", floor=4, template="T-FLOW",
        desc="order taint: every sequence yielded by sort_as_subsets/sort is ordered by the `allitems` "
             "argument only (no set iteration reaches a yielded sequence or decides when a yield happens); "
             "find_cycles/_gen_edges return sets (order-free by type)")
def r1(ctx):
    of = topo_flow(ctx)
    for name in ("sort_as_subsets", "sort"):
        f = ctx.func(f"{TOPO}::{name}")
        ys = sorted((n for n in walk_local(f.node) if isinstance(n, (ast.Yield, ast.YieldFrom))),
                    key=lambda n: (n.lineno, n.col_offset))
        ctx.require(ys, f"{name} has no yield (no longer a generator)")
        for key, y in ordinal_keys(ys, lambda y: f"{f.key}:yield"):
            loc = f"{f.module.path}:{y.lineno}"
            ctx.require(y.value is not None, f"bare yield in {name}")
            k = of.kind(y.value, f)
            if k.k == UNKNOWN and isinstance(y, ast.Yield) and isinstance(y.value, ast.Name) and any(
                    isinstance(a, ast.For) and isinstance(a.target, ast.Name) and a.target.id == y.value.id
                    for a in _ancestors(f.module.parents(), y)):
                # `for x in <subset>: yield x` -- one element at a time: the order is decided by the loops around the
                # yield alone (loop_context below), the element itself carries none
                k = Kind(ORD, "one element of an enclosing loop (order decided by the loops)")
            if isinstance(y, ast.YieldFrom) and k.k == SET:
                k = Kind(TAINTED, f"`yield from` iterates a set ({k.why})")
            lc = of.loop_context(y, f)
            ctx.require(k.k != UNKNOWN, f"{name}: cannot classify yielded value `{unparse(y.value)}`: {k.why}")
            ctx.require(lc.k != UNKNOWN, f"{name}: cannot classify a loop around the yield: {lc.why}")
            if k.k in (TAINTED, SET):
                ctx.violation(key, f"yielded sequence `{unparse(y.value)}` has set-derived order: {k.why}", loc)
            elif lc.k != ORD:
                ctx.violation(key, f"the yield runs inside an unordered iteration: {lc.why}", loc)
            else:
                ctx.ok(key, f"`{unparse(y.value)}` ordered: {k.why}")
    # the set-returning helpers: unordered by type, so their internal iteration order cannot leak
    for name in ("find_cycles", "_gen_edges"):
        f = ctx.func(f"{TOPO}::{name}")
        rets = [r for r in walk_local(f.node) if isinstance(r, ast.Return) and r.value is not None]
        ctx.require(rets, f"{name} returns nothing")
        ks = [of.kind(r.value, f, 0, r) for r in rets]
        bad = [k for k in ks if k.k == TAINTED]
        unk = [k for k in ks if k.k in (UNKNOWN, PARAM)]
        ctx.require(not unk, f"{name}: cannot classify returned value: {[k.why for k in unk]}")
        ctx.check(not bad, f"{f.key}:return",
                  f"{name} returns a sequence whose order comes from set iteration: {[k.why for k in bad]}",
                  "returns " + ", ".join(sorted({k.k for k in ks})), f.loc)


def _pair_target(loop: ast.For):
    """(first, second) expression texts naming the two components of the pair a `for .. in <pairs>` loop
    visits: `for a, b in`, `for p in ..: a, b = p`, or `p[0]` / `p[1]`."""
    t = loop.target
    if isinstance(t, ast.Tuple) and len(t.elts) == 2 and all(isinstance(e, ast.Name) for e in t.elts):
        return t.elts[0].id, t.elts[1].id
    if isinstance(t, ast.Name):
        for st in loop.body:
            if isinstance(st, ast.Assign) and len(st.targets) == 1 and isinstance(st.targets[0], ast.Tuple) \
                    and len(st.targets[0].elts) == 2 and all(isinstance(e, ast.Name) for e in st.targets[0].elts) \
                    and isinstance(st.value, ast.Name) and st.value.id == t.id:
                return st.targets[0].elts[0].id, st.targets[0].elts[1].id
        return f"{t.id}[0]", f"{t.id}[1]"
    return None


def _emission(ctx):
    """Locate the structure of sort_as_subsets: edge map E, pending set S, emitted list O."""
    f = ctx.func(f"{TOPO}::sort_as_subsets")
    tuples_p, items_p = f.params[0], f.params[1]
    # (a) the loop building the edge map from the pair parameter (or a materialised copy / alias of it)
    build = None
    for n in walk_local(f.node):
        if isinstance(n, ast.For) and _same_input(ctx, f, n.iter, tuples_p, n) and _pair_target(n) is not None:
            build = n
    ctx.require(build is not None, "no `for (a, b) in <pairs>` loop building the edge map in sort_as_subsets")
    first, second = _pair_target(build)
    adds = []
    for c in calls_in(build):
        fn_ = c.func
        if not (isinstance(fn_, ast.Attribute) and fn_.attr in ("add", "append") and len(c.args) == 1):
            continue
        recv = fn_.value
        if isinstance(recv, ast.Subscript) and isinstance(recv.value, ast.Name):
            adds.append((recv.value.id, unparse(recv.slice), unparse(c.args[0])))
        elif isinstance(recv, ast.Call) and isinstance(recv.func, ast.Attribute) and recv.func.attr == "setdefault" \
                and isinstance(recv.func.value, ast.Name) and recv.args:
            adds.append((recv.func.value.id, unparse(recv.args[0]), unparse(c.args[0])))
    ctx.require(len(adds) == 1, f"edge-map construction not understood: {adds}")
    return f, tuples_p, items_p, build, first, second, adds[0]


def _disjoint_test(atom_text: str, E: str, node: str):
    """(S, polarity) when the atom, holding with that polarity, says `no member of E[node] is in the set S`:
    S.isdisjoint(E[node]) / E[node].isdisjoint(S) (True); S & E[node], .intersection() (False);
    all(p not in S for p in E[node]) (True); any(p in S for p in E[node]) (False)."""
    try:
        a = ast.parse(atom_text, mode="eval").body
    except SyntaxError:
        return None

    def is_en(x):
        return isinstance(x, ast.Subscript) and isinstance(x.value, ast.Name) and x.value.id == E and unparse(x.slice) == node

    def pair(x, y):
        if is_en(x) and isinstance(y, ast.Name) and y.id not in (E, node):
            return y.id
        if is_en(y) and isinstance(x, ast.Name) and x.id not in (E, node):
            return x.id
        return None

    if isinstance(a, ast.Call) and isinstance(a.func, ast.Attribute) and len(a.args) == 1 and not a.keywords:
        s = pair(a.func.value, a.args[0])
        if s is not None and a.func.attr == "isdisjoint":
            return s, True
        if s is not None and a.func.attr == "intersection":
            return s, False
    if isinstance(a, ast.BinOp) and isinstance(a.op, ast.BitAnd):
        s = pair(a.left, a.right)
        if s is not None:
            return s, False
    if isinstance(a, ast.Call) and isinstance(a.func, ast.Name) and a.func.id in ("all", "any") and len(a.args) == 1 \
            and isinstance(a.args[0], (ast.GeneratorExp, ast.ListComp)) and len(a.args[0].generators) == 1:
        gen = a.args[0].generators[0]
        elt = a.args[0].elt
        neg = False
        while isinstance(elt, ast.UnaryOp) and isinstance(elt.op, ast.Not):
            elt, neg = elt.operand, not neg
        if not gen.ifs and isinstance(gen.target, ast.Name) and isinstance(elt, ast.Compare) and len(elt.ops) == 1 \
                and isinstance(elt.ops[0], (ast.In, ast.NotIn)) and isinstance(elt.left, ast.Name) and elt.left.id == gen.target.id:
            s = pair(gen.iter, elt.comparators[0])
            member = isinstance(elt.ops[0], ast.In) != neg   # element says "x in other"
            if s is not None:
                if a.func.id == "all" and not member:
                    return s, True
                if a.func.id == "any" and member:
                    return s, False
    return None


def _emit_sites(ctx, f, O, pm, g):
    """Every way an element enters the emitted list O: [(node name, guards, loc node, text)], plus the
    statements touching O that are not understood.  `O.append(x)` under branch outcomes, and the comprehension
    forms `O = [x for x in L if c]` / `O.extend(x for x in L if c)` (the `if` clauses are the guards)."""
    sites, unknown = [], []

    def comp_site(comp, st):
        if not (isinstance(comp.elt, ast.Name) and any(isinstance(gen.target, ast.Name) and gen.target.id == comp.elt.id
                                                      for gen in comp.generators)):
            unknown.append(st)
            return
        guards = [(t, True) for gen in comp.generators for t in gen.ifs]
        sites.append((comp.elt.id, dominating_guards(g, pm, f.node, st, st) + guards, st, unparse(comp)))

    def comp_of(v):
        if isinstance(v, (ast.ListComp, ast.GeneratorExp)):
            return v
        if isinstance(v, ast.Call) and call_name(v) in ("list", "tuple") and len(v.args) == 1 and isinstance(v.args[0], (ast.ListComp, ast.GeneratorExp)):
            return v.args[0]
        return None

    for n, v, st in name_stores(f.node):
        if n != O:
            continue
        if v is not None and (isinstance(v, ast.List) and not v.elts or isinstance(v, ast.Call) and call_name(v) == "list" and not v.args):
            continue  # starts empty
        if isinstance(st, ast.AugAssign) and isinstance(st.op, ast.Add) and isinstance(st.value, ast.List) \
                and len(st.value.elts) == 1 and isinstance(st.value.elts[0], ast.Name):
            sites.append((st.value.elts[0].id, dominating_guards(g, pm, f.node, st, st), st, unparse(st)))
            continue
        c = comp_of(v) if v is not None else None
        if c is None:
            unknown.append(st)
        else:
            comp_site(c, st)
    for c in calls_in(f.node):
        if not (isinstance(c.func, ast.Attribute) and isinstance(c.func.value, ast.Name) and c.func.value.id == O):
            continue
        if c.func.attr not in ("append", "extend", "insert", "__iadd__"):
            continue
        st = enclosing_stmt(pm, c)
        if c.func.attr == "append" and len(c.args) == 1 and isinstance(c.args[0], ast.Name):
            sites.append((c.args[0].id, dominating_guards(g, pm, f.node, c, st), c, unparse(c)))
        elif c.func.attr == "extend" and len(c.args) == 1 and comp_of(c.args[0]) is not None:
            comp_site(comp_of(c.args[0]), st)
        else:
            unknown.append(st)
    sites.sort(key=lambda s: (s[2].lineno, s[2].col_offset))
    return sites, unknown


def _emptiness(atom: str, pol: bool, O: str):
    """'empty' / 'nonempty' when the atom (with polarity) decides whether the list O has elements, else None."""
    t = atom.replace(" ", "")
    truthy = {O, f"len({O})", f"len({O})>0", f"len({O})>=1", f"bool({O})", f"0<len({O})"}
    falsy = {f"len({O})==0", f"{O}==[]", f"0==len({O})", f"len({O})<1", f"[]=={O}"}
    if t in truthy:
        return "nonempty" if pol else "empty"
    if t in falsy:
        return "empty" if pol else "nonempty"
    return None


def _cde_ctor(ctx, f, node):
    """The `CircularDependencyError(...)` constructor call a statement raises, with the caller's expressions
    substituted when the raise (or the construction of the exception) lives in a one-statement helper."""
    def is_cde(e):
        return isinstance(e, ast.Call) and (call_name(e) or "").rsplit(".", 1)[-1] == "CircularDependencyError"

    if isinstance(node, ast.Raise) and node.exc is not None:
        e = resolve_alias(f.node, node.exc)
        if is_cde(e):
            return e
        if isinstance(e, ast.Call):
            inl = inline_predicate(ctx, f, e)     # `raise _cycle_error(pairs, items, edges)`
            if inl is not None and is_cde(inl):
                return inl
    if isinstance(node, ast.Expr) and isinstance(node.value, ast.Call):
        callee = resolve_callee(ctx, f, node.value)   # `_raise_cycle(pairs, items, edges)`
        if callee is not None and callee.module is f.module:
            body = [s for s in callee.node.body if not (isinstance(s, ast.Expr) and isinstance(s.value, ast.Constant))]
            m = bind_args(node.value, callee)
            if len(body) == 1 and isinstance(body[0], ast.Raise) and is_cde(body[0].exc) and m is not None:
                ctx.functions_analysed.add(callee.key)
                return substitute(body[0].exc, m)
    return None


@R.rule("C19-R2", floor=6, template="T-GUARD",
        desc="a node is emitted only under the test that none of its parents is still pending; emitted "
             "nodes leave the pending set before the next round; an empty round raises "
             "CircularDependencyError carrying find_cycles(pairs, items)")
def r2(ctx):
    f, tuples_p, items_p, build, first, second, (E, idx, val) = _emission(ctx)
    g = cfg_following_raisers(ctx, f)   # an extracted `_raise_cycle(..)` helper ends the path like the raise did
    pm = f.module.parents()
    base = f.key
    binds = bindings(f.node)
    # (a) orientation: pairs are (parent, child); edges[child] collects the parents
    ctx.check(idx == second and val == first, base + ":edges-orientation",
              f"edge map is built as {E}[{idx}].add({val}) for pairs ({first}, {second}): the map no longer "
              f"lists the prerequisites (first components) of each dependent (second component)",
              f"{E}[{second}] collects {first} (prerequisites of each dependent)", f"{f.module.path}:{build.lineno}")
    # (b) emission guard
    def _yielded_name(v):
        while isinstance(v, ast.Call) and call_name(v) in ("list", "tuple") and len(v.args) == 1:
            v = v.args[0]
        return v.id if isinstance(v, ast.Name) else None

    ys = [n for n in walk_local(f.node) if isinstance(n, ast.Yield) and n.value is not None and _yielded_name(n.value)]
    ctx.require(len(ys) == 1, "sort_as_subsets: expected exactly one `yield <list>`")
    O = _yielded_name(ys[0].value)
    emits, unknown = _emit_sites(ctx, f, O, pm, g)
    ctx.require(not unknown, f"the emitted list `{O}` is built by a statement that is not understood: "
                             f"`{unparse(unknown[0]).splitlines()[0][:80]}`" if unknown else "")
    ctx.require(emits, f"nothing is ever added to the emitted list `{O}`")
    S = None
    for key, (node, guards, at, text) in ordinal_keys(emits, lambda c: base + ":emission-guard"):
        loc = f"{f.module.path}:{at.lineno}"
        atoms = expanded_atoms(ctx, f, guards, binds)
        good = False
        for atext, pol in atoms:
            hit = _disjoint_test(atext, E, node)
            if hit is not None and hit[1] == pol:
                good, S = True, hit[0]
        ctx.check(good, key,
                  f"`{text}` is not guarded by a test that {E}[{node}] (the parents of {node}) is disjoint "
                  f"from the pending set (guards: {atoms})",
                  f"guarded by disjointness of {E}[{node}] and `{S}`", loc)
    if S is None:
        # guard is gone: the remaining obligations cannot be located
        for a in (":pending-is-all-items", ":emitted-removed-before-next-round", ":empty-round-raises", ":raise-carries-find-cycles"):
            ctx.violation(base + a, "cannot be established: no emission guard names the pending set", f.loc)
        return

    def _is_O(e):
        while isinstance(e, ast.Call) and call_name(e) in _MATERIALISE and len(e.args) == 1:
            e = e.args[0]
        return isinstance(e, ast.Name) and e.id == O

    def _minus_O(v):
        """`S - set(O)` / `S.difference(O)`"""
        if isinstance(v, ast.BinOp) and isinstance(v.op, ast.Sub) and isinstance(v.left, ast.Name) and v.left.id == S:
            return _is_O(v.right)
        return isinstance(v, ast.Call) and dotted(v.func) == f"{S}.difference" and len(v.args) == 1 and _is_O(v.args[0])

    # (b2) the pending set starts as the set of all items
    sb = [(v, st) for v, st in binds.get(S, []) if not (v is not None and _minus_O(v))
          and not (isinstance(st, ast.AugAssign) and isinstance(st.op, ast.Sub))]

    def _all_items(v, st):
        if isinstance(v, ast.Call) and call_name(v) in ("set", "frozenset") and len(v.args) == 1 and not v.keywords:
            return _same_input(ctx, f, v.args[0], items_p, st)
        if isinstance(v, ast.Set) and len(v.elts) == 1 and isinstance(v.elts[0], ast.Starred):
            return _same_input(ctx, f, v.elts[0].value, items_p, st)
        return False

    init_ok = bool(sb) and all(v is not None and _all_items(v, st) for v, st in sb)
    ctx.check(init_ok, base + ":pending-is-all-items",
              f"pending set `{S}` is not initialised as set({items_p}) (bindings: {[unparse(st) for _, st in sb]})",
              f"{S} = set({items_p})", f.loc)
    # (c) removal before the next round: every trip round the `while` passes a removal of O from S
    loops = [n for n in walk_local(f.node) if isinstance(n, ast.While) and any(x is ys[0] for x in ast.walk(n))]
    ctx.require(len(loops) == 1, "the yield is not inside exactly one while loop")
    w = loops[0]
    tests_S = S in {n.id for n in ast.walk(w.test) if isinstance(n, ast.Name)} or any(
        isinstance(st, ast.If) and S in {n.id for n in ast.walk(st.test) if isinstance(n, ast.Name)}
        and any(isinstance(x, (ast.Break, ast.Return)) for x in ast.walk(st)) for st in w.body)
    ctx.require(tests_S, f"the round loop `while {unparse(w.test)}` does not test the pending set `{S}`")
    removal = []
    for n in g.nodes:
        s = n.stmt
        if s is None:
            continue
        if n.kind == "stmt" and isinstance(s, ast.Expr) and isinstance(s.value, ast.Call):
            c = s.value
            if dotted(c.func) == f"{S}.difference_update" and len(c.args) == 1 and _is_O(c.args[0]):
                removal.append(n.id)
        elif n.kind == "stmt" and isinstance(s, ast.AugAssign) and isinstance(s.op, ast.Sub) and unparse(s.target) == S and _is_O(s.value):
            removal.append(n.id)
        elif n.kind == "stmt" and isinstance(s, ast.Assign) and len(s.targets) == 1 and unparse(s.targets[0]) == S and _minus_O(s.value):
            removal.append(n.id)
        elif n.kind == "for" and isinstance(s, ast.For) and _is_O(s.iter) and isinstance(s.target, ast.Name) and any(
                isinstance(b, ast.Expr) and isinstance(b.value, ast.Call) and dotted(b.value.func) in (f"{S}.remove", f"{S}.discard")
                and len(b.value.args) == 1 and unparse(b.value.args[0]) == s.target.id for b in s.body):
            removal.append(n.id)   # `for x in O: S.remove(x)` (unconditional in the body)
    tnode = g.nodes_for(w)
    ctx.require(len(tnode) == 1, "while test node not unique")
    starts = [b for b, lab in g.succ[tnode[0]] if lab == "true"]
    wit = g.must_pass(starts, tnode, removal) if removal else ["no statement removes the emitted list from the pending set"]
    ctx.check(wit is None, base + ":emitted-removed-before-next-round",
              f"a round can complete without removing the emitted nodes `{O}` from the pending set `{S}` "
              f"(nodes would be emitted again / the loop would not terminate)",
              f"{S}.difference_update({O}) on every round", f"{f.module.path}:{w.lineno}", wit)
    # (d) empty round raises; the yield is reached only with a non-empty round
    raises = []   # (statement in the loop, CircularDependencyError(...) constructor call)
    for n in walk_local(w):
        if isinstance(n, (ast.Raise, ast.Expr)):
            ctor = _cde_ctor(ctx, f, n)
            if ctor is not None:
                raises.append((n, ctor))
            elif isinstance(n, ast.Raise) and (raised_name(n) or "").endswith("CircularDependencyError"):
                raises.append((n, None))
    ok_raise = False
    for r, _ in raises:
        atoms = expanded_atoms(ctx, f, dominating_guards(g, pm, f.node, r, r), binds)
        if any(_emptiness(a, pol, O) == "empty" for a, pol in atoms):
            ok_raise = True
    yst = enclosing_stmt(pm, ys[0])
    yguard = expanded_atoms(ctx, f, dominating_guards(g, pm, f.node, yst, yst), binds)
    nonempty = any(_emptiness(a, pol, O) == "nonempty" for a, pol in yguard)
    ctx.check(ok_raise and nonempty, base + ":empty-round-raises",
              f"an empty round does not raise CircularDependencyError before the yield "
              f"(raise under `not {O}`: {ok_raise}; yield dominated by non-empty `{O}`: {nonempty})",
              f"`if not {O}: raise CircularDependencyError`; yield only when `{O}` is non-empty",
              f"{f.module.path}:{w.lineno}")
    # (e) the error carries find_cycles(pairs, items): the value of the `cycles` argument is followed through
    # local bindings and one level of module-local helper, the inputs through materialising copies
    carried, why = False, "no CircularDependencyError raise in the round loop"
    for r, exc_call in raises:
        if exc_call is None:
            why = "the exception is not constructed in the raise statement"
            continue
        cyc = exc_call.args[1] if len(exc_call.args) >= 2 else next((k.value for k in exc_call.keywords if k.arg == "cycles"), None)
        if cyc is None:
            why = "no `cycles` argument"
            continue
        carried, why = _carries_find_cycles(ctx, f, cyc, r, tuples_p, items_p)
    ctx.check(carried, base + ":raise-carries-find-cycles",
              f"CircularDependencyError is not raised with cycles=find_cycles(<pairs>, <items>) over the inputs of the "
              f"failed sort: {why}",
              f"cycles=find_cycles({tuples_p}, {items_p}) ({why})", f.loc)


_MATERIALISE = ("list", "tuple", "set", "frozenset", "sorted")


def _reaching_top(f, name, at):
    """(value, statement) of the plain assignment to `name` that reaches `at`, when both are statements of the
    function's own body (no branch or loop in between can rebind the name); None when that cannot be said."""
    body = f.node.body
    idx = next((i for i, st in enumerate(body) if st is at), None)
    if idx is None:
        return None
    for st in reversed(body[:idx]):
        stores = [(n, v) for n, v, s_ in name_stores(ast.Module(body=[st], type_ignores=[])) if n == name]
        if not stores:
            continue
        if isinstance(st, (ast.Assign, ast.AnnAssign)) and len(stores) == 1 and stores[0][1] is not None:
            return stores[0][1], st
        return None
    return None


def _same_input(ctx, f, expr, param, at, depth=0, expanding=frozenset()):
    """`expr` evaluates to the collection the caller passed as `param` (the name itself, a materialised copy
    of it, or a local bound to one of those)."""
    if depth > 6:
        return False
    if isinstance(expr, ast.Call) and call_name(expr) in _MATERIALISE and len(expr.args) == 1 and not expr.keywords:
        return _same_input(ctx, f, expr.args[0], param, at, depth + 1, expanding)
    if isinstance(expr, (ast.ListComp, ast.SetComp, ast.GeneratorExp)) and len(expr.generators) == 1:
        # identity comprehension `[p for p in X]`: every element, unchanged (a filter or a mapped element is not a copy)
        gen = expr.generators[0]
        if not gen.ifs and not gen.is_async and isinstance(gen.target, ast.Name) and isinstance(expr.elt, ast.Name) \
                and expr.elt.id == gen.target.id:
            return _same_input(ctx, f, gen.iter, param, at, depth + 1, expanding)
        return False
    if isinstance(expr, ast.Starred):
        return _same_input(ctx, f, expr.value, param, at, depth + 1, expanding)
    if isinstance(expr, (ast.List, ast.Tuple, ast.Set)) and len(expr.elts) == 1 and isinstance(expr.elts[0], ast.Starred):
        return _same_input(ctx, f, expr.elts[0].value, param, at, depth + 1, expanding)   # [*X]
    if isinstance(expr, ast.Name):
        if expr.id in expanding:
            return expr.id == param
        reach = _reaching_top(f, expr.id, at)
        if reach is not None:
            # straight-line prefix of the function body: the one binding that reaches `at`
            return _same_input(ctx, f, reach[0], param, reach[1], depth + 1, expanding)
        binds = [(v, st) for n, v, st in name_stores(f.node) if n == expr.id]
        if expr.id != param and not binds:
            return False
        # (a rebinding of the parameter itself is allowed only to a copy of itself)
        return all(v is not None and _same_input(ctx, f, v, param, st, depth + 1, expanding | {expr.id}) for v, st in binds)
    return False


def _carries_find_cycles(ctx, f, expr, at, tuples_p, items_p, depth=0):
    """(ok, why): `expr` is find_cycles(<pairs>, <items>) over this function's inputs."""
    if depth > 3:
        return False, "binding chain too deep"
    if isinstance(expr, ast.Name):
        binds = [(v, st) for n, v, st in name_stores(f.node) if n == expr.id]
        if not binds:
            return False, f"`{expr.id}` is not bound in {f.name}"
        for v, st in binds:
            if v is None:
                return False, f"`{expr.id}` is bound by a loop/with target"
            ok, why = _carries_find_cycles(ctx, f, v, st, tuples_p, items_p, depth + 1)
            if not ok:
                return False, why
        return True, f"through local `{expr.id}`"
    if not isinstance(expr, ast.Call):
        return False, f"`{unparse(expr)[:60]}` is not a call of find_cycles"
    nm = (call_name(expr) or "").rsplit(".", 1)[-1]
    if nm == "find_cycles":
        fc = ctx.func(f"{TOPO}::find_cycles")
        a0, a1 = arg_for(expr, fc, fc.params[0]), arg_for(expr, fc, fc.params[1])
        if a0 is None or a1 is None:
            return False, "find_cycles called without (pairs, items)"
        if not _same_input(ctx, f, a0, tuples_p, at):
            return False, f"find_cycles receives `{unparse(a0)[:50]}` instead of the dependency pairs `{tuples_p}`"
        if not _same_input(ctx, f, a1, items_p, at):
            return False, f"find_cycles receives `{unparse(a1)[:50]}` instead of the items `{items_p}`"
        return True, "direct call"
    # one level of module-local helper: every return of the helper is find_cycles over its own parameters,
    # which are bound to the inputs at the call
    helper = ctx.index.resolve(f.module, call_name(expr) or "")
    if helper is None or not hasattr(helper, "params") or getattr(helper, "module", None) is not f.module:
        return False, f"cycles come from `{unparse(expr.func)}(..)`, not from find_cycles"
    ctx.functions_analysed.add(helper.key)
    rets = [r for r in walk_local(helper.node) if isinstance(r, ast.Return)]
    if not rets:
        return False, f"helper {helper.name} returns nothing"
    fc = ctx.func(f"{TOPO}::find_cycles")
    for r in rets:
        c = r.value
        if not (isinstance(c, ast.Call) and (call_name(c) or "").rsplit(".", 1)[-1] == "find_cycles"):
            return False, (f"cycles come from {helper.name}(), which computes them itself "
                           f"(`return {unparse(c)[:50] if c is not None else ''}`) instead of calling find_cycles")
        for hp, want in ((arg_for(c, fc, fc.params[0]), tuples_p), (arg_for(c, fc, fc.params[1]), items_p)):
            if not (isinstance(hp, ast.Name) and hp.id in helper.params):
                return False, f"{helper.name}() does not hand its own parameters to find_cycles"
            actual = arg_for(expr, helper, hp.id)
            if actual is None or not _same_input(ctx, f, actual, want, at):
                return False, f"{helper.name}() is not called with `{want}` for `{hp.id}`"
    return True, f"through helper {helper.name}()"


@R.rule("C19-R3", floor=17, template="T-SIBLING/T-FLOW",
        desc="every call of topological.sort / sort_as_subsets in the package passes an ordered `allitems` "
             "(sorted(..), a list, a dict view, an ordered set); a parameter is followed to the callers")
def r3(ctx):
    of = topo_flow(ctx)
    targets = [ctx.func(f"{TOPO}::sort"), ctx.func(f"{TOPO}::sort_as_subsets")]
    sites = []
    for t in targets:
        for f, c in call_sites(ctx.index, t):
            if f.module.relpath == TOPO:
                continue  # sort() delegating to sort_as_subsets(): covered by R1
            sites.append((f, c, t))
    sites.sort(key=lambda s: (s[0].module.relpath, s[1].lineno, s[1].col_offset))
    ctx.require(sites, "no consumer of topological.sort found")
    seen_follow = set()

    def judge(key, f, expr, loc, depth):
        ctx.functions_analysed.add(f.key)
        k = of.kind(expr, f)
        txt = unparse(expr)[:70]
        if k.k == ORD:
            ctx.ok(key, f"`{txt}` ordered: {k.why}")
        elif k.k in (SET, TAINTED):
            ctx.violation(key, f"`{txt}` handed to the dependency sort as the item order is unordered: {k.why} "
                               f"(the result order then varies between runs)", loc)
        elif k.k == PARAM and k.fn_key == f.key and depth < 4:
            callee = f
            callers = call_sites(ctx.index, callee)
            if not callers:
                ctx.ok(key, f"`{txt}`: parameter `{k.param}` of public function {f.qualname} (caller's order)", nontrivial=False)
                return
            ctx.ok(key, f"`{txt}`: parameter `{k.param}`, followed to {len(callers)} caller(s)", nontrivial=False)
            for (cf, cc), (ckey, _) in zip(callers, ordinal_keys(callers, lambda fc: f"{fc[0].key}:{callee.name}({k.param})")):
                if id(cc) in seen_follow:
                    continue
                seen_follow.add(id(cc))
                a = arg_for(cc, callee, k.param)
                if a is None:
                    ctx.error(f"cannot bind parameter {k.param} at call of {callee.qualname} in {cf.key}")
                judge(ckey, cf, a, f"{cf.module.path}:{cc.lineno}", depth + 1)
        elif k.k == PARAM:
            ctx.ok(key, f"`{txt}`: caller-supplied collection ({k.why})", nontrivial=False)
        else:
            if f.module.relpath in ANCHOR_FILES:
                ctx.error(f"cannot classify `{txt}` in {f.key}: {k.why}")
            ctx.note(f"unclassified allitems `{txt}` in {f.key}: {k.why}")

    for (f, c, t), (key, _) in zip(sites, ordinal_keys(sites, lambda s: f"{s[0].key}:{s[2].name}(allitems)")):
        a = arg_for(c, t, t.params[1])
        ctx.require(a is not None, f"call of {t.name} in {f.key} does not pass the items argument")
        judge(key, f, a, f"{f.module.path}:{c.lineno}", 0)


# ------------------------------------------------------------------ R4: single-pass discipline
ONE_SHOT_ANNOTATIONS = ("Iterable", "Iterator", "Generator", "AsyncIterable", "AsyncIterator")
ITERABLE_ANNOTATIONS = ("Collection", "Sequence", "Set", "FrozenSet", "List", "Tuple", "AbstractSet", "MutableSet",
                        "MutableSequence", "Container")
_NO_TRAVERSAL = ("isinstance", "id", "type", "callable", "len", "bool", "repr")
_COLLECTION_CALLS = ("list", "tuple", "set", "frozenset", "sorted", "dict", "OrderedSet", "IdentitySet", "OrderedDict")
_COLLECTION_METHODS = ("union", "difference", "intersection", "symmetric_difference", "copy", "values", "keys",
                       "items", "split", "splitlines")
_ONE_SHOT_CALLS = ("zip", "map", "filter", "iter", "reversed", "enumerate", "chain", "from_iterable", "islice",
                   "product", "permutations", "combinations", "starmap", "takewhile", "dropwhile", "groupby", "zip_longest")


def _annotation_head(a: ast.arg):
    if a.annotation is None:
        return None
    t = unparse(a.annotation).strip("'\"")
    return t.split("[", 1)[0].rsplit(".", 1)[-1]


class _Traversals:
    """How often (0, 1, 2 = more than once) a function may traverse the object its caller passed for a
    parameter, on some path, before rebinding the name to a materialised copy."""

    def __init__(self, ctx):
        self.ctx = ctx
        self.memo = {}

    def _weight(self, fn, occ, pm, active):
        """traversals caused by one Load occurrence of the parameter"""
        par = pm.get(occ)
        # evaluated repeatedly inside a comprehension (anywhere but the first iterable)?
        node, repeated = occ, False
        for anc in _ancestors(pm, occ):
            if isinstance(anc, (ast.ListComp, ast.SetComp, ast.GeneratorExp, ast.DictComp)):
                first_iter = anc.generators[0].iter
                if not any(x is node for x in ast.walk(first_iter)):
                    repeated = True
            if isinstance(anc, ast.stmt):
                break
        if isinstance(par, ast.Compare) and all(isinstance(o, (ast.Is, ast.IsNot)) for o in par.ops):
            return 0, "identity test"
        if isinstance(par, (ast.If, ast.While, ast.IfExp)) and par.test is occ:
            return 0, "truth test"
        if isinstance(par, ast.UnaryOp) and isinstance(par.op, ast.Not):
            return 0, "truth test"
        if isinstance(par, ast.BoolOp):
            return 0, "truth test"
        w, how = 1, "traversed"
        if isinstance(par, ast.Call) and any(a is occ for a in par.args) or \
                isinstance(par, ast.keyword) and isinstance(pm.get(par), ast.Call):
            call = par if isinstance(par, ast.Call) else pm.get(par)
            nm = call_name(call) or ""
            if nm in _NO_TRAVERSAL:
                return 0, f"{nm}() does not traverse"
            callee = self.ctx.index.resolve(fn.module, nm) if nm and "()" not in nm else None
            if callee is not None and hasattr(callee, "params") and hasattr(callee, "node"):
                q = None
                for cand in callee.params:
                    if arg_for(call, callee, cand) is occ:
                        q = cand
                if q is not None:
                    w, _ = self.count(callee, q, active)
                    how = f"{callee.name}() traverses its `{q}` {['never', 'once', 'more than once'][w]}"
        if repeated and w:
            return 2, how + " (re-evaluated for every element of an enclosing comprehension)"
        return w, how

    def count(self, fn, p, active=()):
        key = (fn.key, p)
        if key in self.memo:
            return self.memo[key]
        if key in active:
            return 1, ["recursive"]
        active = active + (key,)
        self.ctx.functions_analysed.add(fn.key)
        g = self.ctx.cfg(fn)
        pm = fn.module.parents()
        users, kills = [], set()
        for n in g.nodes:
            st = n.stmt
            if st is None or not isinstance(st, ast.stmt) or n.kind in ("with_exit", "join"):
                continue
            tot, hows = 0, []
            for part in own_exprs(st):
                for x in ast.walk(part):
                    if isinstance(x, ast.Name) and x.id == p and isinstance(x.ctx, ast.Load):
                        w, how = self._weight(fn, x, pm, active)
                        tot += w
                        if w:
                            hows.append(how)
            if tot:
                users.append((n.id, tot, f"line {getattr(st, 'lineno', '?')}: `{unparse(own_exprs(st)[0])[:70]}` ({'; '.join(hows)})"))
            if isinstance(st, (ast.Assign, ast.AnnAssign)) and st.value is not None:
                tg = st.targets if isinstance(st, ast.Assign) else [st.target]
                if any(isinstance(t, ast.Name) and t.id == p for t in tg) and _is_collection_expr(st.value):
                    kills.add(n.id)   # from here on the name is a materialised collection
        # only uses that can still see the caller's object count: reachable from the entry without passing a
        # rebinding of the name to a materialised copy (the copy statement itself traverses the original once)
        live = g.reachable([g.entry], avoid=kills)
        first_kills = {k for k in kills if any(k == b for a_ in live for b, _ in g.succ[a_])}
        users = [u for u in users if u[0] in live or u[0] in first_kills]
        res = (0, [])
        for a, wa, da in users:
            if wa >= 2:
                res = (2, [da])
                break
        if res[0] == 0 and users:
            res = (1, [users[0][2]])
            for a, wa, da in users:
                if a in kills:
                    continue
                is_for_iter = g.nodes[a].kind == "for"
                reach = g.reachable([a], avoid=kills - {a}, include_starts=False,
                                    edge_ok=(lambda x, y, lab, a=a: not (y == a and lab == "loop")) if is_for_iter else None)
                hit = [(b, db) for b, wb, db in users if b in reach]
                if hit:
                    res = (2, [da, hit[0][1]])
                    break
        self.memo[key] = res
        return res


def _ancestors(pm, node):
    cur = pm.get(node)
    while cur is not None:
        yield cur
        cur = pm.get(cur)


def _is_collection_expr(e) -> bool:
    if isinstance(e, (ast.List, ast.Tuple, ast.Set, ast.Dict, ast.ListComp, ast.SetComp, ast.DictComp, ast.Constant)):
        return True
    if isinstance(e, ast.Call):
        nm = (call_name(e) or "").rsplit(".", 1)[-1]
        if isinstance(e.func, ast.Name) and nm in _COLLECTION_CALLS:
            return True
        if isinstance(e.func, ast.Attribute) and (nm in _COLLECTION_METHODS or nm in _COLLECTION_CALLS):
            return True
    if isinstance(e, ast.BinOp) and isinstance(e.op, (ast.Add, ast.BitOr, ast.BitAnd, ast.Sub)):
        return _is_collection_expr(e.left) or _is_collection_expr(e.right)
    return False


def _one_shot(ctx, fn, e, depth=0):
    """'one-shot' (why) | 'collection' | None (not classified) for an argument expression."""
    if depth > 4:
        return None, ""
    if isinstance(e, ast.GeneratorExp):
        return "one-shot", "a generator expression"
    if _is_collection_expr(e):
        return "collection", unparse(e)[:40]
    if isinstance(e, ast.Call):
        nm = call_name(e) or ""
        last = nm.rsplit(".", 1)[-1]
        if last in _ONE_SHOT_CALLS and (isinstance(e.func, ast.Name) or nm.startswith("itertools.")):
            return "one-shot", f"the iterator returned by {nm}()"
        callee = ctx.index.resolve(fn.module, nm) if nm and "()" not in nm else None
        if callee is not None and hasattr(callee, "node") and isinstance(callee.node, (ast.FunctionDef, ast.AsyncFunctionDef)):
            if any(isinstance(x, (ast.Yield, ast.YieldFrom)) for x in walk_local(callee.node)):
                return "one-shot", f"the generator returned by {callee.name}()"
        return None, ""
    if isinstance(e, ast.Name):
        if e.id in fn.params:
            return None, f"parameter `{e.id}`"
        from ..astutil import name_stores
        binds = [v for n, v, st in name_stores(fn.node) if n == e.id]
        kinds = [_one_shot(ctx, fn, v, depth + 1) for v in binds if v is not None]
        for k, why in kinds:
            if k == "one-shot":
                return k, f"`{e.id}` bound to {why}"
        if kinds and all(k == "collection" for k, _ in kinds) and len(kinds) == len(binds):
            return "collection", f"`{e.id}` (local collection)"
        return None, ""
    return None, ""


@R.rule("C19-R4", floor=22, template="T-PATH/T-SIBLING",
        desc="single-pass discipline: a parameter of util/topological.py annotated Iterable/Iterator is traversed at "
             "most once on every path (or materialised first); where a function traverses an argument more than "
             "once, no call site in the package passes a one-shot iterator (generator expression, zip/map/iter..)")
def r4(ctx):
    m = ctx.index.module(TOPO)
    tr = _Traversals(ctx)
    funcs = [f for f in ctx.index.all_functions(m) if f.cls is None and not f.type_only]
    ctx.require(funcs, "no functions in util/topological.py")
    multi = {}
    for f in funcs:
        a = f.node.args
        for arg in a.posonlyargs + a.args + a.kwonlyargs:
            n, wit = tr.count(f, arg.arg)
            if n >= 2:
                multi[(f.key, arg.arg)] = wit
            head = _annotation_head(arg)
            if head in ONE_SHOT_ANNOTATIONS:
                ctx.check(n <= 1, f"{f.key}:single-pass({arg.arg})",
                          f"parameter `{arg.arg}` is declared {head}[..] (may be a one-shot iterator: zip(), a generator) but "
                          f"{f.name} traverses it more than once; the second traversal of an iterator is empty, so the "
                          f"result silently ignores the input: " + " THEN ".join(wit),
                          f"`{arg.arg}`: {head}, traversed {['never', 'once'][min(n, 1)]}", f.loc, wit)
    # call sites of the public functions: an argument that is traversed more than once must be re-iterable
    sites = []
    for f in funcs:
        if f.name.startswith("_"):
            continue
        for cf, c in call_sites(ctx.index, f):
            if cf.module is m:
                continue   # delegation inside the module is part of the traversal count above
            sites.append((cf, c, f))
    sites.sort(key=lambda s: (s[0].module.relpath, s[1].lineno, s[1].col_offset))
    ctx.require(sites, "no call sites of util/topological.py functions in the package")
    judged = []
    for cf, c, f in sites:
        fa = f.node.args
        for arg in fa.posonlyargs + fa.args + fa.kwonlyargs:
            if _annotation_head(arg) not in ONE_SHOT_ANNOTATIONS + ITERABLE_ANNOTATIONS:
                continue
            a = arg_for(c, f, arg.arg)
            if a is not None:
                judged.append((cf, c, f, arg.arg, a))
    for (cf, c, f, q, a), (key, _) in zip(judged, ordinal_keys(judged, lambda s: f"{s[0].key}:{s[2].name}({s[3]}):re-iterable")):
        ctx.functions_analysed.add(cf.key)
        k, why = _one_shot(ctx, cf, a)
        loc = f"{cf.module.path}:{c.lineno}"
        if (f.key, q) not in multi:
            ctx.ok(key, f"{f.name} traverses its `{q}` at most once", nontrivial=False)
        elif k == "one-shot":
            ctx.violation(key, f"`{unparse(a)[:60]}` is {why}, but {f.name} traverses its `{q}` more than once "
                               f"({' THEN '.join(multi[(f.key, q)])}): every traversal after the first sees nothing", loc)
        elif k == "collection":
            ctx.ok(key, f"`{unparse(a)[:50]}` is a collection ({why})")
        else:
            ctx.ok(key, f"`{unparse(a)[:50]}` not a syntactically one-shot iterator ({why or 'unclassified'})", nontrivial=False)


# ------------------------------------------------------------------ R5: the result is a function of BOTH inputs
# {(function key, parameter): reason} -- parameters that are documented as ignored
UNUSED_BY_CONTRACT = {
    (f"{TOPO}::sort", "deterministic_order"):
        "documented in the docstring as no longer used (kept for backwards compatibility with Alembic)",
}


@R.rule("C19-R5", floor=12, template="T-FLOW/T-SIBLING",
        desc="every input parameter of the public functions of util/topological.py (items and dependency pairs) is "
             "read by the function: a result that is computed without reading `allitems` cannot be restricted to "
             "'the items that lie on a cycle', one computed without the pairs cannot respect them; the three functions "
             "answer for the same graph: sort() hands its OWN pairs and items (element for element) to sort_as_subsets() and "
             "yields every element of every subset; sort_as_subsets() and find_cycles() enter every pair into their edge map "
             "(no selection by a test on the pair's members)")
def r5(ctx):
    m = ctx.index.module(TOPO)
    public = ctx.ev.module_value(m, "__all__")
    ctx.require(isinstance(public, (list, tuple)) and public, "util/topological.py: __all__ not readable")
    for name in public:
        f = ctx.func(f"{TOPO}::{name}")
        ctx.functions_analysed.add(f.key)
        a = f.node.args
        for arg in a.posonlyargs + a.args + a.kwonlyargs:
            key = f"{f.key}:parameter-read({arg.arg})"
            reads = [n for st in f.node.body for n in ast.walk(st)
                     if isinstance(n, ast.Name) and n.id == arg.arg and isinstance(n.ctx, ast.Load)]
            why = UNUSED_BY_CONTRACT.get((f.key, arg.arg))
            if why is not None:
                ctx.ok(key, f"ignored by contract: {why}", nontrivial=False)
                continue
            ctx.check(bool(reads), key,
                      f"{name}() never reads its parameter `{arg.arg}`: the result is the same whatever is passed, so it "
                      f"cannot be confined to / take account of `{arg.arg}` (e.g. cycles among objects that are not in the "
                      f"item collection are reported as if they were items)",
                      f"`{arg.arg}` read {len(reads)} time(s)", f.loc)
    _sort_is_flattened_subsets(ctx)
    for name in ("sort_as_subsets", "find_cycles"):
        _every_pair_enters_edge_map(ctx, ctx.func(f"{TOPO}::{name}"))


def _top_stmt(f, node):
    """the statement of f's own body that contains `node`"""
    for st in f.node.body:
        if any(x is node for x in ast.walk(st)):
            return st
    return None


def _sort_is_flattened_subsets(ctx):
    """sort(tuples, allitems) is by definition the flattening of sort_as_subsets(tuples, allitems): the three public
    functions answer for the SAME graph only if sort() hands over its own inputs -- every pair, every item, unchanged
    (a filtered / mapped copy makes sort() disagree with sort_as_subsets() and find_cycles() on the pairs left out) --
    and yields every element of every subset."""
    s = ctx.func(f"{TOPO}::sort")
    sas = ctx.func(f"{TOPO}::sort_as_subsets")
    calls = []
    for c in calls_in(s.node):
        r = ctx.index.resolve(s.module, call_name(c) or "") if call_name(c) and "()" not in call_name(c) else None
        if r is not None and getattr(r, "key", None) == sas.key:
            calls.append(c)
    ctx.require(len(calls) == 1, f"sort() calls sort_as_subsets {len(calls)} time(s): delegation not understood")
    call = calls[0]
    at = _top_stmt(s, call)
    ctx.require(len(s.params) >= 2 and len(sas.params) >= 2, "sort / sort_as_subsets no longer take (pairs, items)")
    for own, theirs, what in ((s.params[0], sas.params[0], "dependency pairs"), (s.params[1], sas.params[1], "items")):
        a = arg_for(call, sas, theirs)
        ok = a is not None and _same_input(ctx, s, a, own, at)
        shown = "nothing" if a is None else f"`{unparse(a)[:60]}`"
        if a is not None and isinstance(a, ast.Name) and not ok:
            vals = [unparse(v)[:90] for n, v, st in name_stores(s.node) if n == a.id and v is not None]
            if vals:
                shown += " = " + " / ".join(f"`{v}`" for v in vals)
        ctx.check(ok, f"{s.key}:delegates-own-input({own})",
                  f"sort() hands {shown} to sort_as_subsets() as the {what} instead of its own `{own}` (the object itself or "
                  f"an element-for-element copy): {what} are left out or changed before the sort, so sort() no longer orders / "
                  f"reports cycles for the graph it was given and disagrees with sort_as_subsets() and find_cycles() on the "
                  f"same input (e.g. a dropped pair (x, x) is a one-node cycle the other two report)",
                  f"sort_as_subsets({theirs}=<own `{own}`>)", f"{s.module.path}:{call.lineno}")
    # every element of every subset is yielded
    g = ctx.cfg(s)
    holders = [n for n, v, st in name_stores(s.node) if v is call]
    if holders:
        ctx.require(len(holders) == 1 and sum(1 for n, v, st in name_stores(s.node) if n == holders[0]) == 1,
                    "sort(): the result of sort_as_subsets() is bound more than once")
    loops = [n for n in walk_local(s.node) if isinstance(n, (ast.For,)) and (
        any(x is call for x in ast.walk(n.iter)) or (holders and isinstance(n.iter, ast.Name) and n.iter.id == holders[0]))]
    ctx.require(len(loops) == 1 and isinstance(loops[0].target, ast.Name),
                "sort(): `for <subset> in sort_as_subsets(..)` not found (flattening not understood)")
    loop = loops[0]
    sub_name = loop.target.id
    ys = [n for n in walk_local(s.node) if isinstance(n, (ast.Yield, ast.YieldFrom))]
    problems = []
    covered = False
    pm = s.module.parents()
    for y in ys:
        st = enclosing_stmt(pm, y)
        inner = None
        if isinstance(y, ast.YieldFrom) and isinstance(y.value, ast.Name) and y.value.id == sub_name:
            pass
        elif isinstance(y, ast.Yield) and isinstance(y.value, ast.Name):
            inner = next((lp for lp in ast.walk(loop) if isinstance(lp, ast.For) and lp is not loop and isinstance(lp.target, ast.Name)
                          and lp.target.id == y.value.id and isinstance(lp.iter, ast.Name) and lp.iter.id == sub_name
                          and any(x is y for x in ast.walk(lp))), None)
            ctx.require(inner is not None, f"sort(): `{unparse(y)}` is not an element of a subset (flattening not understood)")
        else:
            ctx.error(f"sort(): `{unparse(y)}` is not an element of a subset (flattening not understood)")
        if not any(x is y for x in ast.walk(loop)):
            ctx.error(f"sort(): `{unparse(y)}` outside the loop over sort_as_subsets()")
        guards = [gd for nid in g.nodes_for(st)[:1] for gd in g.edge_guards(nid)]
        if guards:
            problems.append(f"`{unparse(y)}` runs only under {[(unparse(t)[:50], p) for t, p in guards]}")
        else:
            covered = True
    early = [n for n in ast.walk(loop) if isinstance(n, (ast.Break, ast.Return))]
    if early:
        problems.append(f"the flattening loop can stop early (line {early[0].lineno})")
    ctx.check(covered and not problems, f"{s.key}:yields-every-element-of-every-subset",
              "sort() does not yield every element of every subset of sort_as_subsets(): " + ("; ".join(problems) or "no yield"),
              f"for {sub_name} in sort_as_subsets(..): yield every element, unconditionally", f"{s.module.path}:{loop.lineno}")


def _every_pair_enters_edge_map(ctx, f):
    """The edge map is the function's whole view of the dependencies: every pair of the input must enter it.  A pair
    filtered out by a test on its own members (`if parent is not child`) silently removes a dependency -- for (x, x) the
    one-node cycle.  (Membership of a member in the item collection may be tested: pairs about non-items cannot matter.)"""
    pairs_p, items_p = f.params[0], f.params[1]
    g = ctx.cfg(f)
    builds = [n for n in walk_local(f.node) if isinstance(n, ast.For) and _same_input(ctx, f, n.iter, pairs_p, _top_stmt(f, n))
              and _pair_target(n) is not None]
    ctx.require(len(builds) == 1, f"{f.name}: expected one `for (a, b) in <pairs>` loop building the edge map, found {len(builds)}")
    loop = builds[0]
    members = set()
    t = loop.target
    members |= {x.id for x in ast.walk(t) if isinstance(x, ast.Name)}
    for st in loop.body:
        if isinstance(st, ast.Assign) and isinstance(st.value, ast.Name) and st.value.id in members:
            members |= {x.id for tg in st.targets for x in ast.walk(tg) if isinstance(x, ast.Name)}
    fills = []
    pm = f.module.parents()
    for c in calls_in(loop):
        if isinstance(c.func, ast.Attribute) and c.func.attr in ("add", "append", "update", "extend") \
                and {x.id for a in c.args for x in ast.walk(a) if isinstance(x, ast.Name)} & members:
            fills.append(c)
    for n in ast.walk(loop):
        if isinstance(n, (ast.Assign, ast.AugAssign)):
            tg = n.targets if isinstance(n, ast.Assign) else [n.target]
            if any(isinstance(x, ast.Subscript) for x in tg) and {x.id for x in ast.walk(n.value) if isinstance(x, ast.Name)} & members:
                fills.append(n)
    ctx.require(fills, f"{f.name}: nothing is stored from the pairs inside the edge-map loop")
    selective, unknown = [], []
    for c in fills:
        st = c if isinstance(c, ast.stmt) else enclosing_stmt(pm, c)
        for test, pol in dominating_guards(g, pm, f.node, c, st):
            if not any(x is test for x in ast.walk(loop)):
                continue    # a guard outside the loop does not select pairs
            names = {x.id for x in ast.walk(test) if isinstance(x, ast.Name)}
            if isinstance(test, ast.Compare) and len(test.ops) == 1 and isinstance(test.ops[0], (ast.In, ast.NotIn)) \
                    and _items_collection(ctx, f, test.comparators[0], items_p, st):
                continue    # membership in the items
            if names and names <= members:
                selective.append((unparse(test), pol))
            else:
                unknown.append(unparse(test))
    ctx.require(not unknown or selective, f"{f.name}: pairs enter the edge map under a condition that is not understood: {unknown}")
    ctx.check(not selective, f"{f.key}:every-pair-enters-edge-map",
              f"{f.name}() stores a dependency pair in its edge map only when {selective}: pairs are selected by a test on their "
              f"own members, so some dependencies among the items are ignored (a pair (x, x) is a cycle of one item that must "
              f"be reported)",
              f"{len(fills)} store(s) in `for .. in {pairs_p}`, unconditional", f"{f.module.path}:{loop.lineno}")


def _items_collection(ctx, f, e, items_p, at):
    if _same_input(ctx, f, e, items_p, _top_stmt(f, at) or at):
        return True
    return False


# ------------------------------------------------------------------ R6: a retry after CircularDependencyError
# Consumers that break cycles themselves (`try: sort(P, items) except CircularDependencyError: <remove pairs>; sort(P', items)`)
# may only give up pairs they are entitled to give up.  What a function is NOT entitled to give up is decided from its own
# structure: a pair collection of the first attempt that the function never reduces anywhere (its non-negotiable
# dependencies) and a collection that receives pairs handed in by the caller as such.  Every retry must sort a superset of
# those: the collection itself, or a union / copy containing it that is built after the removals and never reduced
# (a removal guarded by `pair not in <protected>` is fine).
_REMOVERS = ("discard", "remove", "difference_update", "intersection_update", "symmetric_difference_update", "clear", "pop")
_COPIES = ("set", "frozenset", "list", "tuple", "sorted")


class _PairSets:
    def __init__(self, ctx, f):
        from ._helpers_rob_c2 import Scope
        self.ctx, self.f = ctx, f
        self.sc = Scope(ctx, f)
        self.g = self.sc.g
        self.pm = f.module.parents()
        self.params = set(f.params)
        self.removals = {}      # name -> [(call/stmt, element expr or None, cfg node)]
        self.fills = {}         # name -> [(arg expr, cfg node)]
        for n in self.sc.local_walk():
            at = self.sc.node_of(n)
            if isinstance(n, ast.Call) and isinstance(n.func, ast.Attribute) and isinstance(n.func.value, ast.Name):
                nm = n.func.value.id
                if n.func.attr in _REMOVERS:
                    self.removals.setdefault(nm, []).append((n, n.args[0] if n.args else None, at))
                elif n.func.attr in ("add", "update", "append", "extend"):
                    for a in n.args:
                        self.fills.setdefault(nm, []).append((a, at))
            elif isinstance(n, ast.AugAssign) and isinstance(n.target, ast.Name):
                at = self.sc.node_of(n.value)
                if isinstance(n.op, (ast.Sub, ast.BitAnd, ast.BitXor)):
                    self.removals.setdefault(n.target.id, []).append((n, None, at))
                elif isinstance(n.op, (ast.BitOr, ast.Add)):
                    self.fills.setdefault(n.target.id, []).append((n.value, at))
            elif isinstance(n, ast.Delete):
                for t in n.targets:
                    if isinstance(t, ast.Subscript) and isinstance(t.value, ast.Name):
                        self.removals.setdefault(t.value.id, []).append((n, None, None))

    # -- structure of a pair-collection expression
    def _derived_value(self, v):
        """operands when `v` builds a new collection out of others: ('union'|'copy'|'lossy', [operands])"""
        if isinstance(v, ast.Call) and isinstance(v.func, ast.Attribute) and v.func.attr == "union":
            return "union", [v.func.value] + list(v.args)
        if isinstance(v, ast.BinOp) and isinstance(v.op, ast.BitOr):
            return "union", [v.left, v.right]
        if isinstance(v, ast.Call) and call_name(v) in _COPIES and len(v.args) == 1 and not v.keywords:
            return "copy", [v.args[0]]
        if isinstance(v, ast.Call) and isinstance(v.func, ast.Attribute) and v.func.attr == "copy" and not v.args:
            return "copy", [v.func.value]
        if isinstance(v, (ast.Set, ast.List, ast.Tuple)) and v.elts and all(isinstance(e, ast.Starred) for e in v.elts):
            return "union", [e.value for e in v.elts]
        if isinstance(v, ast.BinOp) and isinstance(v.op, (ast.Sub, ast.BitAnd, ast.BitXor)):
            return "lossy", [v.left]
        if isinstance(v, ast.Call) and isinstance(v.func, ast.Attribute) and \
                v.func.attr in ("difference", "intersection", "symmetric_difference"):
            return "lossy", [v.func.value]
        return None

    def _name_defs(self, name, at):
        """(derived values [(value, node)], is_base) of the collection a Name holds at `at`"""
        ds = self.sc.rd.at(at, name) if at is not None else []
        vals = [(d.value, d.node) for d in ds if d.kind == "assign" and not d.path and d.value is not None
                and (self._derived_value(d.value) is not None or isinstance(d.value, ast.Name))]
        return vals, len(vals) != len(ds) or not ds

    def bases(self, e, at, depth=0):
        """names of the collections built in place (filled, not derived) that `e` is made of"""
        if depth > 6:
            return set()
        if isinstance(e, ast.Name):
            vals, is_base = self._name_defs(e.id, at)
            out = {e.id} if is_base else set()
            for v, dn in vals:
                out |= self.bases(v, dn, depth + 1)
            return out
        dv = self._derived_value(e)
        if dv is None:
            return set()
        out = set()
        for op in dv[1]:
            out |= self.bases(op, at, depth + 1)
        return out

    def unguarded_removals(self, name, protected):
        """removal sites on collection `name` that are not dominated by `<element> not in <protected>`"""
        out = []
        for site, elem, at in self.removals.get(name, []):
            safe = False
            if elem is not None and at is not None:
                st = enclosing_stmt(self.pm, site)
                atoms = guard_atoms(dominating_guards(self.g, self.pm, self.f.node, site, st))
                want = unparse(elem).replace(" ", "")
                for a, pol in atoms:
                    a = a.replace(" ", "")
                    if not pol and a == f"{want}in{protected}":
                        safe = True
            if not safe:
                out.append(site)
        return out

    def superset_of(self, e, at, B, depth=0):
        """(True, how) when the collection `e` evaluates to at `at` contains every pair of base collection B;
        (False, why) otherwise"""
        if depth > 6:
            return False, "binding chain too deep"
        if isinstance(e, ast.Name):
            if e.id == B:
                return True, f"`{B}` itself"
            vals, is_base = self._name_defs(e.id, at)
            if is_base or not vals:
                return False, f"`{e.id}` is not built from `{B}`"
            for v, dn in vals:
                ok, why = self.superset_of(v, dn, B, depth + 1)
                if not ok:
                    return False, why
                # pairs that enter B after the copy was taken are not in the copy
                later = [n2 for _, n2 in self.fills.get(B, []) if n2 is not None and n2 in self.g.reachable([dn], include_starts=False)
                         and at in self.g.reachable([n2])]
                if later:
                    return False, f"`{e.id}` is a copy taken (line {v.lineno}) before `{B}` is complete"
            rem = self.unguarded_removals(e.id, B)
            if rem:
                r0 = rem[0]
                return False, (f"`{e.id}` = `{unparse(vals[0][0])[:70]}` (line {vals[0][0].lineno}) is reduced afterwards by "
                               f"`{unparse(r0)[:70]}` (line {r0.lineno}): the removal also takes out pairs that are in `{B}`")
            return True, f"`{e.id}` = `{unparse(vals[0][0])[:60]}`, never reduced"
        dv = self._derived_value(e)
        if dv is None:
            return False, f"`{unparse(e)[:60]}` is not understood as a collection built from `{B}`"
        kind, ops = dv
        if kind == "lossy":
            return False, f"`{unparse(e)[:60]}` removes pairs"
        whys = []
        for op in ops:
            ok, why = self.superset_of(op, at, B, depth + 1)
            if ok:
                return True, why
            whys.append(why)
        return False, "; ".join(whys[:2])

    def param_fed(self, name):
        """the collection receives, as such, pairs handed in by the caller (`B.update(<parameter>)`, `B = set(<parameter>)`)"""
        def is_param(e):
            while isinstance(e, ast.Call) and call_name(e) in _COPIES and len(e.args) == 1:
                e = e.args[0]
            return isinstance(e, ast.Name) and e.id in self.params and all(d.kind == "param" for d in self.sc.rd.defs if d.name == e.id)
        for a, at in self.fills.get(name, []):
            if is_param(a):
                return unparse(a)
        for d in self.sc.rd.defs:
            if d.name == name and d.kind == "assign" and d.value is not None and not d.path and is_param(d.value) \
                    and not isinstance(d.value, ast.Name):
                return unparse(d.value)
        return None


def _is_cde_handler(h: ast.ExceptHandler) -> bool:
    if h.type is None:
        return False
    ts = h.type.elts if isinstance(h.type, ast.Tuple) else [h.type]
    return any((dotted(t) or "").rsplit(".", 1)[-1] == "CircularDependencyError" for t in ts)


@R.rule("C19-R6", floor=3, template="T-FLOW/T-SIBLING",
        desc="a consumer that retries the sort after CircularDependencyError (sort_tables_and_constraints, "
             "Inspector.sort_tables_on_foreign_key_dependency) gives up only negotiable pairs: every pair collection of the "
             "first attempt that the function never reduces itself, or that holds pairs handed in by the caller, is contained "
             "in the pairs of every retry (the collection itself, or a union/copy built from it that is not reduced "
             "afterwards), and caller-supplied pairs are never removed")
def r6(ctx):
    targets = [ctx.func(f"{TOPO}::sort"), ctx.func(f"{TOPO}::sort_as_subsets")]
    per_fn = {}
    for t in targets:
        for f, c in call_sites(ctx.index, t):
            if f.module.relpath == TOPO:
                continue
            per_fn.setdefault(f.key, (f, []))[1].append((c, t))
    n_retry = 0
    for fkey in sorted(per_fn):
        f, calls = per_fn[fkey]
        handlers = [h for h in walk_local(f.node) if isinstance(h, ast.ExceptHandler) and _is_cde_handler(h)]
        if not handlers:
            continue
        ps = _PairSets(ctx, f)
        g = ps.g
        pm = ps.pm
        firsts, retries = [], []
        hnodes = [nid for h in handlers for nid in g.nodes_for(h)]
        after = g.reachable(hnodes) if hnodes else set()
        for c, t in sorted(calls, key=lambda ct: (ct[0].lineno, ct[0].col_offset)):
            if not any(x is c for x in walk_local(f.node)):
                continue    # inside a nested function
            in_try = any(isinstance(a, ast.Try) and any(h in a.handlers for h in handlers) and any(x is c for b in a.body for x in ast.walk(b))
                         for a in _ancestors(pm, c))
            at = ps.sc.node_of(c)
            if in_try:
                firsts.append((c, t, at))
            elif at in after:
                retries.append((c, t, at))
        if not firsts or not retries:
            continue
        n_retry += 1
        ctx.functions_analysed.add(f.key)
        # the pair collections of the first attempt
        base_names = set()
        for c, t, at in firsts:
            a = arg_for(c, t, t.params[0])
            ctx.require(a is not None, f"{f.key}: first sort attempt passes no pairs")
            bs = ps.bases(a, at)
            ctx.require(bs, f"{f.key}: pair collections of `{unparse(a)[:60]}` not understood")
            base_names |= bs
        protected = {}
        for b in sorted(base_names):
            fed = ps.param_fed(b)
            if fed is not None:
                protected[b] = f"holds the caller's `{fed}`"
            elif not ps.removals.get(b):
                protected[b] = "never reduced by the function"
        # (1) caller supplied pairs are never removed
        fed_sets = [b for b in protected if protected[b].startswith("holds")]
        if fed_sets:
            bad = [(b, r) for b in fed_sets for r in ps.removals.get(b, [])]
            ctx.check(not bad, f"{f.key}:caller-pairs-never-removed",
                      "; ".join(f"`{unparse(r[0])[:60]}` (line {r[0].lineno}) removes pairs from `{b}`, which {protected[b]}"
                                for b, r in bad[:3]) + ": a dependency stated by the caller is dropped from the sort",
                      f"{', '.join(fed_sets)}: no removal", f.loc)
        # (2) every retry sorts a superset of the protected collections
        for key, (c, t, at) in ordinal_keys(retries, lambda r: f"{f.key}:retry-sort-keeps-protected-pairs"):
            a = arg_for(c, t, t.params[0])
            ctx.require(a is not None, f"{f.key}: retry passes no pairs")
            if not protected:
                ctx.ok(key, f"every pair collection of the first attempt ({', '.join(sorted(base_names))}) is reduced by the "
                            f"function itself: nothing is protected", nontrivial=False)
                continue
            lost = []
            hows = []
            for b in sorted(protected):
                ok, why = ps.superset_of(a, at, b)
                if ok:
                    hows.append(f"{b}: {why}")
                else:
                    lost.append(f"`{b}` ({protected[b]}) is not contained: {why}")
            ctx.check(not lost, key,
                      f"the retry `{unparse(c)[:70]}` after CircularDependencyError does not sort every protected pair: "
                      + "; ".join(lost) + " -- a fixed dependency that coincides with a pair given up by the cycle handler is "
                      "no longer respected by the second sort, and a cycle among the fixed dependencies is no longer reported",
                      "; ".join(hows), f"{f.module.path}:{c.lineno}")
    ctx.require(n_retry >= 2, f"only {n_retry} consumer(s) retrying the sort after CircularDependencyError found")


# ---------------------------------------------------------------------- self-test battery
# R1
R.mutant("todo-from-set", TOPO,
         sub("    todo = list(allitems)\n    todo_set = set(allitems)\n",
             "    todo_set = set(allitems)\n    todo = list(todo_set)\n"), "C19-R1")
R.mutant("iterate-pending-set", TOPO,
         sub("        for node in todo:\n            if todo_set.isdisjoint(edges[node]):",
             "        for node in todo_set:\n            if todo_set.isdisjoint(edges[node]):"), "C19-R1")
R.mutant("sort-yields-from-set", TOPO,
         sub("        yield from set_\n", "        yield from set(set_)\n"), "C19-R1")
R.mutant("todo-rebuilt-from-set", TOPO,
         sub("        todo = [t for t in todo if t in todo_set]\n", "        todo = list(todo_set)\n"), "C19-R1")
R.mutant("find-cycles-returns-list", TOPO,
         sub("    return output\n\n\ndef _gen_edges", "    return list(output)\n\n\ndef _gen_edges"), "C19-R1")
# R2
R.mutant("edges-reversed", TOPO,
         sub("    for parent, child in tuples:\n        edges[child].add(parent)\n\n    todo",
             "    for parent, child in tuples:\n        edges[parent].add(child)\n\n    todo"), "C19-R2")
R.mutant("guard-negated", TOPO,
         sub("            if todo_set.isdisjoint(edges[node]):", "            if not todo_set.isdisjoint(edges[node]):"), "C19-R2")
R.mutant("guard-dropped", TOPO,
         sub("            if todo_set.isdisjoint(edges[node]):\n                output.append(node)",
             "            if node in todo_set:\n                output.append(node)"), "C19-R2")
R.mutant("no-removal", TOPO,
         sub("        todo_set.difference_update(output)\n", "        todo_set.difference(output)\n"), "C19-R2")
R.mutant("removal-only-sometimes", TOPO,
         sub("        todo_set.difference_update(output)\n",
             "        if len(output) > 1:\n            todo_set.difference_update(output)\n"), "C19-R2")
R.mutant("empty-round-not-raised", TOPO,
         sub("        if not output:\n            raise CircularDependencyError(",
             "        if output is None:\n            raise CircularDependencyError("), "C19-R2")
R.mutant("cycles-not-carried", TOPO,
         sub("                find_cycles(tuples, allitems),\n", "                set(),\n"), "C19-R2")
R.mutant("pending-starts-empty", TOPO,
         sub("    todo_set = set(allitems)\n", "    todo_set = set(tuples)\n"), "C19-R2")
def _seed_cycles_from_remainder(src: str) -> str:
    """essence of seeded change C19/1: `cycles` computed by a new helper over (edges, pending set)"""
    from ..report import MutantNotApplicable
    a = "                find_cycles(tuples, allitems),\n"
    b = "\ndef _gen_edges("
    if src.count(a) != 1 or src.count(b) != 1:
        raise MutantNotApplicable("anchor text not found")
    src = src.replace(a, "                _blocked(edges, todo_set),\n")
    helper = (
        "\ndef _blocked(edges, remaining):\n"
        "    remaining = set(remaining)\n"
        "    while True:\n"
        "        waited_on = set()\n"
        "        for node in remaining:\n"
        "            waited_on.update(edges[node])\n"
        "        leaves = remaining.difference(waited_on)\n"
        "        if not leaves:\n"
        "            return remaining\n"
        "        remaining.difference_update(leaves)\n\n"
    )
    return src.replace(b, helper + b)


def _benign_cycles_helper(src: str) -> str:
    from ..report import MutantNotApplicable
    a = "                find_cycles(tuples, allitems),\n"
    b = "\ndef _gen_edges("
    if src.count(a) != 1 or src.count(b) != 1:
        raise MutantNotApplicable("anchor text not found")
    src = src.replace(a, "                _cycles_of(allitems, tuples),\n")
    return src.replace(b, "\ndef _cycles_of(items, pairs):\n    return find_cycles(pairs, items)\n\n" + b)


R.mutant("cycles-from-new-helper-over-pending-set", TOPO, _seed_cycles_from_remainder, "C19-R2")
R.mutant("cycles-of-pending-set-only", TOPO,
         sub("                find_cycles(tuples, allitems),\n", "                set(todo_set),\n"), "C19-R2")
R.mutant("benign-cycles-in-local", TOPO,
         sub("        if not output:\n            raise CircularDependencyError(\n                \"Circular dependency detected.\",\n                find_cycles(tuples, allitems),\n",
             "        if not output:\n            cyc = find_cycles(tuples, allitems)\n            raise CircularDependencyError(\n                \"Circular dependency detected.\",\n                cyc,\n"), None)
R.mutant("benign-cycles-through-helper", TOPO, _benign_cycles_helper, None)
R.mutant("benign-pairs-materialised-first", TOPO,
         sub("    edges: DefaultDict[_T, Set[_T]] = util.defaultdict(set)\n    for parent, child in tuples:\n        edges[child].add(parent)\n",
             "    tuples = list(tuples)\n    edges: DefaultDict[_T, Set[_T]] = util.defaultdict(set)\n    for parent, child in tuples:\n        edges[child].add(parent)\n"), None)
# R4
R.mutant("find-cycles-second-pass-over-pairs", TOPO,
         sub("    nodes_to_test = set(edges).intersection(allitems)\n", "    nodes_to_test = set(edges).intersection(allitems).intersection(c for _, c in tuples)\n"), "C19-R4")
R.mutant("find-cycles-pairs-traversed-per-node", TOPO,
         sub("        todo = nodes_to_test.difference(stack)\n", "        todo = {p for p, _ in tuples}.difference(stack)\n"), "C19-R4")
R.mutant("find-cycles-items-traversed-twice", TOPO,
         sub("    nodes_to_test = set(edges).intersection(allitems)\n", "    nodes_to_test = set(edges).intersection(allitems)\n    isolated = set(allitems).difference(edges)\n"), "C19-R4")
R.mutant("ddl-passes-generator-of-pairs", "sql/ddl.py",
         sub("    try:\n        candidate_sort = list(\n            topological.sort(\n                fixed_dependencies.union(mutable_dependencies),\n",
             "    try:\n        candidate_sort = list(\n            topological.sort(\n                (d for d in fixed_dependencies.union(mutable_dependencies)),\n"), "C19-R4")
R.mutant("decl-base-passes-iterator", "orm/decl_base.py",
         sub("        return list(topological.sort(tuples, classes_for_base))", "        return list(topological.sort(iter(tuples), classes_for_base))"), "C19-R4")
R.mutant("benign-find-cycles-materialises-then-second-pass", TOPO,
         sub("    for parent, child in tuples:\n        edges[parent].add(child)\n    nodes_to_test = set(edges).intersection(allitems)\n",
             "    tuples = list(tuples)\n    for parent, child in tuples:\n        edges[parent].add(child)\n    nodes_to_test = set(edges).intersection(allitems).intersection(c for _, c in tuples)\n"), None)
R.mutant("benign-find-cycles-identity-test", TOPO,
         sub("    for parent, child in tuples:\n        edges[parent].add(child)\n    nodes_to_test = set(edges).intersection(allitems)\n",
             "    if tuples is None:\n        return set()\n    for parent, child in tuples:\n        edges[parent].add(child)\n    nodes_to_test = set(edges).intersection(allitems)\n"), None)
# R5
R.mutant("sort-ignores-dependency-pairs", TOPO,
         sub("    for set_ in sort_as_subsets(tuples, allitems):\n", "    for set_ in sort_as_subsets((), allitems):\n"), "C19-R5")
R.mutant("sort-ignores-items", TOPO,
         sub("    for set_ in sort_as_subsets(tuples, allitems):\n", "    for set_ in sort_as_subsets(tuples, [x for pair in tuples for x in pair]):\n"), "C19-R5")
R.mutant("benign-find-cycles-docstring", TOPO,
         sub("    # adapted from:\n", "    # (pairs whose members are not items are ignored)\n    # adapted from:\n"), None)
# R3
R.mutant("uow-unsorted-actions", "orm/unitofwork.py",
         sub("        postsort_actions = sorted(\n            postsort_actions,\n            key=lambda item: item.sort_key,\n        )\n",
             "        postsort_actions = list(postsort_actions)\n"), "C19-R3")
R.mutant("ddl-sorts-a-set", "sql/ddl.py",
         sub("                fixed_dependencies.union(mutable_dependencies),\n                tables,\n            )\n        )\n    except",
             "                fixed_dependencies.union(mutable_dependencies),\n                set(tables),\n            )\n        )\n    except"), "C19-R3")
R.mutant("create-all-from-set", "sql/ddl.py",
         sub("        collection = sort_tables_and_constraints(\n            [t for t in tables if self._can_create_table(t)]\n        )",
             "        collection = sort_tables_and_constraints(\n            {t for t in tables if self._can_create_table(t)}\n        )"), "C19-R3")
R.mutant("sorted-tables-from-set", "sql/schema.py",
         sub("            sorted(self.tables.values(), key=lambda t: t.key)  # type: ignore[attr-defined]  # noqa: E501",
             "            set(self.tables.values())"), "C19-R3")
# benign refactors
def _rename_output(src: str) -> str:
    head, sep, tail = src.partition("\ndef sort(")
    if not sep or "output" not in head:
        from ..report import MutantNotApplicable
        raise MutantNotApplicable("sort_as_subsets/output not found")
    return head.replace("output", "ready_nodes").replace("todo_set", "pending") + sep + tail


R.mutant("benign-rename-locals", TOPO, _rename_output, None)
R.mutant("benign-guard-spelling", TOPO,
         sub("            if todo_set.isdisjoint(edges[node]):", "            if edges[node].isdisjoint(todo_set):"), None)
R.mutant("benign-unpack-list", TOPO,
         sub("    todo = list(allitems)\n", "    todo = [*allitems]\n"), None)
R.mutant("benign-uow-logging", "orm/unitofwork.py",
         sub("        # execute\n        if self.cycles:\n", "        # execute\n        _n = len(postsort_actions)\n        if self.cycles:\n"), None)


# ------------------------------------------------------------------ rob-B1: refactoring families (R2 must read the
# semantics, not the shape): comprehension <-> loop, guard clause with `continue`, predicate helper, boolean local,
# any()/all() spelling, inverted round, exception built/raised by a helper, pending set from the list copy,
# removal by rebinding, pair unpacked in the body -- each with a breaking twin in the same shape
_EMIT = ("        output = []\n        for node in todo:\n            if todo_set.isdisjoint(edges[node]):\n"
         "                output.append(node)\n")
_RAISE = ("            raise CircularDependencyError(\n                \"Circular dependency detected.\",\n"
          "                find_cycles(tuples, allitems),\n                _gen_edges(edges),\n            )\n")
_TAIL = ("        todo_set.difference_update(output)\n        todo = [t for t in todo if t in todo_set]\n        yield output\n")
_DEF_SORT = "\n\ndef sort(\n"
_HELPER_READY = "\n\ndef _is_ready(item, prerequisites, pending):\n    return pending.isdisjoint(prerequisites[item])\n"
_HELPER_EXC = ("\n\ndef _cycle_error(pairs, items, edge_map):\n    return CircularDependencyError(\n        \"Circular dependency detected.\",\n"
               "        find_cycles(pairs, items),\n        _gen_edges(edge_map),\n    )\n")
_HELPER_RAISE = ("\n\ndef _raise_cycle(pairs, items, edge_map):\n    raise CircularDependencyError(\n        \"Circular dependency detected.\",\n"
                 "        find_cycles(pairs, items),\n        _gen_edges(edge_map),\n    )\n")

R.mutant("benign-emit-by-comprehension", TOPO,
         sub(_EMIT, "        output = [node for node in todo if todo_set.isdisjoint(edges[node])]\n"), None)
R.mutant("benign-filter-by-loop", TOPO,
         sub("        todo = [t for t in todo if t in todo_set]\n",
             "        still = []\n        for t in todo:\n            if t in todo_set:\n                still.append(t)\n        todo = still\n"), None)
R.mutant("emit-by-comprehension-unguarded", TOPO,
         sub(_EMIT, "        output = [node for node in todo if node in todo_set]\n"), "C19-R2")
R.mutant("emit-by-comprehension-guard-negated", TOPO,
         sub(_EMIT, "        output = [node for node in todo if not todo_set.isdisjoint(edges[node])]\n"), "C19-R2")
R.mutant("benign-emit-guard-clause-continue", TOPO,
         sub(_EMIT, "        output = []\n        for node in todo:\n            if not todo_set.isdisjoint(edges[node]):\n"
                    "                continue\n            output.append(node)\n"), None)
R.mutant("emit-guard-clause-continue-inverted", TOPO,
         sub(_EMIT, "        output = []\n        for node in todo:\n            if todo_set.isdisjoint(edges[node]):\n"
                    "                continue\n            output.append(node)\n"), "C19-R2")
R.mutant("benign-emit-guard-predicate-helper", TOPO,
         chain(sub("            if todo_set.isdisjoint(edges[node]):", "            if _is_ready(node, edges, todo_set):"),
               sub(_DEF_SORT, _HELPER_READY + _DEF_SORT)), None)
R.mutant("emit-guard-predicate-helper-wrong", TOPO,
         chain(sub("            if todo_set.isdisjoint(edges[node]):", "            if _is_ready(node, edges, todo_set):"),
               sub(_DEF_SORT, _HELPER_READY.replace("return pending", "return not pending") + _DEF_SORT)), "C19-R2")
R.mutant("benign-emit-guard-boolean-local", TOPO,
         sub("            if todo_set.isdisjoint(edges[node]):",
             "            blocked = todo_set.intersection(edges[node])\n            if not blocked:"), None)
R.mutant("benign-emit-guard-any-spelling", TOPO,
         sub("            if todo_set.isdisjoint(edges[node]):", "            if not any(p in todo_set for p in edges[node]):"), None)
R.mutant("emit-guard-any-spelling-wrong", TOPO,
         sub("            if todo_set.isdisjoint(edges[node]):", "            if any(p in todo_set for p in edges[node]):"), "C19-R2")
R.mutant("benign-round-inverted", TOPO,
         sub("        if not output:\n" + _RAISE + "\n" + _TAIL,
             "        if output:\n" + _TAIL.replace("        ", "            ") + "        else:\n" + _RAISE), None)
R.mutant("round-inverted-wrongly", TOPO,
         sub("        if not output:\n" + _RAISE + "\n" + _TAIL,
             "        if not output:\n" + _TAIL.replace("        ", "            ") + "        else:\n" + _RAISE), "C19-R2")
R.mutant("benign-exception-built-by-helper", TOPO,
         chain(sub(_RAISE, "            raise _cycle_error(tuples, allitems, edges)\n"), sub(_DEF_SORT, _HELPER_EXC + _DEF_SORT)), None)
R.mutant("benign-raise-in-helper", TOPO,
         chain(sub(_RAISE, "            _raise_cycle(tuples, allitems, edges)\n"), sub(_DEF_SORT, _HELPER_RAISE + _DEF_SORT)), None)
R.mutant("exception-helper-gets-pending-list", TOPO,
         chain(sub(_RAISE, "            raise _cycle_error(tuples, todo, edges)\n"), sub(_DEF_SORT, _HELPER_EXC + _DEF_SORT)), "C19-R2")
R.mutant("exception-helper-swaps-inputs", TOPO,
         chain(sub(_RAISE, "            raise _cycle_error(tuples, allitems, edges)\n"),
               sub(_DEF_SORT, _HELPER_EXC.replace("find_cycles(pairs, items)", "find_cycles(items, pairs)") + _DEF_SORT)), "C19-R2")
R.mutant("benign-pending-set-from-list-copy", TOPO,
         sub("    todo_set = set(allitems)\n", "    todo_set = set(todo)\n"), None)
R.mutant("benign-removal-by-rebinding", TOPO,
         sub("        todo_set.difference_update(output)\n", "        todo_set = todo_set - set(output)\n"), None)
R.mutant("removal-by-rebinding-wrong-operand", TOPO,
         sub("        todo_set.difference_update(output)\n", "        todo_set = todo_set - set(edges)\n"), "C19-R2")
R.mutant("benign-pair-unpacked-in-body", TOPO,
         sub("    for parent, child in tuples:\n        edges[child].add(parent)\n\n    todo",
             "    for pair in tuples:\n        parent, child = pair\n        edges[child].add(parent)\n\n    todo"), None)
R.mutant("pair-unpacked-in-body-swapped", TOPO,
         sub("    for parent, child in tuples:\n        edges[child].add(parent)\n\n    todo",
             "    for pair in tuples:\n        child, parent = pair\n        edges[child].add(parent)\n\n    todo"), "C19-R2")
R.mutant("benign-pair-indexed", TOPO,
         sub("    for parent, child in tuples:\n        edges[child].add(parent)\n\n    todo",
             "    for pair in tuples:\n        edges[pair[1]].add(pair[0])\n\n    todo"), None)
# the stored refactor benign/rfB_1.diff (and rfE_10) as a whole: locals renamed + loop -> comprehension for the emitted
# batch + comprehension -> loop for the remaining items
R.mutant("benign-rfB1-replica", TOPO,
         chain(sub(_EMIT, "        output = [\n            node\n            for node in todo\n            if todo_set.isdisjoint(edges[node])\n        ]\n"),
               sub("        todo = [t for t in todo if t in todo_set]\n",
                   "        still_remaining = []\n        for item in todo:\n            if item in todo_set:\n                still_remaining.append(item)\n        todo = still_remaining\n"),
               _rename_output), None)


# ------------------------------------------------------------------ str2-h (round-2 seeds): R5 sibling agreement, R6 retry
_SORT_LOOP = "    for set_ in sort_as_subsets(tuples, allitems):\n        yield from set_\n"
_SAS_BUILD = "    for parent, child in tuples:\n        edges[child].add(parent)\n\n    todo"
_FC_BUILD = "    for parent, child in tuples:\n        edges[parent].add(child)\n    nodes_to_test = set(edges).intersection(allitems)\n"
R.mutant("r5-seed-sort-drops-reflexive-pairs", TOPO,
         sub(_SORT_LOOP, "    tuples = [tup for tup in tuples if tup[0] is not tup[1]]\n\n" + _SORT_LOOP), "C19-R5")
R.mutant("r5-sort-delegates-filtered-pairs-inline", TOPO,
         sub(_SORT_LOOP, "    for set_ in sort_as_subsets(\n        [(p, c) for p, c in tuples if p != c], allitems\n    ):\n        yield from set_\n"), "C19-R5")
R.mutant("r5-sort-delegates-filtered-items", TOPO,
         sub(_SORT_LOOP, "    items = [i for i in allitems if i is not None]\n    for set_ in sort_as_subsets(tuples, items):\n        yield from set_\n"), "C19-R5")
R.mutant("r5-sort-skips-single-item-subsets", TOPO,
         sub(_SORT_LOOP, "    for set_ in sort_as_subsets(tuples, allitems):\n        if len(set_) > 1:\n            yield from set_\n"), "C19-R5")
R.mutant("r5-sort-as-subsets-ignores-self-pairs", TOPO,
         sub(_SAS_BUILD, "    for parent, child in tuples:\n        if parent is not child:\n            edges[child].add(parent)\n\n    todo"), "C19-R5")
R.mutant("r5-find-cycles-ignores-self-pairs", TOPO,
         sub(_FC_BUILD, "    for parent, child in tuples:\n        if parent is child:\n            continue\n        edges[parent].add(child)\n"
                        "    nodes_to_test = set(edges).intersection(allitems)\n"), "C19-R5")
R.mutant("benign-r5-sort-materialises-pairs-first", TOPO,
         sub(_SORT_LOOP, "    pairs = [pair for pair in tuples]\n    items = list(allitems)\n"
                         "    for subset in sort_as_subsets(pairs, items):\n        for item in subset:\n            yield item\n"), None)
R.mutant("benign-r5-sort-keyword-arguments", TOPO,
         sub(_SORT_LOOP, "    for set_ in sort_as_subsets(allitems=allitems, tuples=tuples):\n        yield from set_\n"), None)
R.mutant("benign-r5-find-cycles-skips-pairs-of-non-items", TOPO,
         sub(_FC_BUILD, "    items = set(allitems)\n    for parent, child in tuples:\n        if parent in items:\n            edges[parent].add(child)\n"
                        "    nodes_to_test = set(edges).intersection(items)\n"), None)

_DDL_FIRST = ("    try:\n        candidate_sort = list(\n            topological.sort(\n                fixed_dependencies.union(mutable_dependencies),\n"
              "                tables,\n            )\n        )\n    except exc.CircularDependencyError as err:\n")
_DDL_RETRY = ("        candidate_sort = list(\n            topological.sort(\n                fixed_dependencies.union(mutable_dependencies),\n"
              "                tables,\n            )\n        )\n\n    return [\n")
_DDL_DISCARD = "                        mutable_dependencies.discard((dependent_on, table))\n"
_DDL_READD = ("                    dependent_on = fkc.referred_table\n                    if dependent_on is not table:\n"
              "                        mutable_dependencies.add((dependent_on, table))\n        candidate_sort")
R.mutant("r6-seed-combined-set-updated-in-place", "sql/ddl.py",
         chain(sub(_DDL_FIRST, "    dependencies = fixed_dependencies.union(mutable_dependencies)\n\n    try:\n"
                               "        candidate_sort = list(topological.sort(dependencies, tables))\n    except exc.CircularDependencyError as err:\n"),
               sub(_DDL_DISCARD, _DDL_DISCARD + "                        dependencies.discard((dependent_on, table))\n"),
               sub(_DDL_READD, _DDL_READD.replace("        candidate_sort", "                        dependencies.add((dependent_on, table))\n        candidate_sort")),
               sub(_DDL_RETRY, "        candidate_sort = list(topological.sort(dependencies, tables))\n\n    return [\n")), "C19-R6")
R.mutant("r6-handler-discards-from-fixed-dependencies", "sql/ddl.py",
         sub(_DDL_DISCARD, _DDL_DISCARD + "                        fixed_dependencies.discard((dependent_on, table))\n"), "C19-R6")
R.mutant("r6-retry-sorts-foreign-key-pairs-only", "sql/ddl.py",
         sub(_DDL_RETRY, "        candidate_sort = list(\n            topological.sort(\n                mutable_dependencies,\n"
                         "                tables,\n            )\n        )\n\n    return [\n"), "C19-R6")
R.mutant("r6-retry-subtracts-error-edges-from-union", "sql/ddl.py",
         sub(_DDL_RETRY, "        candidate_sort = list(\n            topological.sort(\n"
                         "                fixed_dependencies.union(mutable_dependencies).difference(\n                    err.edges\n                ),\n"
                         "                tables,\n            )\n        )\n\n    return [\n"), "C19-R6")
R.mutant("benign-r6-union-in-local-rebuilt-for-retry", "sql/ddl.py",
         chain(sub(_DDL_FIRST, "    dependencies = fixed_dependencies | mutable_dependencies\n\n    try:\n"
                               "        candidate_sort = list(topological.sort(dependencies, tables))\n    except exc.CircularDependencyError as err:\n"),
               sub(_DDL_RETRY, "        dependencies = fixed_dependencies | mutable_dependencies\n"
                               "        candidate_sort = list(topological.sort(dependencies, tables))\n\n    return [\n")), None)
R.mutant("benign-r6-combined-set-discard-guarded-by-fixed", "sql/ddl.py",
         chain(sub(_DDL_FIRST, "    dependencies = fixed_dependencies.union(mutable_dependencies)\n\n    try:\n"
                               "        candidate_sort = list(topological.sort(dependencies, tables))\n    except exc.CircularDependencyError as err:\n"),
               sub(_DDL_DISCARD, _DDL_DISCARD + "                        pair = (dependent_on, table)\n"
                                                "                        if pair not in fixed_dependencies:\n"
                                                "                            dependencies.discard(pair)\n"),
               sub(_DDL_READD, _DDL_READD.replace("        candidate_sort", "                        dependencies.add((dependent_on, table))\n        candidate_sort")),
               sub(_DDL_RETRY, "        candidate_sort = list(topological.sort(dependencies, tables))\n\n    return [\n")), None)
R.mutant("benign-r6-retry-after-the-handler", "sql/ddl.py",
         chain(sub(_DDL_FIRST, "    candidate_sort = None\n" + _DDL_FIRST),
               sub(_DDL_RETRY, "    if candidate_sort is None:\n        all_pairs = set(fixed_dependencies)\n        all_pairs.update(mutable_dependencies)\n"
                               "        candidate_sort = list(topological.sort(all_pairs, tables))\n\n    return [\n")), None)
