"""C28 -- Event listeners fire exactly as registered (once-locking + bookkeeping pairing)."""

from __future__ import annotations

import ast

from ..astutil import (
    attr_stores, call_name, calls_in, dotted, enclosing_withs, guard_atoms, name_stores, parent_map,
    unparse, walk_local, walk_stmts,
)
from ..cfg import no_exc
from ..report import Registry, sub, chain
from ._helpers_rules_c import (
    PathSense, both, call_nodes, calls_ending, cut_edges, is_false, is_true, kw_or_pos, must_pass, own_calls,
    test_edges,
)
from ._helpers_str_l import assignments, branch_atoms, consistent_ok, describe_facts
from ._helpers_rob_f1 import Inliner, rcall_nodes, test_edges_inl, with_inlined_tests
from ._helpers_str2_l import ancestry_kind, pure_helper_value, slot_insertions

R = Registry(
    "C28",
    title="Event listeners fire exactly as registered",
    decides=(
        "once-locking and bookkeeping shape of the event collections: exec-once re-tests, invokes and sets "
        "its flag under one mutex, sets the flag on success / on failure without retry and never on failure "
        "with retry; the mutex is created test-and-set under mini_gil; the sync-on-first-run flag is set only "
        "after success; insert/append map to appendleft/append at class and instance level, walk the same "
        "subclasses and pair every collection update with its registry update (remove/clear undo all of "
        "them, directly or through the event key's list helpers); dispatch calls parent listeners then own "
        "listeners once each; subclass propagation adds only listeners not yet present; every for_modify() "
        "returns the collection that is installed on the owner (the placeholder's lazy install is a guarded "
        "test-and-set in one mini_gil region, returns what it installed / what is installed, and mini_gil is a "
        "lock in every build); update_subclass gathers inherited listeners from the whole ancestry of a later-created "
        "class (the lazily filled class-level map must not end the walk at an untouched base); the two registry maps "
        "are written as inverse relations by everything that adds to them, each entry into the mapping the registry "
        "itself holds (not into a default handed out for a missing key)."
    ),
    not_decided=(
        "full listen/remove/propagate semantics over histories; _JoinedListener; named / retval / once wrappers "
        "(registry._EventKey.listen); thread schedules (only the lock shape is decided)."
    ),
)

ATTR = "event/attr.py"
REG = "event/registry.py"
EXC = lambda a, b, lab: lab == "exc"  # noqa: E731


def _self_invocations(g):
    """CFG nodes that dispatch the collection itself: `self(*args, **kw)`."""
    return call_nodes(g, lambda nm, c: nm == "self" and any(isinstance(a, ast.Starred) for a in c.args))


def _flag_stores(g, fnode, attr, const):
    return [n for d, t, st in attr_stores(fnode) if d == f"self.{attr}" and isinstance(st, ast.Assign)
            and isinstance(st.value, ast.Constant) and st.value.value is const for n in g.nodes_for(st)]


def _in_with(pm, node, pred) -> bool:
    return any(pred(i.context_expr) for w in enclosing_withs(pm, node) for i in w.items)


def _mutex_pred(inl):
    """`self._get_exec_once_mutex()` directly, or a local that holds exactly that call."""
    def is_mutex(e):
        e = inl(e)
        return isinstance(e, ast.Call) and call_name(e) == "self._get_exec_once_mutex"
    return is_mutex


def _dispatching_helper(ctx, cls, f, g):
    """The one method `self.<h>(...)` called by `f` that performs the dispatch `self(*args, **kw)` when `f` does
    not do it itself (body of the locked region extracted into a helper): (call-site node, call, helper)."""
    out = []
    for n in g.nodes:
        for c in own_calls(n):
            nm = call_name(c) or ""
            if nm.startswith("self.") and nm.count(".") == 1:
                h = ctx.index.resolve_method(cls, nm[5:])
                if h is not None and h.node is not f.node and _self_invocations(ctx.cfg(h, exception_is_catch_all=False)):
                    out.append((n.id, c, h))
    return out


def _snapshot_names(fnode, attr, where):
    """locals bound (only) to a plain read of `self.<attr>` by statements for which `where(stmt)` holds."""
    binds = {}
    for nm, v, st in name_stores(fnode):
        binds.setdefault(nm, []).append((v, st))
    return {nm for nm, vs in binds.items()
            if all(v is not None and dotted(v) == f"self.{attr}" and where(st) for v, st in vs)}


@R.rule("C28-R1", floor=8, template="T-GUARD",
        desc="_exec_once_impl: re-test, invocation and flag write under the exec-once mutex; flag set on "
             "success and on failure-without-retry, never on failure-with-retry; mutex created under "
             "mini_gil; _exec_w_sync_on_first_run sets its flag only after success")
def r1(ctx):
    cls = ctx.index.cls(f"{ATTR}::_CompoundListener")
    f = ctx.method(cls.key, "_exec_once_impl")
    gf = ctx.cfg(f, exception_is_catch_all=False)
    pm_f = f.module.parents()
    mutex_f = _mutex_pred(Inliner(f.node))
    retry = f.params[1]
    body, site = f, None
    if not _self_invocations(gf):
        hs = _dispatching_helper(ctx, cls, f, gf)
        ctx.require(len(hs) == 1, "no self(*args, **kw) dispatch in _exec_once_impl (nor in exactly one method it calls)")
        site = hs[0]
        body = site[2]
        ctx.functions_analysed.add(body.key)
        # the helper's name for retry_on_exception
        bound = dict(zip(body.params[1:], site[1].args))
        bound.update({k.arg: k.value for k in site[1].keywords if k.arg})
        names = [p for p, a in bound.items() if isinstance(a, ast.Name) and a.id == retry]
        ctx.require(len(names) == 1, f"{body.qualname}: cannot tell which parameter receives retry_on_exception")
        retry = names[0]
    # boolean locals used as guards (`mark = not failed or not retry; if mark:`) are written out before the
    # path-sensitive search; bnode is a private copy of the function with its own parent map
    bnode = with_inlined_tests(body.node)
    g = ctx.cfg(bnode, exception_is_catch_all=False)
    pm = parent_map(bnode)
    inl = Inliner(bnode)
    is_mutex = _mutex_pred(inl)
    ps = PathSense(g)
    site_locked = site is not None and _in_with(pm_f, gf.nodes[site[0]].stmt, mutex_f)
    locked = lambda node: site_locked or _in_with(pm, node, is_mutex)  # noqa: E731
    inv = _self_invocations(g)
    sets = _flag_stores(g, bnode, "_exec_once", True)
    ctx.require(sets, "_exec_once_impl never sets self._exec_once = True")
    problems = []
    for n in inv + sets:
        st = g.nodes[n].stmt
        if not locked(st):
            problems.append(f"`{unparse(st).splitlines()[0]}` is outside `with self._get_exec_once_mutex()`")
    # the re-test: a branch outcome `not self._exec_once` that dominates the dispatch and is evaluated after the
    # mutex was taken (whatever the shape: nested if, early return, in the helper or at its call site)
    snaps = _snapshot_names(bnode, "_exec_once", locked)
    for n in inv:
        atoms = guard_atoms([(t, p) for t, p in g.edge_guards(n) if locked(t)])
        if site is not None:
            atoms += guard_atoms([(t, p) for t, p in gf.edge_guards(site[0]) if _in_with(pm_f, t, mutex_f)])
        if not any(p is False and (a == "self._exec_once" or a in snaps) for a, p in atoms):
            problems.append("the dispatch is not re-tested with `not self._exec_once` after the mutex is taken")
    ctx.check(not problems, f.key + ":under-mutex", "; ".join(problems),
              "re-test, dispatch and flag write inside the mutex", f.loc)
    ok_edges = [b for n in inv for b, lab in g.succ[n] if lab != "exc"]
    w = ps.witness(ok_edges, [g.exit], avoid=sets)
    ctx.check(w is None, f.key + ":flag-after-success",
              "a successful once-only dispatch can return without setting _exec_once: the listeners would run again",
              "success -> _exec_once = True", f.loc, w)
    w = ps.witness(inv, [g.raise_exit, g.exit], avoid=sets, start_edge_ok=EXC, init_facts=[(retry, False)])
    ctx.check(w is None, f.key + ":flag-after-failure-no-retry",
              "exec_once(): a failing dispatch does not set _exec_once (listeners would run a second time)",
              "failure and not retry_on_exception -> _exec_once = True", f.loc, w)
    w = ps.witness(inv, sets, start_edge_ok=EXC, init_facts=[(retry, True)])
    ctx.check(w is None, f.key + ":no-flag-after-failure-retry",
              "exec_once_unless_exception(): a failing dispatch marks the collection as executed, the retry never happens",
              "failure and retry_on_exception -> flag stays False", f.loc, w)
    # callers pass the right retry flag
    for name, want in (("exec_once", False), ("exec_once_unless_exception", True)):
        fm = ctx.method(cls.key, name)
        cs = [c for c in calls_in(fm.node) if call_name(c) == "self._exec_once_impl"]
        vals = [kw_or_pos(c, f.params[1], 0) for c in cs]
        good = bool(cs) and all(isinstance(v, ast.Constant) and v.value is want for v in vals)
        gm = ctx.cfg(fm)
        nodes = call_nodes(gm, lambda nm, c: nm == "self._exec_once_impl")
        fast = all(("self._exec_once", False) in guard_atoms(gm.edge_guards(n)) for n in nodes)
        ctx.check(good and fast, fm.key, f"{name} does not call _exec_once_impl({want}, ...) under `not self._exec_once`",
                  f"-> _exec_once_impl({want})", fm.loc)
    # mutex creation
    fm = ctx.method(cls.key, "_get_exec_once_mutex")
    gm = ctx.cfg(fm)
    pmm = fm.module.parents()
    is_gil = lambda e: (dotted(e) or "").split(".")[-1] == "mini_gil"  # noqa: E731
    stores = [(st, n) for d, t, st in attr_stores(fm.node) if d == "self._exec_once_mutex" for n in gm.nodes_for(st)]
    ctx.require(stores, "_get_exec_once_mutex never stores the mutex")
    # a local that holds what was read from the attribute inside the region is as good as the attribute
    read_in = {nm for nm, v, st in name_stores(fm.node)
               if v is not None and dotted(v) == "self._exec_once_mutex" and _in_with(pmm, st, is_gil)}
    problems = []
    for st, n in stores:
        if not _in_with(pmm, st, is_gil):
            problems.append("the mutex is stored outside `with util.mini_gil`")
        inner = guard_atoms([(t, p) for t, p in gm.edge_guards(n) if _in_with(pmm, t, is_gil)])
        if not any(p is True and a in ({"self._exec_once_mutex is None"} | {f"{nm} is None" for nm in read_in}) for a, p in inner):
            problems.append("the store is not preceded by an `is not None` test inside the same mini_gil region (two threads could create two mutexes)")
    for r in walk_local(fm.node):
        if isinstance(r, ast.Return) and r.value is not None and not _in_with(pmm, r, is_gil) \
                and any(dotted(x) == "self._exec_once_mutex" for x in ast.walk(r.value)):
            problems.append("a return reads the mutex outside mini_gil")
    ctx.check(not problems, fm.key, "; ".join(sorted(set(problems))), "test-and-set under mini_gil", fm.loc)
    # _exec_w_sync_on_first_run
    fs = ctx.method(cls.key, "_exec_w_sync_on_first_run")
    gs = ctx.cfg(fs, exception_is_catch_all=False)
    pms = fs.module.parents()
    mutex_s = _mutex_pred(Inliner(fs.node))
    inv = _self_invocations(gs)
    sets = _flag_stores(gs, fs.node, "_exec_w_sync_once", True)
    ctx.require(inv and sets, "_exec_w_sync_on_first_run lost its dispatch or its flag")
    first = [n for n in inv if ("self._exec_w_sync_once", False) in guard_atoms(gs.edge_guards(n))]
    problems = []
    if not first or not all(_in_with(pms, gs.nodes[n].stmt, mutex_s) for n in first):
        problems.append("the first-run dispatch is not under the exec-once mutex")
    after_fail = set()
    for n in first:
        after_fail |= gs.reachable([b for b, lab in gs.succ[n] if lab == "exc"])
    if set(sets) & after_fail:
        problems.append("the flag is set although the first run raised (dialect initialisation would not be retried under the mutex)")
    if first and must_pass(gs, [b for n in first for b, lab in gs.succ[n] if lab != "exc"], [gs.exit], sets, edge_ok=no_exc):
        problems.append("a successful first run does not set the flag")
    ctx.check(not problems, fs.key, "; ".join(problems), "flag only in the success continuation, dispatch under mutex", fs.loc)


def _clslevel_calls(g, inl, *attrs):
    """[(CFG node, call, receiver after alias resolution)] for calls `self._clslevel[<k>].<attr>(...)` -- written
    directly, through a local alias of the mapping (`m = self._clslevel; m[k].append(f)`) or of the slot
    (`coll = self._clslevel[k]; coll.append(f)`)."""
    out = []
    for n in g.nodes:
        for c in own_calls(n):
            fn = c.func
            if isinstance(fn, ast.Attribute) and fn.attr in attrs:
                recv = inl(fn.value)
                if isinstance(recv, ast.Subscript) and dotted(recv.value) == "self._clslevel":
                    out.append((n.id, c, recv))
    return out


def _single_call(fnode, name):
    cs = [c for c in calls_in(fnode) if (call_name(c) or "").endswith(name)]
    return cs[0] if len(cs) == 1 else None


def _bind_args(call, h):
    """{parameter of method h: argument expression of `self.h(...)`}"""
    bound = dict(zip(h.params[1:], [a for a in call.args if not isinstance(a, ast.Starred)]))
    bound.update({k.arg: k.value for k in call.keywords if k.arg})
    return bound


def _walk_loops(g, inl):
    return [n for n in g.nodes if n.kind == "for" and isinstance(inl(n.stmt.iter), ast.Call)
            and (call_name(inl(n.stmt.iter)) or "").endswith("walk_subclasses")]


@R.rule("C28-R2", floor=10, template="T-SIBLING",
        desc="insert<->appendleft/prepend_to_list, append<->append/append_to_list at class and instance "
             "level; both walk walk_subclasses(target) and end with the registry store; remove/clear undo "
             "collection, propagate set and registry together")
def r2(ctx):
    cd = ctx.index.cls(f"{ATTR}::_ClsLevelDispatch")
    f = ctx.method(cd.key, "_do_insert_or_append")
    flag = "is_append"
    ctx.require(flag in f.params, "_do_insert_or_append lost its is_append parameter")
    for name, want in (("insert", False), ("append", True)):
        fm = ctx.method(cd.key, name)
        c = _single_call(fm.node, "self._do_insert_or_append")
        v = kw_or_pos(c, flag, f.params.index(flag) - 1) if c is not None else None
        ctx.check(v is not None and isinstance(v, ast.Constant) and v.value is want, fm.key,
                  f"class-level {name}() does not delegate to _do_insert_or_append(is_append={want})",
                  f"-> _do_insert_or_append(is_append={want})", fm.loc)
    g = ctx.cfg(f)
    inl = Inliner(f.node)
    problems = []
    walk = _walk_loops(g, inl)
    if not walk:
        problems.append("does not iterate util.walk_subclasses(target)")
    # where the per-class update is done: in the loop itself, or in one helper method called from it
    # (`self._add_to(cls, event_key, is_append)`) whose parameters are bound to the loop's values
    body, gb, inlb = f, g, inl
    names = {"flag": flag, "key": f.params[1], "cls": walk[0].stmt.target.id if walk and isinstance(walk[0].stmt.target, ast.Name) else None}
    if walk and not _clslevel_calls(g, inl, "append", "appendleft"):
        hs = []
        for n in g.nodes:
            for c in own_calls(n):
                nm = call_name(c) or ""
                if nm.startswith("self.") and nm.count(".") == 1:
                    h = ctx.index.resolve_method(cd, nm[5:])
                    if h is not None and h.node is not f.node and \
                            _clslevel_calls(ctx.cfg(h), Inliner(h.node), "append", "appendleft"):
                        hs.append((n.id, c, h))
        if len(hs) == 1:
            n0, c0, h = hs[0]
            bound = _bind_args(c0, h)
            inv = {}
            for p, a in bound.items():
                if isinstance(a, ast.Name):
                    inv[a.id] = p
            if all(names[k] in inv for k in names) and n0 in g.reachable([walk[0].id]):
                body, gb, inlb = h, ctx.cfg(h), Inliner(h.node)
                names = {k: inv[v] for k, v in names.items()}
                ctx.functions_analysed.add(h.key)
    app = _clslevel_calls(gb, inlb, "append")
    appl = _clslevel_calls(gb, inlb, "appendleft")
    if not app or not all((names["flag"], True) in inlb.atoms(gb.edge_guards(n)) for n, _, _ in app):
        problems.append("append() is not the is_append branch")
    if not appl or not all((names["flag"], False) in inlb.atoms(gb.edge_guards(n)) for n, _, _ in appl):
        problems.append("appendleft() is not the insert branch")
    if walk:
        for n, c, recv in app + appl:
            if not (isinstance(recv.slice, ast.Name) and recv.slice.id == names["cls"]):
                problems.append(f"`{unparse(c)}` does not update self._clslevel[<walked class>]")
            if not (len(c.args) == 1 and inlb.dotted(c.args[0]) == f"{names['key']}._listen_fn"):
                problems.append(f"`{unparse(c)}` does not store event_key._listen_fn")
    stored = rcall_nodes(g, inl, lambda nm, c: nm.endswith("_stored_in_collection"))
    if not stored or must_pass(g, [g.entry], [g.exit], stored, edge_ok=no_exc):
        problems.append("a normal path does not end with registry._stored_in_collection(event_key, self)")
    ctx.check(not problems, f.key, "; ".join(problems), "appendleft/append per walked subclass, then registry store", f.loc)
    f = ctx.method(cd.key, "remove")
    g = ctx.cfg(f)
    inl = Inliner(f.node)
    problems = []
    walk = _walk_loops(g, inl)
    rem = _clslevel_calls(g, inl, "remove", "discard")
    if not walk or not rem:
        problems.append("does not remove the listener from every walked subclass collection")
    gone = rcall_nodes(g, inl, lambda nm, c: nm.endswith("_removed_from_collection"))
    if not gone or must_pass(g, [g.entry], [g.exit], gone, edge_ok=no_exc):
        problems.append("a normal path does not end with registry._removed_from_collection(event_key, self)")
    ctx.check(not problems, f.key, "; ".join(problems), "remove per walked subclass, then registry removal", f.loc)
    # instance level
    lc = ctx.index.cls(f"{ATTR}::_ListenerCollection")
    for name, helper in (("insert", "prepend_to_list"), ("append", "append_to_list")):
        f = ctx.method(lc.key, name)
        g = ctx.cfg(f)
        inl = Inliner(f.node)
        hs = [c for c in calls_in(f.node) if (inl.call_name(c) or "").split(".")[-1] in ("prepend_to_list", "append_to_list")]
        good = len(hs) == 1 and inl.call_name(hs[0]) == f"{f.params[1]}.{helper}" and len(hs[0].args) == 2 \
            and inl.dotted(hs[0].args[0]) == "self" and inl.dotted(hs[0].args[1]) == "self.listeners"
        adds = rcall_nodes(g, inl, lambda nm, c: nm == "self.propagate.add")
        pflag = f.params[2]
        accepted = inl.text(hs[0]) if hs else "?"
        pg = bool(adds) and all(
            (pflag, True) in inl.atoms(g.edge_guards(n)) and (accepted, True) in inl.atoms(g.edge_guards(n))
            for n in adds)
        ctx.check(good and pg, f.key,
                  f"instance-level {name}() does not use event_key.{helper}(self, self.listeners) and record propagation only on success",
                  f"-> {helper}; propagate.add under `propagate`", f.loc)
    f = ctx.method(lc.key, "remove")
    g = ctx.cfg(f)
    inl = Inliner(f.node)
    need = {
        "listeners": rcall_nodes(g, inl, lambda nm, c: nm == "self.listeners.remove"),
        "propagate": rcall_nodes(g, inl, lambda nm, c: nm in ("self.propagate.discard", "self.propagate.remove")),
        "registry": rcall_nodes(g, inl, lambda nm, c: nm.endswith("_removed_from_collection")),
    }
    # the same three updates done by a helper of the event key (`event_key.remove_from_list(self, self.listeners)`):
    # each helper is read once and credited with what it does, on every normal path, to the arguments it was given
    via = {}
    for n in g.nodes:
        for c in own_calls(n):
            for what in _key_helper_effects(ctx, f, c, inl):
                need[what].append(n.id)
                via[what] = call_name(c)
    miss = [k for k, v in need.items() if not v or must_pass(g, [g.entry], [g.exit], v, edge_ok=no_exc)]
    ctx.check(not miss, f.key, f"remove() leaves the listener in: {miss}"
              + (f" ({', '.join(sorted(set(via.values())))}() takes care of {sorted(via)} only)" if via and miss else ""),
              "listeners, propagate and registry all updated", f.loc)
    f = ctx.method(lc.key, "clear")
    g = ctx.cfg(f)
    inl = Inliner(f.node)
    need = {
        "listeners": rcall_nodes(g, inl, lambda nm, c: nm == "self.listeners.clear"),
        "propagate": rcall_nodes(g, inl, lambda nm, c: nm == "self.propagate.clear"),
        "registry": rcall_nodes(g, inl, lambda nm, c: nm.endswith("registry._clear")),
    }
    miss = [k for k, v in need.items() if not v or must_pass(g, [g.entry], [g.exit], v, edge_ok=no_exc)]
    order = None
    if not miss:
        # the registry must see the listeners before they are dropped
        for n in need["registry"]:
            order = order or (["listeners cleared before registry._clear(self, self.listeners)"]
                              if set(need["listeners"]) & _preds_closure(g, n) else None)
    ctx.check(not miss and order is None, f.key, f"clear() does not clear: {miss}" if miss else "listeners are emptied before the registry is told which ones to forget",
              "registry, propagate, listeners cleared (registry first)", f.loc)
    # registry helpers
    ek = ctx.index.cls(f"{REG}::_EventKey")
    for name, op in (("prepend_to_list", "appendleft"), ("append_to_list", "append")):
        f = ctx.method(ek.key, name)
        g = ctx.cfg(f)
        inl = Inliner(f.node)
        lst = f.params[2]
        ops = rcall_nodes(g, inl, lambda nm, c: nm.startswith(lst + ".") and nm.split(".")[-1] in ("append", "appendleft", "insert", "extend"))
        good = bool(ops)
        for n in ops:
            c = [c for c in own_calls(g.nodes[n]) if (inl.call_name(c) or "").startswith(lst + ".")][0]
            if inl.call_name(c) != f"{lst}.{op}" or not (len(c.args) == 1 and inl.dotted(c.args[0]) == "self._listen_fn"):
                good = False
            atoms = inl.atoms(g.edge_guards(n))
            if not any(p and a.replace(" ", "").startswith("_stored_in_collection(self,") for a, p in atoms):
                good = False
        ctx.check(good, f.key, f"{name} does not {op}() self._listen_fn exactly when _stored_in_collection() accepted the key",
                  f"{op} under `_stored_in_collection(self, owner)`", f.loc)


def _key_helper_effects(ctx, f, call, inl=None):
    """Which of {'listeners','propagate','registry'} a call `<event_key>.<helper>(...)` inside an instance-level
    collection method takes care of.  The helper (a method of registry._EventKey) is analysed with its own
    parameters bound to the argument expressions of the call: `<param>.remove/discard(self._listen_fn)` counts for
    the collection attribute passed as <param>, `_removed_from_collection(self, <param>)` counts when <param> is
    the collection itself.  Only effects on every normal path of the helper count."""
    fn = call.func
    if not (isinstance(fn, ast.Attribute) and isinstance(fn.value, ast.Name) and len(f.params) > 1 and fn.value.id == f.params[1]):
        return []
    inl = inl or (lambda e: e)
    ek = ctx.index.cls(f"{REG}::_EventKey")
    h = ctx.index.resolve_method(ek, fn.attr)
    if h is None or h.node.args.vararg or h.node.args.kwarg:
        return []
    ctx.functions_analysed.add(h.key)
    bound = {}
    for p, a in zip(h.params[1:], call.args):
        bound[p] = dotted(inl(a))
    for k in call.keywords:
        if k.arg:
            bound[k.arg] = dotted(inl(k.value))
    gh = ctx.cfg(h)
    out = []
    slots = {"self.listeners": "listeners", "self.propagate": "propagate"}
    for p, a in bound.items():
        if a in slots:
            nodes = call_nodes(gh, lambda nm, c, p=p: nm in (f"{p}.remove", f"{p}.discard")
                               and len(c.args) == 1 and dotted(c.args[0]) == "self._listen_fn")
            if nodes and must_pass(gh, [gh.entry], [gh.exit], nodes, edge_ok=no_exc) is None:
                out.append(slots[a])
    owners = [p for p, a in bound.items() if a == "self"]
    nodes = call_nodes(gh, lambda nm, c: nm.split(".")[-1] == "_removed_from_collection" and len(c.args) == 2
                       and dotted(c.args[0]) == "self" and dotted(c.args[1]) in owners)
    if nodes and must_pass(gh, [gh.entry], [gh.exit], nodes, edge_ok=no_exc) is None:
        out.append("registry")
    return out


def _preds_closure(g, n):
    seen, st = set(), [n]
    while st:
        a = st.pop()
        for p, lab in g.pred[a]:
            if p not in seen:
                seen.add(p)
                st.append(p)
    return seen


def _iter_sources(e):
    """collections a loop header walks, in order: `x` -> [x]; `itertools.chain(a, b)` -> [a, b]"""
    if isinstance(e, ast.Call) and (call_name(e) or "").split(".")[-1] == "chain" and not e.keywords \
            and not any(isinstance(a, ast.Starred) for a in e.args):
        return [d for a in e.args for d in _iter_sources(a)]
    return [dotted(e)]


@R.rule("C28-R3", floor=2, template="T-FLOW",
        desc="_CompoundListener.__call__ calls parent_listeners then listeners, each once; "
             "_EmptyListener.__call__ calls parent_listeners")
def r3(ctx):
    for ckey, want in ((f"{ATTR}::_CompoundListener", ["self.parent_listeners", "self.listeners"]),
                       (f"{ATTR}::_EmptyListener", ["self.parent_listeners"])):
        f = ctx.func(ckey + ".__call__")
        g = ctx.cfg(f)
        inl = Inliner(f.node, allow_calls=False)
        loops = [n for n in g.nodes if n.kind == "for"]
        order = []
        problems = []
        # order along the CFG: follow the exhausted edges from entry
        seq = sorted(loops, key=lambda n: len(g.reachable([n.id])), reverse=True)
        for n in seq:
            order.extend(_iter_sources(inl(n.stmt.iter)))
            tv = n.stmt.target.id if isinstance(n.stmt.target, ast.Name) else None
            body_calls = [c for st in n.stmt.body for c in calls_in(st)]
            ok = len(n.stmt.body) == 1 and len(body_calls) == 1 and isinstance(body_calls[0].func, ast.Name) \
                and body_calls[0].func.id == tv \
                and any(isinstance(a, ast.Starred) for a in body_calls[0].args) and any(k.arg is None for k in body_calls[0].keywords)
            if not ok:
                problems.append(f"loop over {inl.text(n.stmt.iter)} does not simply call each listener with (*args, **kw)")
        for a, b in zip(seq, seq[1:]):
            if b.id not in g.reachable([a.id]) or a.id in g.reachable([b.id]):
                problems.append("the loops are not strictly sequential")
        if order != want:
            problems.append(f"dispatch order is {order}, expected {want}")
        others = [c for c in calls_in(f.node) if not any(c in calls_in(st) for n in loops for st in n.stmt.body)
                  and not any(c in list(ast.walk(n.stmt.iter)) for n in loops)]
        if others:
            problems.append(f"extra calls outside the listener loops: {[unparse(c) for c in others]}")
        ctx.check(not problems, f.key, "; ".join(problems), " then ".join(want), f.loc)


def _dedup_extends(ctx, f, g, inl, tgt):
    """How update_subclass copies inherited listeners into the target's collection: every site is judged by whether
    it can add a function the collection already holds.  Two spellings of the same thing are understood:
    `coll.extend([fn for fn in src if fn not in coll])` and the loop `for fn in src: if fn not in coll: coll.append(fn)`."""
    slot = f"self._clslevel[{tgt}]"
    sites, problems = [], []
    for n in g.nodes:
        for c in own_calls(n):
            fn = c.func
            if not (isinstance(fn, ast.Attribute) and fn.attr in ("extend", "append", "appendleft", "extendleft")):
                continue
            recv = inl.text(fn.value)
            if recv != slot:
                continue
            sites.append(c)
            a = c.args[0] if c.args else None
            good = False
            if fn.attr in ("extend", "extendleft") and isinstance(a, (ast.ListComp, ast.GeneratorExp)) and len(a.generators) == 1:
                gen = a.generators[0]
                ev = gen.target.id if isinstance(gen.target, ast.Name) else None
                for cond in gen.ifs:
                    if (f"{ev} in {slot}", False) in guard_atoms([(inl(cond), True)]) and isinstance(a.elt, ast.Name) and a.elt.id == ev:
                        good = True
            elif fn.attr in ("append", "appendleft") and isinstance(a, ast.Name):
                # element-wise copy: dominated by the outcome `<element> not in <collection>`
                good = (f"{a.id} in {slot}", False) in inl.atoms(g.edge_guards(n.id))
            if not good:
                problems.append(f"`{unparse(c)[:80]}` can add a listener that the collection already holds (it would fire twice)")
    return sites, problems


@R.rule("C28-R4", floor=5, template="T-PATH",
        desc="update_subclass adds only listener functions not already present in the subclass collection and gathers "
             "them from every ancestor of the target (the class-level map is filled lazily: a base without a collection "
             "must not end the walk); callers create a subclass collection only when it is missing")
def r4(ctx):
    cd = ctx.index.cls(f"{ATTR}::_ClsLevelDispatch")
    f = ctx.method(cd.key, "update_subclass")
    tgt = f.params[1]
    g = ctx.cfg(f)
    inl = _SlotInliner(f.node, tgt)
    ext, problems = _dedup_extends(ctx, f, g, inl, tgt)
    ctx.require(ext, "update_subclass no longer extends the target's listener collection")
    ctx.check(not problems, f.key + ":no-duplicates", "; ".join(problems), "extend([fn ... if fn not in clslevel])", f.loc)
    _ancestor_coverage(ctx, f, g, inl, tgt, ext)
    creates = [n for st in walk_stmts(f.node.body) if isinstance(st, ast.Assign)
               and any(isinstance(t, ast.Subscript) and inl.dotted(t.value) == "self._clslevel" for t in st.targets) for n in g.nodes_for(st)]
    bad = [n for n in creates if (f"{tgt} in self._clslevel", False) not in inl.atoms(g.edge_guards(n))]
    ctx.check(bool(creates) and not bad, f.key + ":create-once",
              "update_subclass can replace an existing subclass collection (listeners registered on the subclass are dropped)",
              "collection created only when missing", f.loc)
    # callers
    for ckey in (f"{ATTR}::_EmptyListener.__init__", f"{ATTR}::_ListenerCollection.__init__"):
        fc = ctx.func(ckey)
        gc_ = ctx.cfg(fc)
        inlc = Inliner(fc.node)
        tc = fc.params[2]
        par = fc.params[1]
        us = rcall_nodes(gc_, inlc, lambda nm, c: nm == "update_subclass" or nm.endswith(".update_subclass"))
        reads = [n for n in gc_.nodes if n.kind == "stmt" and any(
            isinstance(x, ast.Subscript) and inlc.dotted(x.value) == f"{par}._clslevel" for x in ast.walk(n.stmt))]
        miss = test_edges_inl(gc_, inlc, lambda t, p: t == f"{tc} in {par}._clslevel" and p is True)
        w = None
        for n in reads:
            w = w or must_pass(gc_, [gc_.entry], [n.id], us, edge_ok=both(no_exc, cut_edges(miss)))
        ctx.check(bool(us) and bool(reads) and w is None, fc.key,
                  "the class-level collection of the target class is read without making sure it exists / is populated from the base classes",
                  "update_subclass(target_cls) when missing, before parent._clslevel[target_cls]", fc.loc, w)


def _ancestor_coverage(ctx, f, g, inl, tgt, sites):
    """`_clslevel` is filled lazily, class by class.  The collection of a class created after listen() is therefore
    complete only if update_subclass gathers from *every* ancestor that has a collection: the classes it walks
    must be the whole linearised ancestry of the target, or -- when only the direct bases are walked -- a base
    without a collection must be initialised (recursively) before it is read, never skipped."""
    pm = parent_map(f.node)
    slot_of = lambda e: e.slice if isinstance(e, ast.Subscript) and dotted(e.value) == "self._clslevel" else None  # noqa: E731
    loops = {}
    for c in sites:
        a = c.args[0] if c.args else None
        src = None
        if isinstance(a, (ast.ListComp, ast.GeneratorExp)) and len(a.generators) == 1:
            src = inl(a.generators[0].iter)
        elif isinstance(a, ast.Name):
            for anc in _ancestors(pm, c):
                if isinstance(anc, ast.For) and isinstance(anc.target, ast.Name) and anc.target.id == a.id:
                    src = inl(anc.iter)
                    break
        key = slot_of(src) if src is not None else None
        ctx.require(isinstance(key, ast.Name), f"{f.qualname}: cannot tell which class's collection `{unparse(c)[:60]}` copies from")
        loop = None
        for anc in _ancestors(pm, c):
            if isinstance(anc, ast.For) and isinstance(anc.target, ast.Name) and anc.target.id == key.id:
                loop = anc
                break
        ctx.require(loop is not None, f"{f.qualname}: `{key.id}` of `{unparse(c)[:60]}` is not the variable of an enclosing loop over classes")
        loops[loop] = key.id
    problems = []
    for loop, var in loops.items():
        it = inl(loop.iter)
        kind = ancestry_kind(it, tgt, lambda call: pure_helper_value(ctx, f, call))
        ctx.require(kind is not None, f"{f.qualname}: cannot tell which ancestors of `{tgt}` `{unparse(it)}` walks")
        if kind == "all":
            continue
        heads = [n.id for n in g.nodes if n.kind == "for" and n.stmt is loop]
        init = rcall_nodes(g, inl, lambda nm, c: nm == f"self.{f.name}" and len(c.args) == 1 and inl.dotted(c.args[0]) == var)
        known = test_edges_inl(g, inl, lambda t, p: t == f"{var} in self._clslevel" and p is True)
        w = g.witness(heads, heads + [g.exit], avoid=init, edge_ok=both(no_exc, cut_edges(known)),
                      start_edge_ok=lambda a, b, lab: lab == "true")
        if w is not None:
            problems.append(
                f"inherited listeners are gathered from `{unparse(it)}` (direct bases only) and a base that has no "
                f"collection yet is passed over (`{' -> '.join(x for x in g.describe_path(w) if x != 'join')}`): its own ancestors "
                "are never visited, so a class created two or more levels below a listened class after listen() gets an empty "
                "collection (its ancestors' listeners never fire for it; event.remove() later fails on it)")
    ctx.check(not problems, f.key + ":covers-all-ancestors", "; ".join(problems),
              "walks the whole ancestry of the target (or initialises every base before reading it)", f.loc)


def _ancestors(pm, node):
    node = pm.get(node)
    while node is not None:
        yield node
        node = pm.get(node)


class _SlotInliner(Inliner):
    """update_subclass first creates `self._clslevel[target]` when it is missing and then reads it into a local
    (`clslevel = self._clslevel[target]`): the local is an alias of the slot although the function stores into the
    slot before -- the store only ever happens when the slot did not exist, i.e. before the local is bound."""

    def __init__(self, fnode, tgt):
        super().__init__(fnode)
        binds = {}
        for nm, v, st in name_stores(fnode):
            binds.setdefault(nm, []).append(v)
        for nm, vs in binds.items():
            if len(vs) == 1 and vs[0] is not None and nm not in self.env:
                base = Inliner.__call__(self, vs[0])
                if unparse(base) == f"self._clslevel[{tgt}]":
                    self.env[nm] = vs[0]


# ---------------------------------------------------------------------- C28-R5
# for_modify() hands out THE collection of (owner, event): what one caller adds to it, and the exec-once state
# it keeps, must be what every other caller and the dispatch see.  Four of the five implementations return the
# receiver.  _EmptyListener is a shared read-only placeholder: its for_modify() creates the real collection and
# installs it on the owner -- a lazy initialisation that two threads can enter with the same placeholder in hand.
COMPAT = "util/compat.py"
_is_gil = lambda e: (dotted(e) or "").split(".")[-1] == "mini_gil"  # noqa: E731


def _gil_region(pm, node):
    for w in enclosing_withs(pm, node):
        if any(_is_gil(i.context_expr) for i in w.items):
            return w
    return None


@R.rule("C28-R5", floor=8, template="T-PATH",
        desc="every for_modify() returns the collection that is installed on the owner: the receiver itself, or -- "
             "for the _EmptyListener placeholder -- on every path the object it has just installed with "
             "setattr(owner, name, .), the owner's current value, or a fresh one only for a _JoinedListener (which "
             "keeps it as its .local); the install is a test-and-set inside one util.mini_gil region, and mini_gil "
             "excludes other threads in every build")
def r5(ctx):
    m = ctx.index.module(ATTR)
    pm = m.parents()
    defs = sorted((f for f in ctx.index.all_functions(m) if f.name == "for_modify" and f.cls is not None),
                  key=lambda f: f.node.lineno)
    ctx.require(len(defs) >= 2, "for_modify() implementations not found in event/attr.py")
    replacing = []
    for f in defs:
        ctx.functions_analysed.add(f.key)
        rets = [r for r in walk_local(f.node) if isinstance(r, ast.Return)]
        ctx.require(rets, f"{f.qualname} has no return")
        if any(call_name(c) == "setattr" for c in calls_in(f.node)) or not all(dotted(r.value) == "self" for r in rets if r.value is not None):
            replacing.append(f)
            continue
        # receiver-returning implementations; a nested upgrade (`x = x.for_modify(obj)`) must be kept where it came from
        problems = []
        for c in calls_in(f.node):
            if isinstance(c.func, ast.Attribute) and c.func.attr == "for_modify":
                recv = dotted(c.func.value)
                st = pm.get(c)
                kept = isinstance(st, ast.Assign) and st.value is c and any(dotted(t) == recv for t in st.targets)
                same_owner = len(c.args) == 1 and dotted(c.args[0]) == f.params[1]
                if not (kept and same_owner):
                    problems.append(f"the collection returned by `{unparse(c)}` is not stored back into `{recv}`: "
                                    "listeners would be added to a collection nobody dispatches")
        ctx.check(not problems, f.key, "; ".join(problems), "returns the receiver", f.loc)
    ctx.require(len(replacing) == 1, f"expected exactly one for_modify() that installs a new collection, found {[f.qualname for f in replacing]}")
    f = replacing[0]
    g = ctx.cfg(f)
    owner = f.params[1]
    inl5 = Inliner(f.node, allow_calls=False)   # `name = self.name` spelled as a local is still the owner's slot
    is_slot_read = lambda e: isinstance(e, ast.Call) and call_name(e) == "getattr" and len(e.args) == 2 \
        and dotted(e.args[0]) == owner and inl5.dotted(e.args[1]) == "self.name"  # noqa: E731
    binds = {}
    for nm, v, st in name_stores(f.node):
        binds.setdefault(nm, []).append((v, st))
    cur = {nm for nm, vs in binds.items() if all(v is not None and is_slot_read(v) for v, _ in vs)}

    def is_fresh(e):
        if isinstance(e, ast.Call) and isinstance(e.func, ast.Name):
            r = ctx.index.resolve(m, e.func.id)
            return hasattr(r, "methods") and ctx.index.resolve_method(r, "for_modify") is not None
        return False
    fresh = {nm for nm, vs in binds.items() if all(v is not None and is_fresh(v) for v, _ in vs)}
    installs = []       # (cfg node, call)
    for n in g.nodes:
        for c in own_calls(n):
            if call_name(c) == "setattr" and len(c.args) == 3 and dotted(c.args[0]) == owner and inl5.dotted(c.args[1]) == "self.name":
                installs.append((n.id, c))
    ctx.require(installs and fresh and (cur or any(is_slot_read(x) for x in ast.walk(f.node))),
                f"{f.qualname}: lazy-install idiom not recognised (setattr({owner}, self.name, <new>) / getattr({owner}, self.name))")
    cur_texts = set(cur) | {unparse(x) for x in ast.walk(f.node) if is_slot_read(x)}
    # (a) what is returned is what is installed -- decided exactly, per truth assignment of the branch atoms
    atoms = branch_atoms(g)
    ctx.require(len(atoms) <= 8, f"{f.qualname}: too many branch conditions to enumerate ({len(atoms)})")
    bad = None
    for facts in assignments(atoms):
        ok_edge = both(no_exc, consistent_ok(g, facts))
        live = g.reachable([g.entry], edge_ok=ok_edge)
        joined = any(facts.get(f"isinstance({c}, _JoinedListener)") for c in cur_texts)
        for n in g.nodes:
            if n.id not in live or n.kind != "stmt" or not isinstance(n.stmt, ast.Return) or n.stmt.value is None:
                continue
            v = n.stmt.value
            d = dotted(v)
            if d in cur or is_slot_read(v):
                continue
            if d == "self":
                bad = bad or (facts, f"returns the shared read-only placeholder itself", g.describe_path(g.witness([g.entry], [n.id], edge_ok=ok_edge) or []))
                continue
            ctx.require(d in fresh or is_fresh(v), f"{f.qualname}: cannot tell what `return {unparse(v)}` returns")
            inst = [i for i, c in installs if d is not None and dotted(c.args[2]) == d]
            w = g.witness([g.entry], [n.id], avoid=inst, edge_ok=ok_edge)
            if w is not None and not joined:
                bad = bad or (facts, f"`return {unparse(v)}` hands out a new collection that was not installed on `{owner}`", g.describe_path(w))
    ctx.check(bad is None, f.key + ":returns-installed-collection",
              (f"when {describe_facts(bad[0])}: {bad[1]} (and the owner's attribute is not a _JoinedListener that would keep it): "
               "the caller gets a detached collection with its own listeners, _exec_once flag and mutex -- a once-only "
               "listener runs again for a second caller, a listener added through it is never dispatched") if bad else "",
              "installed object / current value / fresh only for a _JoinedListener", f.loc, bad[2] if bad else None)
    # (b) test-and-set inside one mini_gil region: the install is under the lock and guarded by `<current> is self` ...
    problems, stale = [], []
    for n, c in installs:
        st = g.nodes[n].stmt
        region = _gil_region(pm, st)
        if region is None:
            problems.append(f"`{unparse(c)}` is outside `with util.mini_gil`")
            continue
        tested = False
        for t, pol in g.edge_guards(n):
            for a, p in guard_atoms([(t, pol)]):
                for ctxt in cur_texts:
                    if p and a in (f"{ctxt} is self", f"self is {ctxt}"):
                        tested = True
                        # ... (b') and the value compared was read inside that same region
                        if ctxt in cur:
                            inside = all(_gil_region(pm, bst) is region for _, bst in binds[ctxt])
                        else:
                            inside = _gil_region(pm, t) is region
                        if not inside:
                            stale.append(
                                f"`{unparse(c)}` is decided by `{a}`, but `{ctxt}` was read before util.mini_gil was taken: two threads "
                                "that both read the placeholder each install their own collection, the first one (with the "
                                "listeners / exec-once state its caller put there) is silently replaced")
        if not tested:
            problems.append(f"`{unparse(c)}` is not guarded by a test that the owner still holds the placeholder (`<current> is self`): "
                            "a collection installed meanwhile (and its listeners) would be overwritten")
    ctx.check(not problems, f.key + ":install-guarded-under-lock", "; ".join(sorted(set(problems))),
              "setattr inside mini_gil, only while the owner still holds the placeholder", f.loc)
    ctx.check(not stale, f.key + ":current-value-read-under-lock", "; ".join(sorted(set(stale))),
              "current value read, compared with self and replaced inside one mini_gil region", f.loc)
    # (c) the region is exclusive in every build
    cm = ctx.index.module(COMPAT)
    vals = cm.assigns.get("mini_gil", [])
    ctx.require(vals, "util/compat.py no longer defines mini_gil")
    notlock = [unparse(v) for v in vals if not (isinstance(v, ast.Call) and (call_name(v) or "").split(".")[-1] in ("RLock", "Lock"))]
    ctx.check(not notlock, f"{COMPAT}::mini_gil:excludes-other-threads-in-every-build",
              f"util.mini_gil is `{', '.join(notlock)}` in some builds: the test-and-set sequences written under it "
              "(_EmptyListener.for_modify, _CompoundListener._get_exec_once_mutex) span several bytecodes and calls, the "
              "interpreter can switch threads between the test and the store, so two threads can each create their own "
              "collection / exec-once mutex and run once-only listeners twice",
              "a real lock in every build", f"{cm.path}:{getattr(vals[0], 'lineno', 0)}")


# ---------------------------------------------------------------------- C28-R6
# event.remove() finds the collections that hold a listener through `_key_to_collection`; copying listeners to
# another collection (propagate, Pool.recreate(), mapper inheritance) finds the listen() arguments behind a function
# through `_collection_to_key`.  The two module-level maps are inverse relations: whoever records one direction
# records the other, and records it *in the registry* -- not in a default object handed out for a missing key.
def _registry_maps(m):
    out = []
    for nm, vals in m.assigns.items():
        for v in vals:
            if isinstance(v, ast.Dict) and not v.keys:
                out.append(nm)
            elif isinstance(v, ast.Call) and (call_name(v) or "").split(".")[-1] in ("defaultdict", "dict", "WeakKeyDictionary"):
                out.append(nm)
    return sorted(set(out))


def _loop_heads(g, pm, stmt):
    """CFG heads of the loops enclosing `stmt`, innermost first"""
    out = []
    for anc in _ancestors(pm, stmt):
        if isinstance(anc, (ast.For, ast.While)):
            out.append([n.id for n in g.nodes if n.stmt is anc and n.kind in ("for", "test")])
    return out


@R.rule("C28-R6", floor=4, template="T-SIBLING/T-FLOW",
        desc="the two registry maps of event/registry.py are kept inverse to each other by everything that adds to "
             "them: an entry M[a][b] = c is accompanied, in the same call / loop iteration, by N[b][c] = a (or by the "
             "knowledge that it is already there), and each of the two is written into the mapping the registry "
             "itself holds for the key, never into a default that is dropped when the key was missing")
def r6(ctx):
    m = ctx.index.module(REG)
    maps = _registry_maps(m)
    ctx.require(len(maps) == 2, f"{REG}: expected two module-level registry maps, found {maps}")
    fam = []
    for f in sorted(ctx.index.all_functions(m), key=lambda f: f.node.lineno):
        if f.type_only or f.is_overload:
            continue
        if not any(isinstance(x, ast.Name) and x.id in maps for x in ast.walk(f.node)):
            continue
        g = ctx.cfg(f)
        inl = Inliner(f.node)
        ins = slot_insertions(f, g, inl, maps)
        if ins:
            ctx.functions_analysed.add(f.key)
            fam.append((f, g, inl, ins))
    # how the triple (outer key, inner key, value) of an entry of one map is rotated in the other map: read off the
    # family itself (M[a][b] = c  <->  N[b][c] = a, hence N[x][y] = z  <->  M[z][x] = y)
    rots = (lambda t: (t[1], t[2], t[0]), lambda t: (t[2], t[0], t[1]))
    votes = {}
    for f, g, inl, ins in fam:
        for i in ins:
            for j in ins:
                for r in (0, 1):
                    if j.map != i.map and (j.k1, j.k2, j.val) == rots[r]((i.k1, i.k2, i.val)):
                        votes.setdefault(i.map, [0, 0])[r] += 1
    ctx.require(all(mp in votes and votes[mp][0] != votes[mp][1] for mp in maps),
                f"{REG}: no function records an entry in both registry maps; inverse relation not understood ({votes})")
    rot = {mp: rots[0] if votes[mp][0] > votes[mp][1] else rots[1] for mp in maps}
    for f, g, inl, ins in fam:
        pm = parent_map(f.node)
        seen = set()
        for i in ins:
            ctx.require(i.map not in seen, f"{f.qualname}: several insertions into {i.map}; pairing not understood")
            seen.add(i.map)
            other = [x for x in maps if x != i.map][0]
            # (a) written where the registry can find it again
            ctx.check(i.kind == "live", f"{f.key}:{i.map}:entry-lands-in-registry",
                      f"`{unparse(i.stmt)}` writes into `{i.spelled}`: when {i.map} has nothing for `{i.k1}` yet, that is a "
                      f"throw-away default, the entry is lost while the inverse map {other} still gets its half -- a listener copied "
                      "on from this collection is then unknown to the registry: event.remove() of the original registration no "
                      "longer reaches it and it keeps firing (contains() says it is gone)",
                      f"{i.map}[{i.k1}] is the registry's own mapping", f.loc)
            # (b) the inverse entry accompanies it (or is known to be there already)
            p1, p2, pv = rot[i.map]((i.k1, i.k2, i.val))
            partner = [j for j in ins if j.map == other and (j.k1, j.k2, j.val) == (p1, p2, pv)]
            known = test_edges_inl(g, inl, lambda t, p, p1=p1, p2=p2, other=other: p is True and t == f"{p2} in {other}[{p1}]")
            pn = [j.node for j in partner]
            heads = _loop_heads(g, pm, i.stmt)
            start = heads[0] if heads else [g.entry]
            ends = (heads[0] if heads else []) + [g.exit]
            ok_edge = both(no_exc, cut_edges(known))
            before = g.witness(start, [i.node], avoid=pn, edge_ok=ok_edge)
            after = g.witness([i.node], ends, avoid=pn, edge_ok=ok_edge)
            good = bool(partner or known) and (before is None or after is None)
            ctx.check(good, f"{f.key}:{i.map}:inverse-entry-recorded",
                      f"`{unparse(i.stmt)}` records {i.map}[{i.k1}][{i.k2}] = {i.val}, but "
                      + ("nothing records" if not partner else "a path through the function does not record")
                      + f" the inverse {other}[{p1}][{p2}] = {pv}: one direction of the listener registry knows the "
                      "listener, the other does not (event.remove() and the copy to another collection look it up there)",
                      f"with {other}[{p1}][{p2}] = {pv}", f.loc,
                      g.describe_path(after) if (partner and after) else None)


# ---------------------------------------------------------------------- self-test battery
R.mutant("exec-once-invoke-outside-mutex", ATTR,
         sub("        with self._get_exec_once_mutex():\n            if not self._exec_once:\n                try:\n                    self(*args, **kw)\n                    exception = False\n                except:\n                    exception = True\n                    raise\n                finally:\n                    if not exception or not retry_on_exception:\n                        self._exec_once = True\n",
             "        if not self._exec_once:\n            try:\n                self(*args, **kw)\n                exception = False\n            except:\n                exception = True\n                raise\n            finally:\n                with self._get_exec_once_mutex():\n                    if not exception or not retry_on_exception:\n                        self._exec_once = True\n"), "C28-R1")
R.mutant("exec-once-no-retest", ATTR,
         sub("        with self._get_exec_once_mutex():\n            if not self._exec_once:\n                try:", "        with self._get_exec_once_mutex():\n            if True:\n                try:"), "C28-R1")
R.mutant("exec-once-flag-only-on-success", ATTR,
         sub("                    if not exception or not retry_on_exception:\n                        self._exec_once = True\n", "                    if not exception:\n                        self._exec_once = True\n"), "C28-R1")
R.mutant("exec-once-flag-always", ATTR,
         sub("                    if not exception or not retry_on_exception:\n                        self._exec_once = True\n", "                    self._exec_once = True\n"), "C28-R1")
R.mutant("exec-once-unless-exception-no-retry", ATTR,
         sub("            self._exec_once_impl(True, *args, **kw)", "            self._exec_once_impl(False, *args, **kw)"), "C28-R1")
R.mutant("mutex-created-outside-gil", ATTR,
         sub("        with util.mini_gil:\n            if self._exec_once_mutex is not None:\n                return self._exec_once_mutex\n\n            if self._is_asyncio:\n                mutex = AsyncAdaptedLock()\n            else:\n                mutex = threading.Lock()  # type: ignore[assignment]\n            self._exec_once_mutex = mutex\n\n            return mutex\n",
             "        if self._exec_once_mutex is not None:\n            return self._exec_once_mutex\n\n        if self._is_asyncio:\n            mutex = AsyncAdaptedLock()\n        else:\n            mutex = threading.Lock()  # type: ignore[assignment]\n        self._exec_once_mutex = mutex\n\n        return mutex\n"), "C28-R1")
R.mutant("sync-first-run-flag-in-finally", ATTR,
         sub("                except:\n                    raise\n                else:\n                    self._exec_w_sync_once = True\n", "                finally:\n                    self._exec_w_sync_once = True\n"), "C28-R1")
R.mutant("cls-insert-appends", ATTR,
         sub("        self._do_insert_or_append(event_key, is_append=False)", "        self._do_insert_or_append(event_key, is_append=True)"), "C28-R2")
R.mutant("cls-branches-swapped", ATTR,
         sub("                if is_append:\n                    self._clslevel[cls].append(event_key._listen_fn)\n                else:\n                    self._clslevel[cls].appendleft(event_key._listen_fn)\n",
             "                if not is_append:\n                    self._clslevel[cls].append(event_key._listen_fn)\n                else:\n                    self._clslevel[cls].appendleft(event_key._listen_fn)\n"), "C28-R2")
R.mutant("cls-insert-no-registry", ATTR,
         sub("                    self._clslevel[cls].appendleft(event_key._listen_fn)\n        registry._stored_in_collection(event_key, self)\n", "                    self._clslevel[cls].appendleft(event_key._listen_fn)\n"), "C28-R2")
R.mutant("cls-remove-no-registry", ATTR,
         sub("                self._clslevel[cls].remove(event_key._listen_fn)\n        registry._removed_from_collection(event_key, self)\n", "                self._clslevel[cls].remove(event_key._listen_fn)\n"), "C28-R2")
R.mutant("instance-insert-appends", ATTR,
         sub("        if event_key.prepend_to_list(self, self.listeners):", "        if event_key.append_to_list(self, self.listeners):"), "C28-R2")
R.mutant("instance-remove-keeps-propagate", ATTR,
         sub("        self.listeners.remove(event_key._listen_fn)\n        self.propagate.discard(event_key._listen_fn)\n", "        self.listeners.remove(event_key._listen_fn)\n"), "C28-R2")
R.mutant("instance-clear-keeps-propagate", ATTR,
         sub("        registry._clear(self, self.listeners)\n        self.propagate.clear()\n", "        registry._clear(self, self.listeners)\n"), "C28-R2")
R.mutant("registry-prepend-appends", REG,
         sub("            list_.appendleft(self._listen_fn)", "            list_.append(self._listen_fn)"), "C28-R2")
R.mutant("registry-append-unconditional", REG,
         sub("        if _stored_in_collection(self, owner):\n            list_.append(self._listen_fn)\n            return True\n        else:\n            return False\n",
             "        _stored_in_collection(self, owner)\n        list_.append(self._listen_fn)\n        return True\n"), "C28-R2")
R.mutant("call-order-swapped", ATTR,
         sub("        for fn in self.parent_listeners:\n            fn(*args, **kw)\n        for fn in self.listeners:\n            fn(*args, **kw)\n",
             "        for fn in self.listeners:\n            fn(*args, **kw)\n        for fn in self.parent_listeners:\n            fn(*args, **kw)\n"), "C28-R3")
R.mutant("call-skips-parent-listeners", ATTR,
         sub("        for fn in self.parent_listeners:\n            fn(*args, **kw)\n        for fn in self.listeners:\n            fn(*args, **kw)\n", "        for fn in self.listeners:\n            fn(*args, **kw)\n"), "C28-R3")
R.mutant("empty-listener-calls-twice", ATTR,
         sub("        for fn in self.parent_listeners:\n            fn(*args, **kw)\n\n    def __contains__(self, item: Any) -> bool:\n        return item in self.parent_listeners\n",
             "        for fn in self.parent_listeners:\n            fn(*args, **kw)\n        for fn in self.parent_listeners:\n            fn(*args, **kw)\n\n    def __contains__(self, item: Any) -> bool:\n        return item in self.parent_listeners\n"), "C28-R3")
R.mutant("update-subclass-duplicates", ATTR,
         sub("                    [fn for fn in self._clslevel[cls] if fn not in clslevel]\n", "                    [fn for fn in self._clslevel[cls]]\n"), "C28-R4")
R.mutant("update-subclass-recreates", ATTR,
         sub("        if target not in self._clslevel:\n            if getattr(target, \"_sa_propagate_class_events\", True):\n                self._clslevel[target] = collections.deque()\n            else:\n                self._clslevel[target] = _empty_collection()\n",
             "        if getattr(target, \"_sa_propagate_class_events\", True):\n            self._clslevel[target] = collections.deque()\n        else:\n            self._clslevel[target] = _empty_collection()\n"), "C28-R4")
R.mutant("listener-collection-no-update-subclass", ATTR,
         sub("        super().__init__()\n        if target_cls not in parent._clslevel:\n            parent.update_subclass(target_cls)\n", "        super().__init__()\n"), "C28-R4")
# benign refactors
R.mutant("benign-rename-loop-var", ATTR,
         sub("        for fn in self.parent_listeners:\n            fn(*args, **kw)\n        for fn in self.listeners:\n            fn(*args, **kw)\n",
             "        for listener in self.parent_listeners:\n            listener(*args, **kw)\n        for listener in self.listeners:\n            listener(*args, **kw)\n"), None)
R.mutant("benign-exec-once-rename-local", ATTR,
         sub("                    exception = False\n                except:\n                    exception = True\n                    raise\n                finally:\n                    if not exception or not retry_on_exception:",
                           "                    failed = False\n                except:\n                    failed = True\n                    raise\n                finally:\n                    if not failed or not retry_on_exception:"), None)
R.mutant("benign-remove-reordered", ATTR,
         sub("        self.listeners.remove(event_key._listen_fn)\n        self.propagate.discard(event_key._listen_fn)\n", "        self.propagate.discard(event_key._listen_fn)\n        self.listeners.remove(event_key._listen_fn)\n"), None)

# --- strengthening round (seeds C28_1 / C28_2): C28-R2 follows the _EventKey helpers, C28-R5
REMOVE3 = ("        self.listeners.remove(event_key._listen_fn)\n        self.propagate.discard(event_key._listen_fn)\n"
           "        registry._removed_from_collection(event_key, self)\n")
# seed 1: the three updates replaced by the key's list helper, which knows nothing about the propagate set
R.mutant("seed1-instance-remove-via-helper-loses-propagate", ATTR,
         sub(REMOVE3, "        event_key.remove_from_list(self, self.listeners)\n"), "C28-R2")
R.mutant("instance-remove-via-helper-on-propagate-only", ATTR,
         sub(REMOVE3, "        event_key.remove_from_list(self, self.propagate)\n"), "C28-R2")
R.mutant("benign-instance-remove-via-helper-plus-propagate", ATTR,
         sub(REMOVE3, "        event_key.remove_from_list(self, self.listeners)\n        self.propagate.discard(event_key._listen_fn)\n"), None)
FORMOD = ("        existing = getattr(obj, self.name)\n\n        with util.mini_gil:\n"
          "            if existing is self or isinstance(existing, _JoinedListener):\n"
          "                result = _ListenerCollection(self.parent, obj._instance_cls)\n            else:\n"
          "                # this codepath is an extremely rare race condition\n"
          "                # that has been observed in test_pool.py->test_timeout_race\n"
          "                # with freethreaded.\n"
          "                assert isinstance(existing, _ListenerCollection)\n                return existing\n\n"
          "            if existing is self:\n                setattr(obj, self.name, result)\n        return result\n")
# seed 2: read moved under the lock, but the "somebody else installed one" branch is gone: a detached collection is returned
R.mutant("seed2-for-modify-returns-detached-collection", ATTR,
         sub(FORMOD, "\n        with util.mini_gil:\n            result = _ListenerCollection(self.parent, obj._instance_cls)\n"
                     "            if getattr(obj, self.name) is self:\n                setattr(obj, self.name, result)\n        return result\n"), "C28-R5")
R.mutant("for-modify-race-branch-returns-new-collection", ATTR,
         sub("                assert isinstance(existing, _ListenerCollection)\n                return existing\n",
             "                assert isinstance(existing, _ListenerCollection)\n                return _ListenerCollection(self.parent, obj._instance_cls)\n"), "C28-R5")
R.mutant("for-modify-install-outside-lock", ATTR,
         sub("            if existing is self:\n                setattr(obj, self.name, result)\n        return result\n",
             "        if existing is self:\n            setattr(obj, self.name, result)\n        return result\n"), "C28-R5")
R.mutant("for-modify-install-unconditional", ATTR,
         sub("            if existing is self:\n                setattr(obj, self.name, result)\n        return result\n",
             "            setattr(obj, self.name, result)\n        return result\n"), "C28-R5")
R.mutant("for-modify-never-installs-for-placeholder", ATTR,
         sub("            if existing is self:\n                setattr(obj, self.name, result)\n        return result\n",
             "            if existing is not self:\n                setattr(obj, self.name, result)\n        return result\n"), "C28-R5")
R.mutant("joined-for-modify-drops-upgraded-local", ATTR,
         sub("        self.local = self.parent_listeners = self.local.for_modify(obj)\n", "        self.local.for_modify(obj)\n"), "C28-R5")
# the repair of the finding (read under the lock), and two re-shapings of the same logic
R.mutant("benign-for-modify-read-under-lock", ATTR,
         sub("        existing = getattr(obj, self.name)\n\n        with util.mini_gil:\n            if existing is self or",
             "\n        with util.mini_gil:\n            existing = getattr(obj, self.name)\n            if existing is self or"), None)
R.mutant("benign-for-modify-branches-return-directly", ATTR,
         sub(FORMOD, "        existing = getattr(obj, self.name)\n\n        with util.mini_gil:\n            if existing is self:\n"
                     "                coll = _ListenerCollection(self.parent, obj._instance_cls)\n                setattr(obj, self.name, coll)\n"
                     "                return coll\n            elif isinstance(existing, _JoinedListener):\n"
                     "                return _ListenerCollection(self.parent, obj._instance_cls)\n            else:\n                return existing\n"), None)
R.mutant("benign-for-modify-rename-locals", ATTR,
         sub(FORMOD, FORMOD.replace("existing", "current").replace("result", "coll")), None)

# --- robustify round (rob-F1): behaviour-preserving refactors of the anchors (stored: benign/rfF_1..3) and their
# neighbourhood must stay silent; the same shapes with the property broken must still fire
EXEC_ONCE = ("        with self._get_exec_once_mutex():\n            if not self._exec_once:\n                try:\n"
             "                    self(*args, **kw)\n                    exception = False\n                except:\n"
             "                    exception = True\n                    raise\n                finally:\n"
             "                    if not exception or not retry_on_exception:\n                        self._exec_once = True\n")
_EARLY = ("            try:\n                self(*args, **kw)\n                exception = False\n            except:\n"
          "                exception = True\n                raise\n            finally:\n"
          "                if not exception or not retry_on_exception:\n                    self._exec_once = True\n")
R.mutant("benign-rfF2-exec-once-early-return-inside-mutex", ATTR,
         sub(EXEC_ONCE, "        with self._get_exec_once_mutex():\n            if self._exec_once:\n                return\n\n" + _EARLY), None)
R.mutant("exec-once-early-return-tested-before-mutex", ATTR,
         sub(EXEC_ONCE, "        if self._exec_once:\n            return\n        with self._get_exec_once_mutex():\n" + _EARLY), "C28-R1")
R.mutant("benign-exec-once-mutex-held-in-local", ATTR,
         sub(EXEC_ONCE, EXEC_ONCE.replace("        with self._get_exec_once_mutex():\n",
                                          "        mutex = self._get_exec_once_mutex()\n        with mutex:\n")), None)
R.mutant("benign-exec-once-except-else-instead-of-finally", ATTR,
         sub(EXEC_ONCE, "        with self._get_exec_once_mutex():\n            if not self._exec_once:\n                try:\n"
                        "                    self(*args, **kw)\n                except:\n                    if not retry_on_exception:\n"
                        "                        self._exec_once = True\n                    raise\n                else:\n"
                        "                    self._exec_once = True\n"), None)
R.mutant("exec-once-except-else-flag-on-retry-failure", ATTR,
         sub(EXEC_ONCE, "        with self._get_exec_once_mutex():\n            if not self._exec_once:\n                try:\n"
                        "                    self(*args, **kw)\n                except:\n                    if retry_on_exception:\n"
                        "                        self._exec_once = True\n                    raise\n                else:\n"
                        "                    self._exec_once = True\n"), "C28-R1")
_LOCKED_HELPER = ("    def _exec_once_locked(\n        self, retry: bool, *args: Any, **kw: Any\n    ) -> None:\n        try:\n"
                  "            self(*args, **kw)\n            failed = False\n        except:\n            failed = True\n            raise\n"
                  "        finally:\n            if not failed or not retry:\n                self._exec_once = True\n\n")
R.mutant("benign-exec-once-locked-body-in-helper", ATTR,
         sub(EXEC_ONCE, "        with self._get_exec_once_mutex():\n            if not self._exec_once:\n"
                        "                self._exec_once_locked(retry_on_exception, *args, **kw)\n\n" + _LOCKED_HELPER), None)
R.mutant("exec-once-helper-called-outside-mutex", ATTR,
         sub(EXEC_ONCE, "        with self._get_exec_once_mutex():\n            pending = not self._exec_once\n        if pending:\n"
                        "            self._exec_once_locked(retry_on_exception, *args, **kw)\n\n" + _LOCKED_HELPER), "C28-R1")
R.mutant("exec-once-helper-ignores-retry", ATTR,
         sub(EXEC_ONCE, "        with self._get_exec_once_mutex():\n            if not self._exec_once:\n"
                        "                self._exec_once_locked(retry_on_exception, *args, **kw)\n\n"
                        + _LOCKED_HELPER.replace("if not failed or not retry:", "if not failed:")), "C28-R1")
_SYNC = ("        if not self._exec_w_sync_once:\n            with self._get_exec_once_mutex():\n                try:\n"
         "                    self(*args, **kw)\n                except:\n                    raise\n                else:\n"
         "                    self._exec_w_sync_once = True\n        else:\n            self(*args, **kw)\n")
R.mutant("benign-rfF2-sync-first-run-inverted-no-except-raise", ATTR,
         sub(_SYNC, "        if self._exec_w_sync_once:\n            self(*args, **kw)\n        else:\n"
                    "            with self._get_exec_once_mutex():\n                self(*args, **kw)\n"
                    "                self._exec_w_sync_once = True\n"), None)
R.mutant("sync-first-run-inverted-flag-before-dispatch", ATTR,
         sub(_SYNC, "        if self._exec_w_sync_once:\n            self(*args, **kw)\n        else:\n"
                    "            with self._get_exec_once_mutex():\n                try:\n                    self(*args, **kw)\n"
                    "                finally:\n                    self._exec_w_sync_once = True\n"), "C28-R1")
_GETMUTEX = ("        with util.mini_gil:\n            if self._exec_once_mutex is not None:\n                return self._exec_once_mutex\n\n"
             "            if self._is_asyncio:\n                mutex = AsyncAdaptedLock()\n            else:\n"
             "                mutex = threading.Lock()  # type: ignore[assignment]\n            self._exec_once_mutex = mutex\n\n"
             "            return mutex\n")
R.mutant("benign-get-mutex-snapshot-local-single-return", ATTR,
         sub(_GETMUTEX, "        with util.mini_gil:\n            mutex = self._exec_once_mutex\n            if mutex is None:\n"
                        "                if self._is_asyncio:\n                    mutex = AsyncAdaptedLock()\n                else:\n"
                        "                    mutex = threading.Lock()  # type: ignore[assignment]\n"
                        "                self._exec_once_mutex = mutex\n        return mutex\n"), None)
R.mutant("get-mutex-snapshot-read-before-gil", ATTR,
         sub(_GETMUTEX, "        mutex = self._exec_once_mutex\n        with util.mini_gil:\n            if mutex is None:\n"
                        "                if self._is_asyncio:\n                    mutex = AsyncAdaptedLock()\n                else:\n"
                        "                    mutex = threading.Lock()  # type: ignore[assignment]\n"
                        "                self._exec_once_mutex = mutex\n        return mutex\n"), "C28-R1")
_CLSLOOP = ("        for cls in util.walk_subclasses(target):\n            if cls is not target and cls not in self._clslevel:\n"
            "                self.update_subclass(cls)\n            else:\n                if cls not in self._clslevel:\n"
            "                    self.update_subclass(cls)\n                if is_append:\n"
            "                    self._clslevel[cls].append(event_key._listen_fn)\n                else:\n"
            "                    self._clslevel[cls].appendleft(event_key._listen_fn)\n")
R.mutant("benign-rfF1-clslevel-alias-merged-guard-continue", ATTR,
         sub(_CLSLOOP, "        clslevel = self._clslevel\n\n        for cls in util.walk_subclasses(target):\n            if cls not in clslevel:\n"
                       "                self.update_subclass(cls)\n                if cls is not target:\n                    continue\n\n"
                       "            if is_append:\n                clslevel[cls].append(event_key._listen_fn)\n            else:\n"
                       "                clslevel[cls].appendleft(event_key._listen_fn)\n"), None)
R.mutant("clslevel-alias-branches-swapped", ATTR,
         sub(_CLSLOOP, "        clslevel = self._clslevel\n\n        for cls in util.walk_subclasses(target):\n            if cls not in clslevel:\n"
                       "                self.update_subclass(cls)\n                if cls is not target:\n                    continue\n\n"
                       "            if is_append:\n                clslevel[cls].appendleft(event_key._listen_fn)\n            else:\n"
                       "                clslevel[cls].append(event_key._listen_fn)\n"), "C28-R2")
R.mutant("benign-cls-insert-slot-and-fn-in-locals", ATTR,
         sub(_CLSLOOP, "        listen_fn = event_key._listen_fn\n        subclasses = util.walk_subclasses(target)\n        for cls in subclasses:\n"
                       "            if cls is not target and cls not in self._clslevel:\n                self.update_subclass(cls)\n                continue\n"
                       "            if cls not in self._clslevel:\n                self.update_subclass(cls)\n            coll = self._clslevel[cls]\n"
                       "            if not is_append:\n                coll.appendleft(listen_fn)\n            else:\n                coll.append(listen_fn)\n"), None)
_PERCLS = ("    def _add_to_class(\n        self, klass: Type[_ET], key: _EventKey[_ET], at_end: bool\n    ) -> None:\n"
           "        if klass not in self._clslevel:\n            self.update_subclass(klass)\n        if at_end:\n"
           "            self._clslevel[klass].append(key._listen_fn)\n        else:\n            self._clslevel[klass].appendleft(key._listen_fn)\n\n")
_PERCLS_LOOP = ("        for cls in util.walk_subclasses(target):\n            if cls is not target and cls not in self._clslevel:\n"
                "                self.update_subclass(cls)\n            else:\n                self._add_to_class(cls, event_key, is_append)\n")
_STORE_TAIL = "        registry._stored_in_collection(event_key, self)\n\n    def insert(self, event_key: _EventKey[_ET], propagate: bool) -> None:\n        self._do_insert_or_append(event_key, is_append=False)\n"
R.mutant("benign-cls-insert-per-class-helper", ATTR,
         chain(sub(_CLSLOOP, _PERCLS_LOOP),
               sub(_STORE_TAIL, _STORE_TAIL.replace("\n    def insert(", "\n" + _PERCLS + "    def insert(", 1))), None)
R.mutant("cls-insert-per-class-helper-swapped", ATTR,
         chain(sub(_CLSLOOP, _PERCLS_LOOP),
               sub(_STORE_TAIL, _STORE_TAIL.replace("\n    def insert(", "\n" + _PERCLS.replace("if at_end:", "if not at_end:") + "    def insert(", 1))), "C28-R2")
_INST_INSERT = ("        if event_key.prepend_to_list(self, self.listeners):\n            if propagate:\n"
                "                self.propagate.add(event_key._listen_fn)\n")
R.mutant("benign-instance-insert-result-in-local-merged-test", ATTR,
         sub(_INST_INSERT, "        added = event_key.prepend_to_list(self, self.listeners)\n        if added and propagate:\n"
                           "            self.propagate.add(event_key._listen_fn)\n"), None)
R.mutant("benign-instance-insert-early-return", ATTR,
         sub(_INST_INSERT, "        if not event_key.prepend_to_list(self, self.listeners):\n            return\n        if not propagate:\n            return\n"
                           "        self.propagate.add(event_key._listen_fn)\n"), None)
R.mutant("instance-insert-propagates-even-if-not-added", ATTR,
         sub(_INST_INSERT, "        added = event_key.prepend_to_list(self, self.listeners)\n        if added or propagate:\n"
                           "            self.propagate.add(event_key._listen_fn)\n"), "C28-R2")
_REG_APPEND = ("        if _stored_in_collection(self, owner):\n            list_.append(self._listen_fn)\n            return True\n"
               "        else:\n            return False\n")
R.mutant("benign-rfF3-registry-append-early-return", REG,
         sub(_REG_APPEND, "        if not _stored_in_collection(self, owner):\n            return False\n\n"
                          "        list_.append(self._listen_fn)\n        return True\n"), None)
R.mutant("benign-registry-append-result-in-local", REG,
         sub(_REG_APPEND, "        stored = _stored_in_collection(self, owner)\n        if stored:\n            list_.append(self._listen_fn)\n"
                          "        return stored\n"), None)
R.mutant("registry-append-when-not-stored", REG,
         sub(_REG_APPEND, "        stored = _stored_in_collection(self, owner)\n        if not stored:\n            list_.append(self._listen_fn)\n"
                          "        return stored\n"), "C28-R2")
_INST_REMOVE_ALIAS = ("        listeners = self.listeners\n        fn = event_key._listen_fn\n        listeners.remove(fn)\n"
                      "        self.propagate.discard(fn)\n        registry._removed_from_collection(event_key, self)\n")
R.mutant("benign-instance-remove-through-locals", ATTR, sub(REMOVE3, _INST_REMOVE_ALIAS), None)
_CALL2 = "        for fn in self.parent_listeners:\n            fn(*args, **kw)\n        for fn in self.listeners:\n            fn(*args, **kw)\n"
R.mutant("benign-call-one-loop-over-chain", ATTR,
         sub(_CALL2, "        for fn in chain(self.parent_listeners, self.listeners):\n            fn(*args, **kw)\n"), None)
R.mutant("call-one-loop-over-chain-reversed", ATTR,
         sub(_CALL2, "        for fn in chain(self.listeners, self.parent_listeners):\n            fn(*args, **kw)\n"), "C28-R3")
R.mutant("benign-call-collections-in-locals", ATTR,
         sub(_CALL2, "        inherited = self.parent_listeners\n        own = self.listeners\n        for fn in inherited:\n            fn(*args, **kw)\n"
                     "        for fn in own:\n            fn(*args, **kw)\n"), None)
_UPD_EXT = ("            if cls in self._clslevel:\n                clslevel.extend(\n"
            "                    [fn for fn in self._clslevel[cls] if fn not in clslevel]\n                )\n")
R.mutant("benign-update-subclass-comprehension-as-loop", ATTR,
         sub(_UPD_EXT, "            if cls not in self._clslevel:\n                continue\n            for fn in self._clslevel[cls]:\n"
                       "                if fn not in clslevel:\n                    clslevel.append(fn)\n"), None)
R.mutant("update-subclass-loop-without-membership-test", ATTR,
         sub(_UPD_EXT, "            if cls not in self._clslevel:\n                continue\n            for fn in self._clslevel[cls]:\n"
                       "                clslevel.append(fn)\n"), "C28-R4")
_UPD_CREATE = ("        if target not in self._clslevel:\n            if getattr(target, \"_sa_propagate_class_events\", True):\n"
               "                self._clslevel[target] = collections.deque()\n            else:\n"
               "                self._clslevel[target] = _empty_collection()\n")
R.mutant("benign-update-subclass-create-merged-tests", ATTR,
         sub(_UPD_CREATE, "        registered = self._clslevel\n        missing = target not in registered\n"
                          "        if missing and getattr(target, \"_sa_propagate_class_events\", True):\n"
                          "            registered[target] = collections.deque()\n        elif missing:\n"
                          "            registered[target] = _empty_collection()\n"), None)
_LC_INIT = "        super().__init__()\n        if target_cls not in parent._clslevel:\n            parent.update_subclass(target_cls)\n"
R.mutant("benign-listener-collection-init-clslevel-alias", ATTR,
         sub(_LC_INIT, "        super().__init__()\n        known = parent._clslevel\n        if target_cls not in known:\n"
                       "            parent.update_subclass(target_cls)\n"), None)
R.mutant("benign-for-modify-slot-name-in-local-inverted-branches", ATTR,
         sub(FORMOD, "        name = self.name\n        existing = getattr(obj, name)\n\n        with util.mini_gil:\n"
                     "            if existing is not self and not isinstance(existing, _JoinedListener):\n"
                     "                assert isinstance(existing, _ListenerCollection)\n                return existing\n\n"
                     "            result = _ListenerCollection(self.parent, obj._instance_cls)\n"
                     "            if existing is self:\n                setattr(obj, name, result)\n        return result\n"), None)
R.mutant("for-modify-inverted-branches-install-for-joined", ATTR,
         sub(FORMOD, "        name = self.name\n        existing = getattr(obj, name)\n\n        with util.mini_gil:\n"
                     "            if existing is not self and not isinstance(existing, _JoinedListener):\n"
                     "                assert isinstance(existing, _ListenerCollection)\n                return existing\n\n"
                     "            result = _ListenerCollection(self.parent, obj._instance_cls)\n"
                     "            setattr(obj, name, result)\n        return result\n"), "C28-R5")
R.mutant("benign-exec-once-flag-decision-in-boolean-local", ATTR,
         sub("                    if not exception or not retry_on_exception:\n                        self._exec_once = True\n",
             "                    mark_done = not exception or not retry_on_exception\n                    if mark_done:\n                        self._exec_once = True\n"), None)
R.mutant("exec-once-flag-decision-in-boolean-local-ignores-retry", ATTR,
         sub("                    if not exception or not retry_on_exception:\n                        self._exec_once = True\n",
             "                    mark_done = not exception\n                    if mark_done:\n                        self._exec_once = True\n"), "C28-R1")

# --- round-2 strengthening (str2-l): seeds C28_3 (update_subclass walks __bases__) and C28_4 (registry entry written
# into a `.get(k, {})` default).  C28-R4 `:covers-all-ancestors`, new C28-R6.
_MRO_LOOP = "        for cls in target.__mro__[1:]:\n            if cls in self._clslevel:\n"
R.mutant("seed3-update-subclass-walks-direct-bases-only", ATTR,
         sub(_MRO_LOOP, "        for cls in target.__bases__:\n            if cls in self._clslevel:\n"), "C28-R4")
R.mutant("update-subclass-walks-bounded-mro-prefix", ATTR,
         sub(_MRO_LOOP, "        for cls in target.__mro__[1:2]:\n            if cls in self._clslevel:\n"), "C28-R4")
R.mutant("update-subclass-direct-bases-through-local-inverted-test", ATTR,
         sub(_MRO_LOOP + _UPD_EXT.split("\n", 1)[1],
             "        parents = target.__bases__\n        for cls in parents:\n            if cls not in self._clslevel:\n                continue\n"
             "            clslevel.extend(\n                [fn for fn in self._clslevel[cls] if fn not in clslevel]\n            )\n"), "C28-R4")
_PARENTS_HELPER = "    @staticmethod\n    def _parents_of(klass: Type[_ET]) -> Any:\n        return klass.%s\n\n"
_UPD_DEF = "    def update_subclass(self, target: Type[_ET]) -> None:\n"
R.mutant("update-subclass-helper-returns-direct-bases", ATTR,
         chain(sub(_MRO_LOOP, "        for cls in self._parents_of(target):\n            if cls in self._clslevel:\n"),
               sub(_UPD_DEF, _PARENTS_HELPER % "__bases__" + _UPD_DEF)), "C28-R4")
R.mutant("benign-update-subclass-helper-returns-mro-tail", ATTR,
         chain(sub(_MRO_LOOP, "        for cls in self._parents_of(target):\n            if cls in self._clslevel:\n"),
               sub(_UPD_DEF, _PARENTS_HELPER % "__mro__[1:]" + _UPD_DEF)), None)
R.mutant("benign-update-subclass-ancestry-in-local", ATTR,
         sub(_MRO_LOOP, "        ancestry = target.__mro__\n        for cls in ancestry[1:]:\n            if cls in self._clslevel:\n"), None)
R.mutant("benign-update-subclass-whole-mro-skipping-target", ATTR,
         sub(_MRO_LOOP + _UPD_EXT.split("\n", 1)[1],
             "        for cls in target.mro():\n            if cls is target or cls not in self._clslevel:\n                continue\n"
             "            clslevel.extend(\n                [fn for fn in self._clslevel[cls] if fn not in clslevel]\n            )\n"), None)
R.mutant("benign-update-subclass-direct-bases-initialised-first", ATTR,
         sub(_MRO_LOOP + _UPD_EXT.split("\n", 1)[1],
             "        for cls in target.__bases__:\n            if cls not in self._clslevel:\n                self.update_subclass(cls)\n"
             "            clslevel.extend(\n                [fn for fn in self._clslevel[cls] if fn not in clslevel]\n            )\n"), None)
R.mutant("update-subclass-direct-bases-initialised-only-for-some", ATTR,
         sub(_MRO_LOOP + _UPD_EXT.split("\n", 1)[1],
             "        for cls in target.__bases__:\n            if cls not in self._clslevel:\n"
             "                if not getattr(cls, \"_sa_propagate_class_events\", True):\n                    continue\n"
             "                self.update_subclass(cls)\n"
             "            clslevel.extend(\n                [fn for fn in self._clslevel[cls] if fn not in clslevel]\n            )\n"), "C28-R4")
_MULTI_OLD = "    old_listener_to_key = _collection_to_key[oldowner_ref]\n"
_MULTI_NEW = "    new_listener_to_key = _collection_to_key[newowner_ref]\n"
R.mutant("seed4-multi-copy-entry-written-into-get-default", REG,
         sub(_MULTI_OLD + _MULTI_NEW, "    old_listener_to_key = _collection_to_key.get(oldowner_ref, {})\n"
                                      "    new_listener_to_key = _collection_to_key.get(newowner_ref, {})\n"), "C28-R6")
R.mutant("multi-copy-entry-written-into-get-or-fresh", REG,
         sub(_MULTI_NEW, "    new_listener_to_key = _collection_to_key.get(newowner_ref) or {}\n"), "C28-R6")
R.mutant("multi-copy-entry-written-into-conditional-fresh", REG,
         sub(_MULTI_NEW, "    new_listener_to_key = (\n        _collection_to_key[newowner_ref]\n        if newowner_ref in _collection_to_key\n        else {}\n    )\n"), "C28-R6")
R.mutant("multi-copy-fresh-mapping-stored-back-only-sometimes", REG,
         sub(_MULTI_NEW, "    new_listener_to_key = _collection_to_key.get(newowner_ref)\n    if new_listener_to_key is None:\n"
                         "        new_listener_to_key = {}\n        if oldowner_ref in _collection_to_key:\n"
                         "            _collection_to_key[newowner_ref] = new_listener_to_key\n"), "C28-R6")
_SIC_TAIL = "    listener_to_key = _collection_to_key[owner_ref]\n    listener_to_key[listen_ref] = key\n\n    return True\n"
R.mutant("stored-in-collection-inverse-entry-dropped", REG, sub(_SIC_TAIL, "    return True\n"), "C28-R6")
R.mutant("multi-copy-inverse-entry-rotated-wrongly", REG,
         sub("        new_listener_to_key[listen_ref] = key\n", "        new_listener_to_key[key] = listen_ref\n"), "C28-R6")
R.mutant("multi-copy-forward-entry-dropped", REG,
         sub("        else:\n            dispatch_reg[newowner_ref] = listen_ref\n\n        new_listener_to_key[listen_ref] = key\n",
             "            continue\n\n        new_listener_to_key[listen_ref] = key\n"), "C28-R6")
R.mutant("benign-multi-copy-old-owner-lookup-with-get-default", REG,
         sub(_MULTI_OLD, "    old_listener_to_key = _collection_to_key.get(oldowner_ref, {})\n"), None)
R.mutant("benign-multi-copy-new-owner-setdefault", REG,
         sub(_MULTI_NEW, "    new_listener_to_key = _collection_to_key.setdefault(newowner_ref, {})\n"), None)
R.mutant("benign-multi-copy-fresh-mapping-stored-back", REG,
         sub(_MULTI_NEW, "    new_listener_to_key = _collection_to_key.get(newowner_ref)\n    if new_listener_to_key is None:\n"
                         "        new_listener_to_key = _collection_to_key[newowner_ref] = {}\n"), None)
R.mutant("benign-multi-copy-inverse-entry-inside-else", REG,
         sub("        else:\n            dispatch_reg[newowner_ref] = listen_ref\n\n        new_listener_to_key[listen_ref] = key\n",
             "        else:\n            dispatch_reg[newowner_ref] = listen_ref\n            new_listener_to_key[listen_ref] = key\n"), None)
R.mutant("benign-stored-in-collection-direct-subscripts-reordered", REG,
         sub("    dispatch_reg[owner_ref] = listen_ref\n\n" + _SIC_TAIL,
             "    _collection_to_key[owner_ref][listen_ref] = key\n    _key_to_collection[key][owner_ref] = listen_ref\n\n    return True\n"), None)
_RECORD = ("def _record(\n    key: _EventKeyTupleType, owner_ref: Any, listen_ref: Any\n) -> None:\n"
           "    _key_to_collection[key][owner_ref] = listen_ref\n    _collection_to_key[owner_ref][listen_ref] = %s\n\n\n")
_SIC_DEF = "def _stored_in_collection(\n"
R.mutant("benign-stored-in-collection-record-helper", REG,
         chain(sub("    dispatch_reg[owner_ref] = listen_ref\n\n" + _SIC_TAIL, "    _record(key, owner_ref, listen_ref)\n\n    return True\n"),
               sub(_SIC_DEF, _RECORD % "key" + _SIC_DEF)), None)
R.mutant("stored-in-collection-record-helper-wrong-inverse", REG,
         chain(sub("    dispatch_reg[owner_ref] = listen_ref\n\n" + _SIC_TAIL, "    _record(key, owner_ref, listen_ref)\n\n    return True\n"),
               sub(_SIC_DEF, _RECORD % "owner_ref" + _SIC_DEF)), "C28-R6")
