"""Helpers shared by the rules written by `rules-a` (C04 C06 C07 C08 C18 C20 C21 C22).

`Mini` is a tiny evaluator for *extracted* straight-line string/integer code (a chain of
`.replace()` steps, a length computation): it works on the AST of a handful of statements with a
concrete model environment supplied by the rule.  It never imports or runs anything from /repo;
anything outside the small whitelisted expression language is an `AnalysisError` (unknown idiom,
exit 2) -- never a pass and never a violation.
"""

from __future__ import annotations

import ast
import itertools
from typing import Any, Callable, Dict, List, Optional, Sequence, Tuple

from ..astutil import dotted, unparse
from ..errors import AnalysisError


class Unsupported(AnalysisError):
    pass


class _Return(Exception):
    def __init__(self, value, node):
        self.value = value
        self.node = node


class _Raise(Exception):
    def __init__(self, node):
        self.node = node


_STR_METHODS = {
    "replace", "lower", "upper", "strip", "startswith", "endswith", "join", "split", "format",
}
_TYPES = {"str": str, "int": int, "bool": bool, "tuple": tuple, "list": list, "dict": dict,
          "float": float, "bytes": bytes}


class Mini:
    """Evaluate expressions / run statement lists over `env` (dict name -> python value).

    hooks:
      call_hook(call_node, env, mini) -> value or NotImplemented
      attr_hook(attr_node, env, mini) -> value or NotImplemented
      expr_stmt_hook(stmt, env, mini) -> True if handled (default: bare calls are ignored when they
          do not involve a str/list method on a tracked variable)
    """

    def __init__(self, call_hook=None, attr_hook=None, what="extracted code"):
        self.call_hook = call_hook
        self.attr_hook = attr_hook
        self.what = what
        self.steps = 0

    # ------------------------------------------------------------------ expressions
    def ev(self, n: ast.AST, env: Dict[str, Any]):
        self.steps += 1
        if self.steps > 200000:
            raise Unsupported(f"{self.what}: evaluation budget exceeded")
        if isinstance(n, ast.Constant):
            return n.value
        if isinstance(n, ast.Name):
            if n.id in env:
                return env[n.id]
            if n.id in ("True", "False", "None"):
                return {"True": True, "False": False, "None": None}[n.id]
            raise Unsupported(f"{self.what}: free name `{n.id}`")
        if isinstance(n, (ast.Tuple, ast.List)):
            v = [self.ev(e, env) for e in n.elts]
            return tuple(v) if isinstance(n, ast.Tuple) else v
        if isinstance(n, ast.Set):
            return {self.ev(e, env) for e in n.elts}
        if isinstance(n, ast.UnaryOp):
            v = self.ev(n.operand, env)
            if isinstance(n.op, ast.Not):
                return not v
            if isinstance(n.op, ast.USub):
                return -v
        if isinstance(n, ast.BoolOp):
            if isinstance(n.op, ast.And):
                v = True
                for e in n.values:
                    v = self.ev(e, env)
                    if not v:
                        return v
                return v
            v = False
            for e in n.values:
                v = self.ev(e, env)
                if v:
                    return v
            return v
        if isinstance(n, ast.IfExp):
            return self.ev(n.body, env) if self.ev(n.test, env) else self.ev(n.orelse, env)
        if isinstance(n, ast.BinOp):
            a, b = self.ev(n.left, env), self.ev(n.right, env)
            try:
                if isinstance(n.op, ast.Add):
                    return a + b
                if isinstance(n.op, ast.Sub):
                    return a - b
                if isinstance(n.op, ast.Mult):
                    return a * b
                if isinstance(n.op, ast.FloorDiv):
                    return a // b
                if isinstance(n.op, ast.Mod) and isinstance(a, str):
                    return a % b
            except Exception as e:
                raise Unsupported(f"{self.what}: `{unparse(n)}` failed in the model: {e}")
        if isinstance(n, ast.Compare):
            left = self.ev(n.left, env)
            for op, c in zip(n.ops, n.comparators):
                right = self.ev(c, env)
                r = self._cmp(op, left, right, n)
                if not r:
                    return False
                left = right
            return True
        if isinstance(n, ast.Subscript):
            v = self.ev(n.value, env)
            if isinstance(n.slice, ast.Slice):
                lo = self.ev(n.slice.lower, env) if n.slice.lower is not None else None
                hi = self.ev(n.slice.upper, env) if n.slice.upper is not None else None
                st = self.ev(n.slice.step, env) if n.slice.step is not None else None
                return v[lo:hi:st]
            try:
                return v[self.ev(n.slice, env)]
            except (KeyError, IndexError, TypeError) as e:
                raise Unsupported(f"{self.what}: subscript `{unparse(n)}` failed in the model: {e!r}")
        if isinstance(n, ast.JoinedStr):
            out = []
            for p in n.values:
                if isinstance(p, ast.Constant):
                    out.append(str(p.value))
                elif isinstance(p, ast.FormattedValue) and p.format_spec is None and p.conversion == -1:
                    out.append(str(self.ev(p.value, env)))
                else:
                    raise Unsupported(f"{self.what}: f-string part `{unparse(p)}`")
            return "".join(out)
        if isinstance(n, ast.Attribute):
            if self.attr_hook is not None:
                r = self.attr_hook(n, env, self)
                if r is not NotImplemented:
                    return r
            raise Unsupported(f"{self.what}: attribute `{unparse(n)}`")
        if isinstance(n, ast.Call):
            return self._call(n, env)
        if isinstance(n, ast.NamedExpr) and isinstance(n.target, ast.Name):
            v = self.ev(n.value, env)
            env[n.target.id] = v
            return v
        raise Unsupported(f"{self.what}: expression `{unparse(n)}` ({type(n).__name__})")

    def _cmp(self, op, a, b, n):
        try:
            if isinstance(op, ast.Is):
                return a is b
            if isinstance(op, ast.IsNot):
                return a is not b
            if isinstance(op, ast.Eq):
                return a == b
            if isinstance(op, ast.NotEq):
                return a != b
            if isinstance(op, ast.In):
                return a in b
            if isinstance(op, ast.NotIn):
                return a not in b
            if isinstance(op, ast.Lt):
                return a < b
            if isinstance(op, ast.LtE):
                return a <= b
            if isinstance(op, ast.Gt):
                return a > b
            if isinstance(op, ast.GtE):
                return a >= b
        except Exception as e:
            raise Unsupported(f"{self.what}: comparison `{unparse(n)}` failed in the model: {e}")
        raise Unsupported(f"{self.what}: comparison operator in `{unparse(n)}`")

    def _call(self, n: ast.Call, env):
        if self.call_hook is not None:
            r = self.call_hook(n, env, self)
            if r is not NotImplemented:
                return r
        if n.keywords and any(k.arg is None for k in n.keywords):
            raise Unsupported(f"{self.what}: call `{unparse(n)}`")
        f = n.func
        if isinstance(f, ast.Name):
            if f.id == "isinstance" and len(n.args) == 2:
                t = n.args[1]
                names = [e for e in t.elts] if isinstance(t, ast.Tuple) else [t]
                tys = []
                for e in names:
                    d = dotted(e)
                    if d not in _TYPES:
                        raise Unsupported(f"{self.what}: isinstance against `{unparse(e)}`")
                    tys.append(_TYPES[d])
                return isinstance(self.ev(n.args[0], env), tuple(tys))
            if f.id in ("len", "str", "int", "max", "min", "bool", "hex", "abs", "repr") and not n.keywords:
                args = [self.ev(a, env) for a in n.args]
                return {"len": len, "str": str, "int": int, "max": max, "min": min, "bool": bool,
                        "hex": hex, "abs": abs, "repr": repr}[f.id](*args)
        if isinstance(f, ast.Attribute) and f.attr in _STR_METHODS and not n.keywords:
            recv = self.ev(f.value, env)
            if isinstance(recv, str):
                args = [self.ev(a, env) for a in n.args]
                return getattr(recv, f.attr)(*args)
        raise Unsupported(f"{self.what}: call `{unparse(n)}`")

    # ------------------------------------------------------------------ statements
    def run(self, stmts: Sequence[ast.stmt], env: Dict[str, Any]):
        """Run statements; returns ('return', value, node) | ('raise', None, node) | ('fall', None, None)."""
        try:
            self._block(stmts, env)
        except _Return as r:
            return ("return", r.value, r.node)
        except _Raise as r:
            return ("raise", None, r.node)
        return ("fall", None, None)

    def _block(self, stmts, env):
        for st in stmts:
            self._stmt(st, env)

    def _assign(self, target, value, env, st):
        if isinstance(target, ast.Name):
            env[target.id] = value
        elif isinstance(target, (ast.Tuple, ast.List)):
            vals = list(value)
            if len(vals) != len(target.elts):
                raise Unsupported(f"{self.what}: unpacking `{unparse(st)}`")
            for t, v in zip(target.elts, vals):
                self._assign(t, v, env, st)
        else:
            raise Unsupported(f"{self.what}: store `{unparse(st)}`")

    def _stmt(self, st, env):
        if isinstance(st, ast.If):
            self._block(st.body if self.ev(st.test, env) else st.orelse, env)
        elif isinstance(st, ast.Assign):
            v = self.ev(st.value, env)
            for t in st.targets:
                self._assign(t, v, env, st)
        elif isinstance(st, ast.AnnAssign):
            if st.value is not None:
                self._assign(st.target, self.ev(st.value, env), env, st)
        elif isinstance(st, ast.AugAssign) and isinstance(st.target, ast.Name):
            cur = self.ev(st.target, env)
            v = self.ev(ast.BinOp(left=ast.Constant(cur), op=st.op, right=st.value), env)
            env[st.target.id] = v
        elif isinstance(st, ast.Return):
            raise _Return(self.ev(st.value, env) if st.value is not None else None, st)
        elif isinstance(st, ast.Raise):
            raise _Raise(st)
        elif isinstance(st, ast.For) and not st.orelse:
            it = self.ev(st.iter, env)
            if not isinstance(it, (tuple, list, str)):
                raise Unsupported(f"{self.what}: loop over `{unparse(st.iter)}`")
            for v in it:
                self._assign(st.target, v, env, st)
                self._block(st.body, env)
        elif isinstance(st, ast.Expr):
            if isinstance(st.value, ast.Constant):
                return  # docstring
            if isinstance(st.value, ast.Call):
                # a bare call: logging / warning -- no effect on the tracked values unless it is a
                # method call on a tracked variable (then we do not understand it)
                f = st.value.func
                if isinstance(f, ast.Attribute) and isinstance(f.value, ast.Name) and f.value.id in env \
                        and not isinstance(env[f.value.id], (str, int, type(None), bool, tuple)):
                    raise Unsupported(f"{self.what}: effectful call `{unparse(st)}`")
                return
            raise Unsupported(f"{self.what}: statement `{unparse(st)}`")
        elif isinstance(st, ast.Pass):
            return
        elif isinstance(st, ast.Assert):
            return
        else:
            raise Unsupported(f"{self.what}: statement kind {type(st).__name__} `{unparse(st)[:60]}`")


def strings_over(alphabet: Sequence[str], maxlen: int) -> List[str]:
    out = []
    for n in range(maxlen + 1):
        for t in itertools.product(alphabet, repeat=n):
            out.append("".join(t))
    return out


def str_constants(node: ast.AST) -> List[str]:
    return [n.value for n in ast.walk(node) if isinstance(n, ast.Constant) and isinstance(n.value, str)]


def self_attr(node: ast.AST, recv: str = "self") -> Optional[str]:
    """`self.x` -> 'x'."""
    if isinstance(node, ast.Attribute) and isinstance(node.value, ast.Name) and node.value.id == recv:
        return node.attr
    return None


# ======================================================================================================
# Path-enumerating symbolic executor for small `if`-structured functions (C18): values are None, python
# constants, `Sym`, ('add', a, b), marker strings, or OPAQUE.  Tests that cannot be decided fork the path.
class SymV:
    def __init__(self, name):
        self.name = name

    def __repr__(self):
        return f"‹{self.name}›"

    def __eq__(self, o):
        return isinstance(o, SymV) and o.name == self.name

    def __hash__(self):
        return hash(("SymV", self.name))


class _Opaque:
    def __repr__(self):
        return "‹?›"


OPAQUE = _Opaque()


class PathEnd(Exception):
    pass


class SymExec:
    """hooks: attr(node, env, sx) / call(node, env, sx) -> value or NotImplemented.
    `events` is a per-path list the hooks may append to (e.g. where() predicates)."""

    MAX_PATHS = 20000

    def __init__(self, attr=None, call=None, what="function"):
        self.attr = attr
        self.call = call
        self.what = what
        self.paths = []  # (kind, value, env, events)

    # ---- expressions
    def ev(self, n, env, events):
        if isinstance(n, ast.Constant):
            return n.value
        if isinstance(n, ast.Name):
            return env.get(n.id, OPAQUE)
        if isinstance(n, ast.Attribute):
            if self.attr is not None:
                r = self.attr(n, env, self, events)
                if r is not NotImplemented:
                    return r
            self.ev(n.value, env, events)
            return OPAQUE
        if isinstance(n, ast.Call):
            if self.call is not None:
                r = self.call(n, env, self, events)
                if r is not NotImplemented:
                    return r
            if isinstance(n.func, ast.Attribute):
                self.ev(n.func.value, env, events)
            for a in n.args:
                self.ev(a.value if isinstance(a, ast.Starred) else a, env, events)
            for k in n.keywords:
                self.ev(k.value, env, events)
            return OPAQUE
        if isinstance(n, ast.BinOp):
            a, b = self.ev(n.left, env, events), self.ev(n.right, env, events)
            if isinstance(n.op, ast.Add):
                if isinstance(a, str) and isinstance(b, str):
                    return a + b
                if isinstance(a, str) or isinstance(b, str):
                    return (a if isinstance(a, str) else repr(a)) + (b if isinstance(b, str) else repr(b))
                if a is OPAQUE or b is OPAQUE:
                    return OPAQUE
                return ("add", a, b)
            if isinstance(n.op, ast.Mod) and isinstance(a, str):
                args = b if isinstance(b, tuple) else (b,)
                try:
                    return a % tuple(x if isinstance(x, str) else repr(x) for x in args)
                except Exception:
                    return OPAQUE
            return OPAQUE
        if isinstance(n, ast.Tuple):
            return tuple(self.ev(e, env, events) for e in n.elts)
        if isinstance(n, ast.IfExp):
            t = self.truth(n.test, env, events)
            if t is True:
                return self.ev(n.body, env, events)
            if t is False:
                return self.ev(n.orelse, env, events)
            a, b = self.ev(n.body, env, events), self.ev(n.orelse, env, events)
            return a if a == b else (f"‹{a}|{b}›" if isinstance(a, str) and isinstance(b, str) else OPAQUE)
        if isinstance(n, ast.UnaryOp) and isinstance(n.op, ast.USub) and isinstance(n.operand, ast.Constant):
            return -n.operand.value
        if isinstance(n, (ast.Compare, ast.BoolOp, ast.UnaryOp)):
            t = self.truth(n, env, events)
            return OPAQUE if t is None else t
        for c in ast.iter_child_nodes(n):
            if isinstance(c, ast.expr):
                self.ev(c, env, events)
        return OPAQUE

    def truth(self, n, env, events):
        """three-valued: True / False / None (unknown)."""
        if isinstance(n, ast.UnaryOp) and isinstance(n.op, ast.Not):
            t = self.truth(n.operand, env, events)
            return None if t is None else (not t)
        if isinstance(n, ast.BoolOp):
            vals = [self.truth(v, env, events) for v in n.values]
            if isinstance(n.op, ast.And):
                if any(v is False for v in vals):
                    return False
                return True if all(v is True for v in vals) else None
            if any(v is True for v in vals):
                return True
            return False if all(v is False for v in vals) else None
        if isinstance(n, ast.Compare) and len(n.ops) == 1 and isinstance(n.ops[0], (ast.Is, ast.IsNot)):
            a, b = self.ev(n.left, env, events), self.ev(n.comparators[0], env, events)
            if a is OPAQUE or b is OPAQUE:
                return None
            if b is None or a is None:
                same = (a is None and b is None)
                return same if isinstance(n.ops[0], ast.Is) else not same
            return None
        v = self.ev(n, env, events) if not isinstance(n, (ast.Compare, ast.BoolOp, ast.UnaryOp)) else OPAQUE
        if v is OPAQUE:
            return None
        if v is None:
            return False
        if isinstance(v, (SymV, tuple)):
            return True
        if isinstance(v, (bool, int, str)):
            return bool(v)
        return None

    # ---- statements
    def run(self, stmts, env):
        self.paths = []
        self._block(list(stmts), dict(env), [], [])
        return self.paths

    def _finish(self, kind, value, env, events):
        if len(self.paths) >= self.MAX_PATHS:
            raise Unsupported(f"{self.what}: more than {self.MAX_PATHS} paths")
        self.paths.append((kind, value, env, events))

    def _block(self, stmts, env, events, cont):
        """run stmts then the continuation stack `cont` (list of statement lists)."""
        i = 0
        while True:
            if i >= len(stmts):
                if not cont:
                    self._finish("fall", None, env, events)
                    return
                stmts, cont, i = cont[-1], cont[:-1], 0
                continue
            st = stmts[i]
            i += 1
            if isinstance(st, ast.If):
                t = self.truth(st.test, env, events)
                rest = stmts[i:]
                if t is None:
                    self._block(list(st.body), dict(env), list(events), cont + [rest])
                    self._block(list(st.orelse), dict(env), list(events), cont + [rest])
                    return
                stmts, i = list(st.body if t else st.orelse) + rest, 0
                continue
            if isinstance(st, ast.Return):
                v = self.ev(st.value, env, events) if st.value is not None else None
                self._finish("return", v, env, events)
                return
            if isinstance(st, ast.Raise):
                self._finish("raise", None, env, events)
                return
            if isinstance(st, (ast.Assign, ast.AnnAssign)):
                if isinstance(st, ast.AnnAssign) and st.value is None:
                    continue
                v = self.ev(st.value, env, events)
                targets = st.targets if isinstance(st, ast.Assign) else [st.target]
                for t in targets:
                    if isinstance(t, ast.Name):
                        env[t.id] = v
                    elif isinstance(t, (ast.Tuple, ast.List)) and isinstance(v, tuple) and len(v) == len(t.elts):
                        for tt, vv in zip(t.elts, v):
                            if isinstance(tt, ast.Name):
                                env[tt.id] = vv
                    elif isinstance(t, (ast.Tuple, ast.List)):
                        for tt in t.elts:
                            if isinstance(tt, ast.Name):
                                env[tt.id] = OPAQUE
                continue
            if isinstance(st, ast.AugAssign):
                if isinstance(st.target, ast.Name):
                    env[st.target.id] = self.ev(ast.BinOp(left=st.target, op=st.op, right=st.value), env, events)
                continue
            if isinstance(st, ast.Expr):
                self.ev(st.value, env, events)
                continue
            if isinstance(st, (ast.Assert, ast.Pass)):
                continue
            if isinstance(st, ast.For):
                # loops may not touch anything we track: every name they bind becomes opaque
                for n in ast.walk(st):
                    if isinstance(n, ast.Name) and isinstance(n.ctx, ast.Store):
                        env[n.id] = OPAQUE
                continue
            raise Unsupported(f"{self.what}: statement kind {type(st).__name__}")
